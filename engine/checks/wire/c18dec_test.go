package wire

import (
	"bytes"
	"encoding/binary"
	"fmt"
	"sort"
	"sync"
	"sync/atomic"
	"testing"
	"time"

	"github.com/gopacket/gopacket"

	"github.com/scionproto/scion/pkg/slayers"
	"github.com/scionproto/scion/pkg/slayers/path"
	"github.com/scionproto/scion/pkg/slayers/path/empty"
	"github.com/scionproto/scion/pkg/slayers/path/epic"
	"github.com/scionproto/scion/pkg/slayers/path/onehop"
	"github.com/scionproto/scion/pkg/slayers/path/scion"

	"verif/mc"
)

// ---------------------------------------------------------------------------------------------------------
// C18 decoder direction: spec-built seed packets x mutation families -> real layer decoders
// ---------------------------------------------------------------------------------------------------------

// wsParse reads the documented fields out of a byte string whose structure sc was found consistent.
func wsParse(in []byte, sc wsScan) wsHdr {
	w := binary.BigEndian.Uint32(in)
	h := wsHdr{Ver: uint8(w >> 28), TC: uint8(w >> 20), Flow: w & 0xfffff, Next: in[4], HdrLen: in[5],
		PayLen: binary.BigEndian.Uint16(in[6:]), DT: in[9] >> 4, ST: in[9] & 15,
		DstIA: binary.BigEndian.Uint64(in[12:]), SrcIA: binary.BigEndian.Uint64(in[20:])}
	o := 28
	h.Dst = in[o : o+wsAddrLen(h.DT)]
	o += wsAddrLen(h.DT)
	h.Src = in[o : o+wsAddrLen(h.ST)]
	o += wsAddrLen(h.ST)
	p := &h.Path
	p.Type = in[8]
	switch p.Type {
	case wsOneHop:
		p.Infos = []wsInfo{wsGetInfo(in[o:])}
		p.Hops = []wsHop{wsGetHop(in[o+8:]), wsGetHop(in[o+20:])}
	case wsSCION, wsEPIC:
		if p.Type == wsEPIC {
			p.EpicTS, p.EpicCtr = binary.BigEndian.Uint32(in[o:]), binary.BigEndian.Uint32(in[o+4:])
			copy(p.PHVF[:], in[o+8:])
			copy(p.LHVF[:], in[o+12:])
			o += 16
		}
		line := binary.BigEndian.Uint32(in[o:])
		p.CurrINF, p.CurrHF = uint8(line>>30), uint8(line>>24)&63
		p.Seg = [3]uint8{uint8(line>>12) & 63, uint8(line>>6) & 63, uint8(line) & 63}
		o += 4
		for i := 0; i < 3 && p.Seg[i] > 0; i++ {
			p.Infos = append(p.Infos, wsGetInfo(in[o:]))
			o += 8
		}
		for i := 0; i < int(p.Seg[0])+int(p.Seg[1])+int(p.Seg[2]); i++ {
			p.Hops = append(p.Hops, wsGetHop(in[o:]))
			o += 12
		}
	}
	return h
}

type c18seed struct {
	name string
	b    []byte
	// offsets of interesting bytes (absolute)
	extOffs []int // start offsets of extension headers
	optLens []int // offsets of OptDataLen bytes
	optTyps []int // offsets of OptType bytes
	metaOff int   // offset of the path meta word (-1 if none)
	udpOff  int   // offset of the UDP header (-1 if none)
}

func c18Seeds() []c18seed {
	type pathK struct {
		name string
		p    wsPath
	}
	paths := []pathK{
		{"empty", wsPath{Type: wsEmpty}},
		{"onehop", c18MkOneHop(2)},
		{"scion200", c18MkSCION(wsSCION, [3]uint8{2, 0, 0}, 0, 0, 2)},
		{"scion220", c18MkSCION(wsSCION, [3]uint8{2, 2, 0}, 0, 1, 2)},
		{"scion123", c18MkSCION(wsSCION, [3]uint8{1, 2, 3}, 2, 4, 1)},
		{"epic220", c18MkSCION(wsEPIC, [3]uint8{2, 2, 0}, 1, 2, 2)},
	}
	addrs := [][2]uint8{{0x0, 0x0}, {0x3, 0x0}, {0x4, 0x3}, {0x9, 0x6}}
	type l4K struct {
		name string
		next uint8
		b    []byte
	}
	quote := []byte{0x00, 0x00, 0x00, 0x01, 0x11, 0x09, 0x00, 0x08, 0x00, 0x00, 0x00, 0x00}
	udp := func(pl []byte) []byte {
		b := []byte{0x12, 0x34, 0x56, 0x78, 0, uint8(8 + len(pl)), 0xbe, 0xef}
		return append(b, pl...)
	}
	scmp := func(typ, code uint8, body ...byte) []byte { return append([]byte{typ, code, 0x0b, 0xad}, body...) }
	rep := func(n int, v byte) []byte { return bytes.Repeat([]byte{v}, n) }
	l4s := []l4K{
		{"udp", 17, udp([]byte{1, 2, 3, 4, 5})},
		{"echo", 202, scmp(128, 0, 0, 7, 0, 9, 'p', 'i', 'n', 'g')},
		{"traceroute", 202, scmp(130, 0, append([]byte{0, 1, 0, 2}, rep(16, 0x31)...)...)},
		{"paramproblem", 202, scmp(4, 51, append([]byte{0, 0, 0, 44}, quote...)...)},
		{"extifdown", 202, scmp(5, 0, append(rep(16, 0x42), quote...)...)},
		{"intconndown", 202, scmp(6, 0, append(rep(24, 0x43), quote...)...)},
		{"destunreach", 202, scmp(1, 4, append([]byte{0, 0, 0, 0}, quote...)...)},
		{"pkttoobig", 202, scmp(2, 0, append([]byte{0, 0, 0x05, 0xdc}, quote...)...)},
		{"tcp", 6, rep(9, 0x66)},
	}
	hbhOpts := []wsOpt{{Type: 1, Data: []byte{0, 0}}, {Type: 0xfd, Data: []byte{1, 2, 3}}, {Type: 0}} // 4+5+1 = 10 (+2)
	e2eOpts := []wsOpt{c18SPAO(0x00030011, 0, 0x0102030405, rep(16, 0xa7)), {Type: 1, Data: nil}}     // 30+2 = 32 (+2) -> pad
	e2eOpts = append(e2eOpts, wsOpt{Type: 0}, wsOpt{Type: 0})
	var seeds []c18seed
	k := 0
	for _, pk := range paths {
		for ext := 0; ext < 4; ext++ {
			for _, l4 := range l4s {
				ad := addrs[k%len(addrs)]
				k++
				h := wsHdr{Ver: 0, TC: 0x2e, Flow: 0x12345, DT: ad[0], ST: ad[1], DstIA: 0x0001ff0000000110,
					SrcIA: 0x0002ff0000000220, Path: pk.p}
				h.Dst, h.Src = c18Addr(ad[0], 2, false), c18Addr(ad[1], 3, true)
				h.HdrLen = uint8(h.len() / 4)
				var pl []byte
				s := c18seed{metaOff: -1, udpOff: -1}
				base := h.len()
				addExt := func(next uint8, opts []wsOpt) {
					tot := 2
					for _, o := range opts {
						tot += o.size()
					}
					if tot%4 != 0 {
						panic("seed extension not aligned")
					}
					s.extOffs = append(s.extOffs, base+len(pl))
					o := base + len(pl) + 2
					for _, op := range opts {
						s.optTyps = append(s.optTyps, o)
						if op.Type != 0 {
							s.optLens = append(s.optLens, o+1)
						}
						o += op.size()
					}
					pl = append(pl, wsExtBytes(next, uint8(tot/4-1), opts)...)
				}
				switch ext {
				case 0:
					h.Next = l4.next
				case 1:
					h.Next = 200
					addExt(l4.next, hbhOpts)
				case 2:
					h.Next = 201
					addExt(l4.next, e2eOpts)
				case 3:
					h.Next = 200
					addExt(201, hbhOpts)
					addExt(l4.next, e2eOpts)
				}
				if l4.next == 17 {
					s.udpOff = base + len(pl)
				}
				pl = append(pl, l4.b...)
				h.PayLen = uint16(len(pl))
				s.b = append(h.bytes(), pl...)
				s.name = fmt.Sprintf("%s/ext%d/%s", pk.name, ext, l4.name)
				switch pk.p.Type {
				case wsSCION:
					s.metaOff = base - pk.p.len()
				case wsEPIC:
					s.metaOff = base - pk.p.len() + 16
				}
				seeds = append(seeds, s)
			}
		}
	}
	return seeds
}

type c18ctx struct{ fam, seed string }

func (c c18ctx) String() string { return c.fam + " seed=" + c.seed }

type c18worker struct {
	b1, b2 []byte
	sbuf   gopacket.SerializeBuffer

	scn  slayers.SCION
	hbh  slayers.HopByHopExtn
	e2e  slayers.EndToEndExtn
	udp  slayers.UDP
	scmp slayers.SCMP
	// counters
	accepted, rejOverlong, rejOther, rawAccepted int64
	layerAcc                                     map[string]int64
	layerRej                                     map[string]int64
	layerRejOverlong                             map[string]int64
	n                                            int64
}

func newC18Worker() *c18worker {
	w := &c18worker{layerAcc: map[string]int64{}, layerRej: map[string]int64{}, layerRejOverlong: map[string]int64{}}
	w.scn.RecyclePaths()
	w.sbuf = gopacket.NewSerializeBuffer()
	return w
}

func c18MaskedEqual(a, b, mask []byte) int {
	for i := range mask {
		if (a[i]^b[i])&mask[i] != 0 {
			return i
		}
	}
	return -1
}

var c18ScmpMin = map[uint8]int{1: 4, 2: 4, 4: 4, 5: 16, 6: 24, 128: 4, 129: 4, 130: 20, 131: 20}

// decCase runs one byte string through the real layer decoders. full: additionally through gopacket.NewPacket.
func (e *c18env) decCase(in []byte, w *c18worker, fam c18ctx, full bool) {
	if e.viol.Load() >= 3 {
		return // the run has failed already; do not pile work on a broken decoder (it may have gone quadratic)
	}
	w.n++
	sc, _ := wsScanSCION(in)
	var err, err2 error
	fresh := &slayers.SCION{}
	// private copies with cap == len: decoders alias their input, Raw.SerializeTo rewrites the meta word in place,
	// and any read beyond the end of the data must fault instead of silently seeing scratch bytes
	w.b1 = append(w.b1[:0], in...)
	w.b2 = append(w.b2[:0], in...)
	data, data2 := w.b1[:len(in):len(in)], w.b2[:len(in):len(in)]
	if p := mc.Safely(func() { err = fresh.DecodeFromBytes(data, &c18fb{}) }); p != nil {
		e.bad("dec-panic:SCION", fmt.Sprintf("[%s] %x: %v", fam, in, p))
		return
	}
	if p := mc.Safely(func() { err2 = w.scn.DecodeFromBytes(data2, &c18fb{}) }); p != nil {
		e.bad("dec-panic:SCION(recycled)", fmt.Sprintf("[%s] %x: %v", fam, in, p))
		w.scn = slayers.SCION{}
		w.scn.RecyclePaths()
		return
	}
	if full {
		if p := mc.Safely(func() {
			gopacket.NewPacket(in, slayers.LayerTypeSCION, gopacket.DecodeOptions{NoCopy: false, SkipDecodeRecovery: true})
		}); p != nil {
			e.bad("dec-panic:gopacket-stack", fmt.Sprintf("[%s] %x: %v", fam, in, p))
			return
		}
	}
	knownPath := len(in) >= 12 && in[8] <= 3
	if (err == nil) != (err2 == nil) && (knownPath || err2 != nil) {
		e.bad("dec-history-dependent:SCION", fmt.Sprintf("[%s] %x: fresh err=%v recycled err=%v", fam, in, err, err2))
		return
	}
	if sc.Overlong && (err == nil || err2 == nil) {
		e.bad("dec-accepts-overlong:SCION:"+sc.OverlongWhat, fmt.Sprintf("[%s] %x", fam, in))
		return
	}
	reser := func(s *slayers.SCION, mode string) bool {
		buf := w.sbuf
		buf.Clear()
		var serr error
		if p := mc.Safely(func() { serr = s.SerializeTo(buf, gopacket.SerializeOptions{}) }); p != nil || serr != nil {
			e.bad("reserialize-fails:SCION:"+mode, fmt.Sprintf("[%s] %x: %v %v", fam, in, p, serr))
			return false
		}
		out := buf.Bytes()
		if len(out) != sc.PathEnd {
			e.bad("reserialize-length:SCION:"+mode, fmt.Sprintf("[%s] %x -> %x (want %d bytes)", fam, in, out, sc.PathEnd))
			return false
		}
		if i := c18MaskedEqual(out, in, sc.Mask); i >= 0 {
			e.bad("reserialize-differs:SCION:"+mode, fmt.Sprintf("[%s] byte %d: in %x out %x", fam, i, in[:sc.PathEnd], out))
			return false
		}
		return true
	}
	if err != nil {
		if err2 == nil { // unknown path type kept as opaque bytes by a recycling layer
			w.rawAccepted++
			reser(&w.scn, "recycled-raw")
		}
		if sc.Overlong {
			w.rejOverlong++
		} else {
			w.rejOther++
		}
		return
	}
	w.accepted++
	if len(fresh.Contents) != sc.HdrEnd || len(fresh.Payload) != len(in)-sc.HdrEnd || len(w.scn.Contents) != sc.HdrEnd {
		e.bad("dec-contents-payload-split:SCION", fmt.Sprintf("[%s] %x: contents %d payload %d", fam, in, len(fresh.Contents), len(fresh.Payload)))
	}
	want := wsParse(in, sc)
	for i, s := range []*slayers.SCION{fresh, &w.scn} {
		got, rerr := c18FromSlayers(s)
		if rerr != nil {
			e.bad("dec-readback", rerr.Error())
			return
		}
		if f := wsDiff(&want, &got); f != "" {
			e.bad("dec-field:"+f+":"+[]string{"fresh", "recycled"}[i], fmt.Sprintf("[%s] %x: decoded %+v documented %+v", fam, in, got, want))
			return
		}
	}
	if !reser(fresh, "fresh") || !reser(&w.scn, "recycled") {
		return
	}
	e.decChain(in[sc.HdrEnd:], in[4], w, fam)
}

type c18dl interface {
	gopacket.SerializableLayer
	DecodeFromBytes([]byte, gopacket.DecodeFeedback) error
}

// decLayer decodes rest with a fresh and a recycled instance of one layer type; returns whether it was accepted.
func (e *c18env) decLayer(name string, rest []byte, fresh, rec c18dl, mustReject string, hdrLen int, mask []byte,
	w *c18worker, fam c18ctx, truncOK bool) bool {
	var err, err2 error
	fb, fb2 := &c18fb{}, &c18fb{}
	d1, d2 := make([]byte, len(rest)), make([]byte, len(rest)) // cap == len
	copy(d1, rest)
	copy(d2, rest)
	if p := mc.Safely(func() { err = fresh.DecodeFromBytes(d1, fb) }); p != nil {
		e.bad("dec-panic:"+name, fmt.Sprintf("[%s] %x: %v", fam, rest, p))
		return false
	}
	if p := mc.Safely(func() { err2 = rec.DecodeFromBytes(d2, fb2) }); p != nil {
		e.bad("dec-panic:"+name+"(recycled)", fmt.Sprintf("[%s] %x: %v", fam, rest, p))
		return false
	}
	if (err == nil) != (err2 == nil) {
		e.bad("dec-history-dependent:"+name, fmt.Sprintf("[%s] %x: fresh err=%v recycled err=%v", fam, rest, err, err2))
		return false
	}
	if mustReject != "" && err == nil && !(truncOK && fb.truncated && fb2.truncated) {
		e.bad("dec-accepts-overlong:"+name+":"+mustReject, fmt.Sprintf("[%s] %x", fam, rest))
		return false
	}
	if err != nil {
		if mustReject != "" {
			w.layerRejOverlong[name]++
		} else {
			w.layerRej[name]++
		}
		return false
	}
	w.layerAcc[name]++
	for i, l := range []c18dl{fresh, rec} {
		mode := []string{"fresh", "recycled"}[i]
		buf := gopacket.NewSerializeBuffer()
		var serr error
		if p := mc.Safely(func() { serr = l.SerializeTo(buf, gopacket.SerializeOptions{}) }); p != nil || serr != nil {
			e.bad("reserialize-fails:"+name+":"+mode, fmt.Sprintf("[%s] %x: %v %v", fam, rest, p, serr))
			return false
		}
		out := buf.Bytes()
		if len(out) != hdrLen {
			e.bad("reserialize-length:"+name+":"+mode, fmt.Sprintf("[%s] %x -> %x (want %d)", fam, rest, out, hdrLen))
			return false
		}
		if mask == nil {
			if !bytes.Equal(out, rest[:hdrLen]) {
				e.bad("reserialize-differs:"+name+":"+mode, fmt.Sprintf("[%s] in %x out %x", fam, rest[:hdrLen], out))
				return false
			}
		} else if j := c18MaskedEqual(out, rest, mask); j >= 0 {
			e.bad("reserialize-differs:"+name+":"+mode, fmt.Sprintf("[%s] byte %d in %x out %x", fam, j, rest[:hdrLen], out))
			return false
		}
		if lp, ok := l.(interface{ LayerPayload() []byte }); ok && name != "UDP" {
			if !bytes.Equal(lp.LayerPayload(), rest[hdrLen:]) {
				e.bad("dec-payload-split:"+name+":"+mode, fmt.Sprintf("[%s] %x", fam, rest))
				return false
			}
		}
	}
	return true
}

func (e *c18env) decChain(rest []byte, next uint8, w *c18worker, fam c18ctx) {
	seenHBH, seenE2E := false, false
	for {
		switch next {
		case 200, 201:
			es := wsScanExt(rest)
			must := ""
			if es.Overlong {
				must = es.OverlongWhat
			}
			isE2E := next == 201
			if (!isE2E && seenHBH) || (isE2E && seenE2E) {
				return // cannot happen: the previous extension's decoder rejected this NextHdr
			}
			// skippers never look at options
			var skErr error
			if p := mc.Safely(func() {
				if isE2E {
					skErr = (&slayers.EndToEndExtnSkipper{}).DecodeFromBytes(append([]byte{}, rest...), &c18fb{})
				} else {
					skErr = (&slayers.HopByHopExtnSkipper{}).DecodeFromBytes(append([]byte{}, rest...), &c18fb{})
				}
			}); p != nil {
				e.bad("dec-panic:ExtnSkipper", fmt.Sprintf("[%s] %x: %v", fam, rest, p))
				return
			}
			if skErr == nil && (es.OverlongWhat == "ext-base" || es.OverlongWhat == "ExtLen") {
				e.bad("dec-accepts-overlong:ExtnSkipper:"+es.OverlongWhat, fmt.Sprintf("[%s] %x", fam, rest))
				return
			}
			var ok bool
			if isE2E {
				f := &slayers.EndToEndExtn{}
				ok = e.decLayer("E2E", rest, f, &w.e2e, must, es.End, nil, w, fam, false)
				if ok {
					seenE2E = true
					// the authenticator view must not panic on whatever option bytes were accepted
					for _, o := range f.Options {
						o := o
						if p := mc.Safely(func() {
							if po, err := slayers.ParsePacketAuthOption(o); err == nil {
								_, _, _, _ = po.SPI(), po.Algorithm(), po.TimestampSN(), po.Authenticator()
							}
						}); p != nil {
							e.bad("dec-panic:PacketAuthOption", fmt.Sprintf("[%s] %x: %v", fam, rest, p))
						}
					}
					if len(f.Options) != es.NOpts || len(w.e2e.Options) != es.NOpts {
						e.bad("dec-field:Ext.NumOptions", fmt.Sprintf("[%s] %x: %d vs documented %d", fam, rest, len(f.Options), es.NOpts))
					}
				}
			} else {
				f := &slayers.HopByHopExtn{}
				ok = e.decLayer("HBH", rest, f, &w.hbh, must, es.End, nil, w, fam, false)
				if ok {
					seenHBH = true
					if len(f.Options) != es.NOpts || len(w.hbh.Options) != es.NOpts {
						e.bad("dec-field:Ext.NumOptions", fmt.Sprintf("[%s] %x: %d vs documented %d", fam, rest, len(f.Options), es.NOpts))
					}
				}
			}
			if !ok {
				return
			}
			next, rest = rest[0], rest[es.End:]
		case 17:
			must := ""
			if len(rest) < 8 {
				must = "udp-header"
			} else if int(binary.BigEndian.Uint16(rest[4:])) > len(rest) {
				must = "udp-length"
			}
			e.decLayer("UDP", rest, &slayers.UDP{}, &w.udp, must, 8, nil, w, fam, true)
			return
		case 202:
			must := ""
			if len(rest) < 4 {
				must = "scmp-header"
			}
			if !e.decLayer("SCMP", rest, &slayers.SCMP{}, &w.scmp, must, 4, nil, w, fam, false) {
				return
			}
			typ := rest[0]
			body := rest[4:]
			min, known := c18ScmpMin[typ]
			if !known {
				return
			}
			must = ""
			if len(body) < min {
				must = "scmp-info-block"
			}
			mask := bytes.Repeat([]byte{0xff}, min)
			var a, b c18dl
			switch typ {
			case 1:
				a, b = &slayers.SCMPDestinationUnreachable{}, &slayers.SCMPDestinationUnreachable{}
				mask = []byte{0, 0, 0, 0}
			case 2:
				a, b = &slayers.SCMPPacketTooBig{}, &slayers.SCMPPacketTooBig{}
				mask[0], mask[1] = 0, 0
			case 4:
				a, b = &slayers.SCMPParameterProblem{}, &slayers.SCMPParameterProblem{}
				mask[0], mask[1] = 0, 0
			case 5:
				a, b = &slayers.SCMPExternalInterfaceDown{}, &slayers.SCMPExternalInterfaceDown{}
			case 6:
				a, b = &slayers.SCMPInternalConnectivityDown{}, &slayers.SCMPInternalConnectivityDown{}
			case 128, 129:
				a, b = &slayers.SCMPEcho{}, &slayers.SCMPEcho{}
			case 130, 131:
				a, b = &slayers.SCMPTraceroute{}, &slayers.SCMPTraceroute{}
			}
			e.decLayer(fmt.Sprintf("SCMPmsg%d", typ), body, a, b, must, min, mask, w, fam, false)
			return
		default:
			return
		}
	}
}

// decPaths drives the path codecs directly (the SCION layer only ever hands them 4-byte aligned slices): every
// path value of the encoder direction, cut to every length and extended by up to 5 trailing bytes, through every
// path decoder. Accept iff the documented length fits (empty path: iff no bytes).
func (e *c18env) decPaths() int64 {
	type item struct {
		p  wsPath
		nm string
	}
	var items []item
	for _, sh := range c18Shapes(true) {
		for fill := 0; fill < 3; fill++ {
			items = append(items, item{c18MkSCION(wsSCION, sh, uint8(fill), uint8(fill*2), fill), "scion"})
			items = append(items, item{c18MkSCION(wsEPIC, sh, uint8(fill), uint8(fill*2), fill), "epic"})
		}
	}
	for fill := 0; fill < 3; fill++ {
		items = append(items, item{c18MkOneHop(fill), "onehop"})
	}
	var n atomic.Int64
	var acc, rej atomic.Int64
	mc.ParallelFor(len(items), func(ii int) {
		it := items[ii]
		full := make([]byte, it.p.len()+5)
		it.p.put(full)
		for i := it.p.len(); i < len(full); i++ {
			full[i] = 0xee
		}
		var cnt int64
		// REUSED decoder objects: one per codec, fed every length (shorter and longer than before) in turn
		recs := [4]path.Path{&scion.Raw{}, &scion.Decoded{}, &onehop.Path{}, &epic.Path{}}
		for L := 0; L <= len(full); L++ {
			for dec := 0; dec < 5; dec++ {
				in := make([]byte, L)
				copy(in, full)
				orig := append([]byte{}, in...)
				var pp path.Path
				switch dec {
				case 0:
					pp = &scion.Raw{}
				case 1:
					pp = &scion.Decoded{}
				case 2:
					pp = &onehop.Path{}
				case 3:
					pp = &epic.Path{}
				case 4:
					pp = empty.Path{}
				}
				// documented length requirement of decoder `dec` on these bytes
				need, valid := 0, true
				mo := 0
				var mask []byte
				switch dec {
				case 0, 1, 3:
					if dec == 3 {
						mo = 16
					}
					need = mo + 4
					if L >= need {
						m := specMeta(binary.BigEndian.Uint32(orig[mo:]))
						valid = m.valid()
						need += 8*m.numINF() + 12*m.numHops()
					}
				case 2:
					need = 32
				case 4:
					valid = L == 0
				}
				cnt++
				var err error
				if p := mc.Safely(func() { err = pp.DecodeFromBytes(in) }); p != nil {
					e.bad(fmt.Sprintf("dec-panic:path-codec-%d", dec), fmt.Sprintf("%s bytes %x: %v", it.nm, orig, p))
					continue
				}
				if L < need && err == nil {
					e.bad(fmt.Sprintf("dec-accepts-overlong:path-codec-%d", dec), fmt.Sprintf("%s: %d bytes given, %d declared: %x", it.nm, L, need, orig))
					continue
				}
				if err != nil {
					rej.Add(1)
					continue
				}
				if !valid {
					continue // acceptance of invalid segment layouts is C19's business
				}
				acc.Add(1)
				if dec == 4 {
					continue
				}
				if pp.Len() != need {
					e.bad(fmt.Sprintf("dec-field:path-codec-%d:Len", dec), fmt.Sprintf("%s: Len()=%d documented %d", it.nm, pp.Len(), need))
					continue
				}
				{
					in2 := make([]byte, L)
					copy(in2, full)
					rp := recs[dec]
					var rerr error
					out2 := make([]byte, need)
					if p := mc.Safely(func() {
						if rerr = rp.DecodeFromBytes(in2); rerr == nil && rp.Len() == need {
							rerr = rp.SerializeTo(out2)
						}
					}); p != nil || rerr != nil || rp.Len() != need {
						e.bad(fmt.Sprintf("dec-history-dependent:path-codec-%d", dec), fmt.Sprintf("%s %x: reused decoder: %v %v Len %d (fresh accepted, Len %d)",
							it.nm, orig, p, rerr, rp.Len(), need))
						continue
					}
					fr := make([]byte, need)
					if err := pp.SerializeTo(fr); err != nil || !bytes.Equal(fr, out2) {
						e.bad(fmt.Sprintf("dec-history-dependent:path-codec-%d", dec), fmt.Sprintf("%s %x: reused decoder re-serializes to %x, fresh to %x", it.nm, orig, out2, fr))
						continue
					}
				}
				out := make([]byte, need)
				if p := mc.Safely(func() { err = pp.SerializeTo(out) }); p != nil || err != nil {
					e.bad(fmt.Sprintf("reserialize-fails:path-codec-%d", dec), fmt.Sprintf("%s %x: %v %v", it.nm, orig, p, err))
					continue
				}
				mask = bytes.Repeat([]byte{0xff}, need)
				o := mo
				if dec != 2 {
					m := specMeta(binary.BigEndian.Uint32(orig[mo:]))
					mask[o+1] = 0x03
					o += 4
					for i := 0; i < m.numINF(); i++ {
						mask[o], mask[o+1] = 3, 0
						o += 8
					}
					for i := 0; i < m.numHops(); i++ {
						mask[o] = 3
						o += 12
					}
				} else {
					mask[0], mask[1], mask[8], mask[20] = 3, 0, 3, 3
				}
				if j := c18MaskedEqual(out, orig, mask); j >= 0 {
					e.bad(fmt.Sprintf("reserialize-differs:path-codec-%d", dec), fmt.Sprintf("%s byte %d in %x out %x", it.nm, j, orig[:need], out))
				}
			}
		}
		// info and hop field codecs on every length
		for L := 0; L <= 14; L++ {
			var inf path.InfoField
			var hf path.HopField
			b := make([]byte, L)
			for i := range b {
				b[i] = byte(0x91 + i*ii)
			}
			var e1, e2 error
			if p := mc.Safely(func() { e1 = inf.DecodeFromBytes(b); e2 = hf.DecodeFromBytes(b) }); p != nil {
				e.bad("dec-panic:info/hop-field", fmt.Sprintf("%x: %v", b, p))
			}
			if (e1 == nil) != (L >= 8) || (e2 == nil) != (L >= 12) {
				e.bad("dec-accepts-overlong:info/hop-field", fmt.Sprintf("%d bytes: info err=%v hop err=%v", L, e1, e2))
			}
			if e1 == nil && c18InfoBack(inf) != wsGetInfo(b) {
				e.bad("dec-field:InfoField", fmt.Sprintf("%x", b))
			}
			if e2 == nil && c18HopBack(hf) != wsGetHop(b) {
				e.bad("dec-field:HopField", fmt.Sprintf("%x", b))
			}
			cnt += 2
		}
		n.Add(cnt)
		e.r.CaseBulk(cnt, cnt)
	})
	if acc.Load() > 0 && rej.Load() > 0 {
		e.r.Outcome("path-codec-accepted")
		e.r.Outcome("path-codec-rejected")
	}
	e.r.Extra["path_codec_direct"] = map[string]int64{"accepted": acc.Load(), "rejected": rej.Load()}
	return n.Load()
}

var c18ByteVals = func() [][2]int { // (mode, value): mode 0 = set, 1 = xor
	v := [][2]int{{0, 0x00}, {0, 0x01}, {0, 0x7f}, {0, 0x80}, {0, 0xff}}
	for b := 0; b < 8; b++ {
		v = append(v, [2]int{1, 1 << b})
	}
	return v
}()

func c18Mut(b []byte, off int, mv [2]int) {
	if mv[0] == 0 {
		b[off] = byte(mv[1])
	} else {
		b[off] ^= byte(mv[1])
	}
}

func (e *c18env) dec() {
	seeds := c18Seeds()
	e.r.Extra["decoder_seeds"] = len(seeds)
	var mu sync.Mutex
	tot := newC18Worker()
	fams := map[string]int64{}
	merge := func(w *c18worker, local map[string]int64) {
		mu.Lock()
		defer mu.Unlock()
		tot.accepted += w.accepted
		tot.rejOverlong += w.rejOverlong
		tot.rejOther += w.rejOther
		tot.rawAccepted += w.rawAccepted
		tot.n += w.n
		for k, v := range w.layerAcc {
			tot.layerAcc[k] += v
		}
		for k, v := range w.layerRej {
			tot.layerRej[k] += v
		}
		for k, v := range w.layerRejOverlong {
			tot.layerRejOverlong[k] += v
		}
		for k, v := range local {
			fams[k] += v
		}
		e.r.CaseBulk(w.n, w.n)
	}
	// the unmutated seeds must be accepted down to the L4 layer (sanity of the seed builder and non-vacuity)
	{
		w := newC18Worker()
		for _, s := range seeds {
			before := w.accepted
			e.decCase(s.b, w, c18ctx{"seed", s.name}, true)
			if w.accepted == before {
				e.r.HarnessError("seed %s not accepted by the decoder: %x", s.name, s.b)
			}
		}
		merge(w, map[string]int64{"seed": int64(len(seeds))})
	}
	pairSeed := func(i int) bool { return i%9 == (i/9)%9 } // a diagonal: every path x ext kind, L4 rotating
	var stop atomic.Bool
	mc.ParallelFor(len(seeds), func(si int) {
		if stop.Load() {
			return
		}
		s := seeds[si]
		w := newC18Worker()
		local := map[string]int64{}
		m := make([]byte, len(s.b))
		run := func(fam string, in []byte, full bool) {
			e.decCase(in, w, c18ctx{fam, s.name}, full)
			local[fam]++
		}
		lim := len(s.b)
		if lim > 160 {
			lim = 160
		}
		// F1 byte values / bit flips
		for off := 0; off < lim; off++ {
			for _, mv := range c18ByteVals {
				copy(m, s.b)
				c18Mut(m, off, mv)
				run("byte", m, true)
			}
		}
		// F2 truncation
		for l := 0; l < len(s.b); l++ {
			run("truncate", s.b[:l], true)
		}
		// F3 HdrLen, F6 address type/length nibbles, F4 PayloadLen
		for v := 0; v < 256; v++ {
			copy(m, s.b)
			m[5] = byte(v)
			run("HdrLen", m, true)
			copy(m, s.b)
			m[9] = byte(v)
			run("DT/DL/ST/SL", m, true)
		}
		for _, v := range []int{0, 1, len(s.b) - 1, len(s.b), len(s.b) + 1, 0xffff} {
			copy(m, s.b)
			binary.BigEndian.PutUint16(m[6:], uint16(v))
			run("PayloadLen", m, true)
		}
		// F7 extension lengths / option lengths / option types
		for _, eo := range s.extOffs {
			for v := 0; v < 256; v++ {
				copy(m, s.b)
				m[eo+1] = byte(v)
				run("ExtLen", m, true)
				copy(m, s.b)
				m[eo] = byte(v)
				run("Ext.NextHdr", m, true)
			}
		}
		for _, oo := range s.optLens {
			for v := 0; v < 256; v++ {
				copy(m, s.b)
				m[oo] = byte(v)
				run("OptDataLen", m, true)
			}
		}
		for _, oo := range s.optTyps {
			for v := 0; v < 256; v++ {
				copy(m, s.b)
				m[oo] = byte(v)
				run("OptType", m, true)
			}
		}
		if s.udpOff >= 0 && si%4 == 0 {
			for v := 0; v < 65536; v++ {
				copy(m, s.b)
				binary.BigEndian.PutUint16(m[s.udpOff+4:], uint16(v))
				run("UDP.Length", m, false)
			}
		}
		if e.r.OutOfBudget() {
			stop.Store(true)
		}
		if !pairSeed(si) || stop.Load() {
			merge(w, local)
			return
		}
		// ---- two mutations at a time ----
		// P1 HdrLen x truncation
		for v := 0; v < 256; v++ {
			copy(m, s.b)
			m[5] = byte(v)
			for l := 12; l <= len(s.b); l++ {
				run("HdrLen x truncate", m[:l], false)
			}
		}
		// P2 ExtLen / OptDataLen x truncation
		for _, eo := range s.extOffs {
			for v := 0; v < 256; v++ {
				copy(m, s.b)
				m[eo+1] = byte(v)
				for l := eo; l <= len(s.b); l++ {
					run("ExtLen x truncate", m[:l], false)
				}
			}
		}
		for _, oo := range s.optLens {
			for v := 0; v < 256; v++ {
				copy(m, s.b)
				m[oo] = byte(v)
				for l := oo; l <= len(s.b); l++ {
					run("OptDataLen x truncate", m[:l], false)
				}
			}
		}
		// P3 address nibbles x HdrLen (quick: the ext3 seed of every path kind)
		for a := 0; a < 256 && (mc.Thorough() || (si/9)%4 == 3); a++ {
			for v := 0; v < 256; v++ {
				copy(m, s.b)
				m[9], m[5] = byte(a), byte(v)
				run("DT/DL/ST/SL x HdrLen", m, false)
			}
		}
		// F8 path meta: all SegLen combinations (x the seed's pointers); thorough: whole meta word on two seeds
		if s.metaOff >= 0 && (mc.Thorough() || (si/9)%4 == 3) {
			top := binary.BigEndian.Uint32(s.b[s.metaOff:]) & 0xff000000
			for v := uint32(0); v < 1<<18; v++ {
				copy(m, s.b)
				binary.BigEndian.PutUint32(m[s.metaOff:], top|v)
				run("SegLen", m, false)
			}
		}
		if e.r.OutOfBudget() {
			stop.Store(true)
		}
		merge(w, local)
	})
	// F5 PathType x NextHdr: all 65536 on three seeds
	f5 := []int{0, len(seeds) / 2, len(seeds) - 1}
	mc.ParallelFor(len(f5)*256, func(i int) {
		s := seeds[f5[i/256]]
		w := newC18Worker()
		m := append([]byte{}, s.b...)
		m[8] = byte(i % 256)
		for nh := 0; nh < 256; nh++ {
			m[4] = byte(nh)
			e.decCase(m, w, c18ctx{"PathType x NextHdr", s.name}, true)
		}
		merge(w, map[string]int64{"PathType x NextHdr": 256})
	})
	if mc.Thorough() && !stop.Load() {
		// whole path meta word (2^26) on one SCION and one EPIC seed
		var ms []c18seed
		for _, s := range seeds {
			if s.metaOff >= 0 && (s.name == "scion123/ext0/udp" || s.name == "epic220/ext3/echo") {
				ms = append(ms, s)
			}
		}
		mc.ParallelFor(len(ms)*256, func(i int) {
			if stop.Load() {
				return
			}
			s := ms[i/256]
			w := newC18Worker()
			m := append([]byte{}, s.b...)
			top := uint32(i%256) << 24
			for v := uint32(0); v < 1<<24; v += 1 {
				if v&(0x3f<<18) != 0 { // RSV bits: only all-zero and all-one
					if v&(0x3f<<18) != 0x3f<<18 || v&0xfff != 0x0c3 {
						continue
					}
				}
				binary.BigEndian.PutUint32(m[s.metaOff:], top|v)
				e.decCase(m, w, c18ctx{"PathMeta", s.name}, false)
			}
			merge(w, map[string]int64{"PathMeta": w.n})
			if e.r.OutOfBudget() {
				stop.Store(true)
			}
		})
		// pairs of byte mutations in the first 64 bytes on the diagonal seeds
		var ps []int
		for i := range seeds {
			if pairSeed(i) {
				ps = append(ps, i)
			}
		}
		const span = 64
		mc.ParallelFor(len(ps)*span, func(i int) {
			if stop.Load() {
				return
			}
			s := seeds[ps[i/span]]
			o1 := i % span
			if o1 >= len(s.b) {
				return
			}
			w := newC18Worker()
			m := make([]byte, len(s.b))
			for _, mv1 := range c18ByteVals {
				for o2 := o1 + 1; o2 < span && o2 < len(s.b); o2++ {
					for _, mv2 := range c18ByteVals {
						copy(m, s.b)
						c18Mut(m, o1, mv1)
						c18Mut(m, o2, mv2)
						e.decCase(m, w, c18ctx{"byte x byte", s.name}, false)
					}
				}
			}
			merge(w, map[string]int64{"byte x byte": w.n})
			if e.r.OutOfBudget() {
				stop.Store(true)
			}
		})
	}
	if stop.Load() {
		e.r.Capped("decoder-direction mutation families stopped by the time budget")
	}
	if tot.accepted > 0 {
		e.r.Outcome("dec-accepted")
	}
	if tot.rejOverlong > 0 {
		e.r.Outcome("dec-rejected-declared-length-exceeds-data")
	}
	if tot.rejOther > 0 {
		e.r.Outcome("dec-rejected-other")
	}
	if tot.rawAccepted > 0 {
		e.r.Outcome("dec-unknown-path-opaque")
	}
	layers := map[string]any{}
	var names []string
	for k := range tot.layerAcc {
		names = append(names, k)
	}
	sort.Strings(names)
	for _, k := range names {
		layers[k] = map[string]int64{"accepted": tot.layerAcc[k], "rejected_overlong": tot.layerRejOverlong[k], "rejected_other": tot.layerRej[k]}
	}
	e.r.Extra["decoder_scion_layer"] = map[string]int64{"accepted": tot.accepted, "rejected_overlong": tot.rejOverlong,
		"rejected_other": tot.rejOther, "unknown_path_kept_opaque": tot.rawAccepted}
	e.r.Extra["decoder_upper_layers"] = layers
	e.r.Extra["decoder_families"] = fams
	for _, l := range []string{"HBH", "E2E", "UDP", "SCMP"} {
		if tot.layerAcc[l] == 0 || tot.layerRejOverlong[l] == 0 {
			e.r.HarnessError("decoder direction vacuous for layer %s: accepted %d rejected-overlong %d", l, tot.layerAcc[l], tot.layerRejOverlong[l])
		}
	}
}

func TestC18(t *testing.T) {
	r := mc.NewRun(t, "C18", mc.Exploration)
	r.Rule = "encoder direction: every enumerated header VALUE is a distinct tuple of field values (full product of boundary " +
		"values {0,1,max-1,max} inside each field group, every position, every address type/length code, every path shape " +
		"<=(3,3,3) plus 5 large ones, option sequences up to the tier's length, Reset histories on one authenticator option) and is non-trivial by construction; decoder " +
		"direction: every case is a distinct byte string = spec-built seed packet x one mutation (or two, pair families); " +
		"counted per family"
	e := &c18env{r: r}
	phase := map[string]float64{}
	timed := func(name string, f func()) {
		if r.Violations() > 0 { // a failing phase ends the run: later phases would only repeat the finding
			return
		}
		t0 := time.Now()
		f()
		phase[name] = time.Since(t0).Seconds()
	}
	timed("enc_common", func() { r.Extra["enc_common_address_cases"] = e.encCommon() })
	r.Outcome("enc-roundtrip-ok")
	timed("enc_paths", func() { r.Extra["enc_path_cases"] = e.encPaths() })
	timed("enc_hosts", func() { r.Extra["enc_host_cases"] = e.encHosts() })
	timed("enc_ext", func() { r.Extra["enc_extension_cases"] = e.encExt() })
	timed("enc_reuse", func() { r.Extra["enc_reused_object_cases"] = e.encReuse() })
	timed("enc_l4", func() { r.Extra["enc_l4_cases"] = e.encL4() })
	timed("dec_paths", func() { r.Extra["dec_path_codec_cases"] = e.decPaths() })
	timed("dec", e.dec)
	r.Extra["phase_seconds"] = phase
	r.Sample(map[string]any{"encoder_value": fmt.Sprintf("%+v", *c18BaseHdr(0, c18MkSCION(wsSCION, [3]uint8{1, 2, 0}, 1, 2, 2)))})
	s := c18Seeds()
	r.Sample(map[string]any{"decoder_seed": s[40].name, "bytes": fmt.Sprintf("%x", s[40].b)})
	r.Assumptions = []string{
		"layout reference = doc/protocols/scion-header.rst, extension-header.rst, authenticator-option.rst, scmp.rst; reserved = " +
			"RSV fields of common/meta/info/hop headers, bytes between end of path and HdrLen*4, SCMP reserved/unused words",
		"'declared lengths' = those a layer decoder uses to delimit what it reads: HdrLen, DL/SL, SegLen, ExtLen, OptDataLen, " +
			"SCMP info-block size, UDP header; PayloadLen is not interpreted by the layer decoder (the router validates it)",
		"UDP.Length larger than the data counts as handled when the decoder reports truncation through DecodeFeedback " +
			"(it then keeps the available bytes, like gopacket's UDP layer) - weaker reading of 'rejects'",
		"with FixLengths the serializer may insert padding options: option lists are compared modulo Pad1/PadN and each " +
			"option must sit at an offset satisfying its xn+y alignment",
		"a recycling layer (RecyclePaths) keeps unknown path types as opaque bytes; a fresh layer rejects them; both accepted",
		"reused objects: after Reset / re-assignment of all exported fields an object must behave like a fresh one; that a Reset of an " +
			"option decoded from a packet writes into that packet's buffer (documented buffer reuse) is not judged",
		"header values outside the wire domain (FlowID >= 2^20, option data > 255 bytes, address length != DL/SL) are not header values",
	}
	r.Finish(11)
}
