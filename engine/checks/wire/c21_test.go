package wire

import (
	"crypto/aes"
	"encoding/binary"
	"encoding/hex"
	"fmt"
	"sort"
	"sync"
	"sync/atomic"
	"testing"

	"github.com/scionproto/scion/pkg/slayers"
	"github.com/scionproto/scion/pkg/slayers/path/scion"
	"github.com/scionproto/scion/pkg/spao"

	"verif/mc"
)

// C21: the SPAO authenticator covers exactly the immutable packet fields.
//
// Packets are spec-built byte strings (wirespec.go), decoded by the real slayers code the way a receiver or the
// router does, and authenticated with the real spao.ComputeAuthCMAC. Two oracles:
//  (1) exact: for traffic-class-neutral base packets the MAC equals an independent AES-CMAC (RFC 4493, own code)
//      over the MAC input laid out from authenticator-option.rst "Authenticated Data";
//  (2) coverage table: every single bit of the SCION common/address/path header, every bit of algorithm, timestamp,
//      upper-layer type and payload, payload length and the extension headers is classified from the documents as
//      COVERED (MAC must change), EXCLUDED/mutable (MAC must not change) or UNJUDGED (reserved bits, HdrLen), the
//      bit is flipped in the packet and the real MAC of the flipped packet is compared with the base MAC.

// ---- independent AES-CMAC (RFC 4493) ----

func wsCMAC(key, msg []byte) ([16]byte, error) {
	var out [16]byte
	c, err := aes.NewCipher(key)
	if err != nil {
		return out, err
	}
	dbl := func(in [16]byte) (o [16]byte) {
		for i := 0; i < 16; i++ {
			o[i] = in[i] << 1
			if i < 15 {
				o[i] |= in[i+1] >> 7
			}
		}
		if in[0]&0x80 != 0 {
			o[15] ^= 0x87
		}
		return o
	}
	var l [16]byte
	c.Encrypt(l[:], l[:])
	k1 := dbl(l)
	k2 := dbl(k1)
	n := (len(msg) + 15) / 16
	if n == 0 {
		n = 1
	}
	var last [16]byte
	if len(msg) > 0 && len(msg)%16 == 0 {
		copy(last[:], msg[(n-1)*16:])
		for i := range last {
			last[i] ^= k1[i]
		}
	} else {
		rem := msg[(n-1)*16:]
		copy(last[:], rem)
		last[len(rem)] = 0x80
		for i := range last {
			last[i] ^= k2[i]
		}
	}
	var x [16]byte
	for b := 0; b < n-1; b++ {
		for i := 0; i < 16; i++ {
			x[i] ^= msg[b*16+i]
		}
		c.Encrypt(x[:], x[:])
	}
	for i := 0; i < 16; i++ {
		x[i] ^= last[i]
	}
	c.Encrypt(x[:], x[:])
	return x, nil
}

// ---- SPI kinds ----

type c21spi struct {
	name   string
	spi    uint32
	drkey  bool
	asHost bool // DRKey type 0
	sender bool // DRKey direction 0
}

var c21spis = []c21spi{
	{"drkey-ashost-sender", 0x00000019, true, true, true},
	{"drkey-ashost-receiver", 0x00010019, true, true, false},
	{"drkey-hosthost-sender", 0x00020019, true, false, true},
	{"drkey-hosthost-receiver", 0x0003ffff, true, false, false},
	{"drkey-max-with-reserved-bits", 0x001cffff, true, true, true}, // R bits set, T=0 D=0: still < 2^21
	{"non-drkey", 0x00200000, false, false, false},
	{"non-drkey-high", 0xfedcba98, false, false, false},
}

// c21SPIGrid: the boundary values of every sub-field of the SPI, multiplied out: bits 31..21 (0 = DRKey range, lowest and
// all bits set = beyond the range), the three reserved bits R (all 8 values), type T, direction D, and the 16-bit
// protocol identifier {0, 1, max-1, max}. Classification strictly from authenticator-option.rst: an SPI identifies a
// DRKey iff 1 <= SPI <= 2^21-1 (whatever its sub-fields are); then T=0 means AS-host key, D=0 sender side.
// SPI 0 (reserved for local use, never on the wire) is left out.
func c21SPIGrid() []c21spi {
	var out []c21spi
	for _, up := range []uint32{0, 1, 0x7ff} {
		for r := uint32(0); r < 8; r++ {
			for t := uint32(0); t < 2; t++ {
				for d := uint32(0); d < 2; d++ {
					for pi, proto := range []uint32{0, 1, 0xfffe, 0xffff} {
						spi := up<<21 | r<<18 | t<<17 | d<<16 | proto
						if spi == 0 {
							continue
						}
						dr := spi >= 1 && spi <= 1<<21-1
						rc := "0"
						if r == 7 {
							rc = "max"
						} else if r > 0 {
							rc = "mid"
						}
						name := fmt.Sprintf("grid:upper=%s,R=%s,T=%d,D=%d,proto=%s", []string{"0", "1", "", "max"}[min(up, 3)], rc, t, d,
							[]string{"0", "1", "max-1", "max"}[pi])
						out = append(out, c21spi{name, spi, dr, t == 0, d == 0})
					}
				}
			}
		}
	}
	return out
}

func (s c21spi) dstCovered() bool { return !s.drkey || (s.asHost && !s.sender) }
func (s c21spi) srcCovered() bool { return !s.drkey || (s.asHost && s.sender) }

// ---- documented MAC input ----

// c21DocInput lays the authenticated data out from the packet header bytes hdr (common+address+path, no slack),
// as specified in authenticator-option.rst.
func c21DocInput(hdr []byte, sc wsScan, s c21spi, alg uint8, ts uint64, pldType uint8, pld []byte) []byte {
	var b []byte
	// 1. authenticator option metadata
	b = append(b, hdr[5], pldType)
	b = binary.BigEndian.AppendUint16(b, uint16(len(pld)))
	b = append(b, alg, 0)
	for i := 5; i >= 0; i-- {
		b = append(b, byte(ts>>(8*i)))
	}
	// 2. common header without the second row; traffic class with the ECN bits (its two low-order bits) cleared
	first := binary.BigEndian.Uint32(hdr) &^ (uint32(0x03) << 20)
	b = binary.BigEndian.AppendUint32(b, first)
	b = append(b, hdr[8], hdr[9], 0, 0)
	// 3. address header
	dl, sl := wsAddrLen(hdr[9]>>4), wsAddrLen(hdr[9])
	if !s.drkey {
		b = append(b, hdr[12:28]...)
	}
	if s.dstCovered() {
		b = append(b, hdr[28:28+dl]...)
	}
	if s.srcCovered() {
		b = append(b, hdr[28+dl:28+dl+sl]...)
	}
	// 4. path with the mutable fields zeroed
	p := append([]byte{}, hdr[sc.PathOff:sc.PathEnd]...)
	zeroSCION := func(q []byte) {
		line := binary.BigEndian.Uint32(q)
		q[0] = 0 // CurrINF, CurrHF
		seg := []int{int(line>>12) & 63, int(line>>6) & 63, int(line) & 63}
		o := 4
		nh := 0
		for i := 0; i < 3 && seg[i] > 0; i++ {
			q[o+2], q[o+3] = 0, 0 // SegID
			o += 8
			nh += seg[i]
		}
		for i := 0; i < nh; i++ {
			q[o] &^= 0x03 // router alerts
			o += 12
		}
	}
	switch sc.PathType {
	case wsSCION:
		zeroSCION(p)
	case wsEPIC:
		zeroSCION(p[16:])
	case wsOneHop:
		p[2], p[3] = 0, 0
		p[8] &^= 0x03
		for i := 20; i < 32; i++ {
			p[i] = 0
		}
	}
	b = append(b, p...)
	// 5. upper-layer payload
	return append(b, pld...)
}

// ---- coverage table ----

const (
	c21Covered   = iota // immutable and authenticated: flipping must change the MAC
	c21Excluded         // mutable / excluded: flipping must not change the MAC
	c21Unjudged         // reserved bits, HdrLen: no verdict
	c21IfDecodes        // covered structural field: must change if the flipped packet still decodes
)

// c21Classify: verdict and field name for bit `mask` of header byte `off` of a packet with layout sc.
func c21Classify(hdr []byte, sc wsScan, s c21spi, off int, mask byte) (int, string) {
	dl, sl := wsAddrLen(hdr[9]>>4), wsAddrLen(hdr[9])
	switch {
	case off == 0 && mask >= 0x10:
		return c21Covered, "Version"
	case off == 0:
		return c21Covered, "TrafficClass.DSCP"
	case off == 1 && mask >= 0x40:
		return c21Covered, "TrafficClass.DSCP"
	case off == 1 && mask >= 0x10:
		return c21Excluded, "TrafficClass.ECN"
	case off <= 3:
		return c21Covered, "FlowID"
	case off == 4:
		return c21Excluded, "NextHdr"
	case off == 5:
		return c21Unjudged, "HdrLen"
	case off <= 7:
		return c21Excluded, "PayloadLen"
	case off == 8:
		return c21IfDecodes, "PathType"
	case off == 9:
		switch mask {
		case 0x80, 0x40:
			return c21Covered, "DstAddrType.T"
		case 0x08, 0x04:
			return c21Covered, "SrcAddrType.T"
		}
		return c21IfDecodes, "AddrType.L"
	case off <= 11:
		return c21Unjudged, "CommonHdr.RSV"
	case off < 20:
		if s.drkey {
			return c21Excluded, "DstIA(DRKey)"
		}
		return c21Covered, "DstIA"
	case off < 28:
		if s.drkey {
			return c21Excluded, "SrcIA(DRKey)"
		}
		return c21Covered, "SrcIA"
	case off < 28+dl:
		if s.dstCovered() {
			return c21Covered, "DstHost"
		}
		return c21Excluded, "DstHost(DRKey-excluded)"
	case off < 28+dl+sl:
		if s.srcCovered() {
			return c21Covered, "SrcHost"
		}
		return c21Excluded, "SrcHost(DRKey-excluded)"
	}
	o := off - sc.PathOff
	info := func(o int) (int, string) {
		switch {
		case o == 0 && mask <= 0x02:
			return c21Covered, "Info.Flags(P,C)"
		case o <= 1:
			return c21Unjudged, "Info.RSV"
		case o <= 3:
			return c21Excluded, "Info.SegID"
		}
		return c21Covered, "Info.Timestamp"
	}
	hop := func(o int) (int, string) {
		switch {
		case o == 0 && mask <= 0x02:
			return c21Excluded, "Hop.RouterAlerts"
		case o == 0:
			return c21Unjudged, "Hop.RSV"
		case o == 1:
			return c21Covered, "Hop.ExpTime"
		case o <= 3:
			return c21Covered, "Hop.ConsIngress"
		case o <= 5:
			return c21Covered, "Hop.ConsEgress"
		}
		return c21Covered, "Hop.MAC"
	}
	switch sc.PathType {
	case wsOneHop:
		switch {
		case o < 8:
			return info(o)
		case o < 20:
			return hop(o - 8)
		}
		return c21Excluded, "OneHop.SecondHop"
	case wsEPIC:
		switch {
		case o < 8:
			return c21Covered, "EPIC.PktID"
		case o < 12:
			return c21Covered, "EPIC.PHVF"
		case o < 16:
			return c21Covered, "EPIC.LHVF"
		}
		o -= 16
		fallthrough
	case wsSCION:
		mo := off - o
		line := binary.BigEndian.Uint32(hdr[mo:])
		ninf := 0
		for i, sh := range []uint{12, 6, 0} {
			if (line>>sh)&63 > 0 {
				ninf = i + 1
			}
		}
		switch {
		case o == 0:
			return c21Excluded, "PathMeta.CurrINF/CurrHF"
		case o == 1 && mask >= 0x04:
			return c21Unjudged, "PathMeta.RSV"
		case o < 4:
			return c21IfDecodes, "PathMeta.SegLen"
		case o < 4+8*ninf:
			return info((o - 4) % 8)
		}
		return hop((o - 4 - 8*ninf) % 12)
	}
	return c21Unjudged, "?"
}

// ---- real MAC of a packet ----

var c21Key = []byte{0x00, 0x11, 0x22, 0x33, 0x44, 0x55, 0x66, 0x77, 0x88, 0x99, 0xaa, 0xbb, 0xcc, 0xdd, 0xee, 0xff}

type c21w struct {
	aux [spao.MACBufferSize]byte
	out [16]byte
	opt slayers.PacketAuthOption
}

func newC21w() *c21w {
	o, _ := slayers.NewPacketAuthOption(slayers.PacketAuthOptionParams{Auth: make([]byte, 16)})
	return &c21w{opt: o}
}

// mac decodes hdr with the real SCION layer decoder and runs the real ComputeAuthCMAC. decoded=false: the header is
// not accepted by the decoder. asDecoded: hand the SCION path over in the scion.Decoded representation.
func (w *c21w) mac(hdr []byte, s c21spi, alg uint8, ts uint64, pldType uint8, pld []byte, asDecoded bool,
	tweak func(*slayers.SCION)) (m [16]byte, decoded bool, err error) {
	var scn slayers.SCION
	data := append([]byte{}, hdr...)
	if derr := scn.DecodeFromBytes(data, &c18fb{}); derr != nil {
		return m, false, nil
	}
	if asDecoded {
		switch p := scn.Path.(type) {
		case *scion.Raw:
			d, derr := p.ToDecoded()
			if derr != nil {
				return m, false, nil
			}
			scn.Path = d
		default:
			return m, false, nil
		}
	}
	if tweak != nil {
		tweak(&scn)
	}
	if rerr := w.opt.Reset(slayers.PacketAuthOptionParams{SPI: slayers.PacketAuthSPI(s.spi), Algorithm: slayers.PacketAuthAlg(alg),
		TimestampSN: ts, Auth: w.out[:]}); rerr != nil {
		return m, true, rerr
	}
	res, cerr := spao.ComputeAuthCMAC(spao.MACInput{Key: c21Key, Header: w.opt, ScionLayer: &scn,
		PldType: slayers.L4ProtocolType(pldType), Pld: pld}, w.aux[:], w.out[:])
	if cerr != nil {
		return m, true, cerr
	}
	copy(m[:], res)
	return m, true, nil
}

// c21Parse walks the real extension decoders from the end of the SCION header to the upper layer.
func c21Parse(pkt []byte) (hdrLen int, pldType uint8, pld []byte, err error) {
	var scn slayers.SCION
	if err = scn.DecodeFromBytes(append([]byte{}, pkt...), &c18fb{}); err != nil {
		return
	}
	hdrLen = len(scn.Contents)
	next, rest := scn.NextHdr, scn.Payload
	if next == slayers.HopByHopClass {
		var h slayers.HopByHopExtn
		if err = h.DecodeFromBytes(rest, &c18fb{}); err != nil {
			return
		}
		next, rest = h.NextHdr, h.Payload
	}
	if next == slayers.End2EndClass {
		var x slayers.EndToEndExtn
		if err = x.DecodeFromBytes(rest, &c18fb{}); err != nil {
			return
		}
		next, rest = x.NextHdr, x.Payload
	}
	return hdrLen, uint8(next), rest, nil
}

type c21stat struct {
	covered, excluded, unjudged, undecodable, exact int64
}

type c21env struct {
	r      *mc.Run
	mu     sync.Mutex
	fields map[string]*[4]int64 // per field: covered-ok, excluded-ok, unjudged, undecodable
	st     c21stat
	tcDSCP atomic.Int64
	tcECN  atomic.Int64
}

func (e *c21env) note(field string, idx int) {
	e.mu.Lock()
	f := e.fields[field]
	if f == nil {
		f = &[4]int64{}
		e.fields[field] = f
	}
	f[idx]++
	e.mu.Unlock()
}

type c21base struct {
	name string
	h    wsHdr
}

func c21Bases() []c21base {
	var out []c21base
	type pk struct {
		n string
		p wsPath
	}
	paths := []pk{
		{"scion(2,2,0)@1", c18MkSCION(wsSCION, [3]uint8{2, 2, 0}, 0, 1, 2)},
		{"scion(1,2,3)@4", c18MkSCION(wsSCION, [3]uint8{1, 2, 3}, 2, 4, 1)},
		{"epic(2,1,0)@2", c18MkSCION(wsEPIC, [3]uint8{2, 1, 0}, 1, 2, 2)},
		{"onehop", c18MkOneHop(2)},
		{"empty", wsPath{Type: wsEmpty}},
	}
	if mc.Thorough() {
		paths = paths[:0]
		for _, sh := range c18Shapes(true) {
			n := int(sh[0]) + int(sh[1]) + int(sh[2])
			for fill := 0; fill < 3; fill++ {
				hf := uint8((n - 1) * fill / 2)
				ci := uint8(fill)
				paths = append(paths, pk{fmt.Sprintf("scion%v@%d/fill%d", sh, hf, fill), c18MkSCION(wsSCION, sh, ci, hf, fill)})
			}
			paths = append(paths, pk{fmt.Sprintf("epic%v", sh), c18MkSCION(wsEPIC, sh, 1, 1, 2)})
		}
		for fill := 0; fill < 3; fill++ {
			paths = append(paths, pk{fmt.Sprintf("onehop/fill%d", fill), c18MkOneHop(fill)})
		}
		paths = append(paths, pk{"empty", wsPath{Type: wsEmpty}})
	}
	addrs := [][2]uint8{{0x0, 0x0}, {0x3, 0x0}, {0x4, 0x3}}
	tcs := []uint8{0x00, 0x3c, 0xb8, 0xff}
	for pi, p := range paths {
		for ai, ad := range addrs {
			for _, tc := range tcs {
				if mc.Thorough() && pi >= 5 && (ai+int(tc))%3 != pi%3 {
					continue // thorough: the extra shapes rotate through the address/TC combinations
				}
				h := wsHdr{Ver: 0, TC: tc, Flow: 0xabcde, Next: 17, DT: ad[0], ST: ad[1], DstIA: 0x0001ff0000000110,
					SrcIA: 0x0002ff0000000220, Path: p.p}
				h.Dst, h.Src = c18Addr(ad[0], 2, false), c18Addr(ad[1], 3, true)
				h.HdrLen = uint8(h.len() / 4)
				out = append(out, c21base{fmt.Sprintf("%s DT/ST=%x/%x TC=%#02x", p.n, ad[0], ad[1], tc), h})
			}
		}
	}
	return out
}

func TestC21(t *testing.T) {
	r := mc.NewRun(t, "C21", mc.Exploration)
	e := &c21env{r: r, fields: map[string]*[4]int64{}}
	// harness self-check: RFC 4493 test vectors for the independent CMAC
	{
		k, _ := hex.DecodeString("2b7e151628aed2a6abf7158809cf4f3c")
		m0, _ := wsCMAC(k, nil)
		msg, _ := hex.DecodeString("6bc1bee22e409f96e93d7e117393172aae2d8a571e03ac9c9eb76fac45af8e5130c81c46a35ce411")
		m16, _ := wsCMAC(k, msg[:16])
		m40, _ := wsCMAC(k, msg)
		if hex.EncodeToString(m0[:]) != "bb1d6929e95937287fa37d129b756746" || hex.EncodeToString(m16[:]) != "070a16b46b4d4144f79bdd9dd04a287c" ||
			hex.EncodeToString(m40[:]) != "dfa66747de9ae63030ca32611497c827" {
			r.HarnessError("reference CMAC fails the RFC 4493 vectors")
			r.Finish(1)
			return
		}
	}
	bases := c21Bases()
	r.Rule = "base packets = path kind x address layout {4/4,16/4,SVC/16} x traffic class {0x00,0x3c,0xb8,0xff} x 7 SPI kinds x 2 (algorithm," +
		" timestamp) settings; plus the SPI grid (boundary values of every SPI sub-field multiplied out: bits 31..21 {0,1,max} x R (8) x T x D x " +
		"protocol {0,1,max-1,max}, 383 SPIs) x every address-header bit on the traffic-class-zero bases; single-field changes = every single bit of the serialized common, address and path header, in both path " +
		"representations, plus every bit of algorithm (8), timestamp (48), upper-layer type (8), every payload bit, payload length +-1, the " +
		"PathType/NextHdr/PayloadLen struct fields, and added/removed/modified HBH and E2E extension headers; every (base, SPI, setting, change) " +
		"is a distinct case; non-trivial = the changed packet is decoded and authenticated by the real code"
	algTs := [][2]uint64{{0, 0x0000010203040506}, {1, 0xffffffffffff}}
	payload := []byte{0xde, 0xad, 0xbe, 0xef, 0x00, 0x01, 0x7f, 0x80, 0xff}
	var evals atomic.Int64
	viol := func(key string, detail string) { r.Violation(key, detail) }
	grid := c21SPIGrid()
	var gridCov, gridExcl atomic.Int64
	var stop atomic.Bool
	mc.ParallelFor(len(bases), func(bi int) {
		if stop.Load() {
			return
		}
		if r.OutOfBudget() {
			stop.Store(true)
			return
		}
		b := bases[bi]
		w := newC21w()
		hdr := b.h.bytes()
		sc, _ := wsScanSCION(hdr)
		tcNeutral := b.h.TC&0xc3 == 0
		var n int64
		for _, s := range c21spis {
			for _, at := range algTs {
				alg, ts := uint8(at[0]), at[1]
				ctx := fmt.Sprintf("base{%s} spi{%s %#x} alg %d ts %#x", b.name, s.name, s.spi, alg, ts)
				var m0 [16]byte
				for rep := 0; rep < 2; rep++ {
					asDec := rep == 1
					if asDec && sc.PathType != wsSCION {
						continue
					}
					m, dec, err := w.mac(hdr, s, alg, ts, 17, payload, asDec, nil)
					n++
					if !dec || err != nil {
						r.HarnessError("base packet not usable: %s: decoded=%v err=%v", ctx, dec, err)
						return
					}
					if rep == 0 {
						m0 = m
					} else if m != m0 {
						viol("mac-depends-on-path-representation", fmt.Sprintf("%s: Raw %x Decoded %x", ctx, m0, m))
					}
					// (1) exact oracle on traffic-class-neutral packets
					if tcNeutral {
						want, _ := wsCMAC(c21Key, c21DocInput(hdr, sc, s, alg, ts, 17, payload))
						e.mu.Lock()
						e.st.exact++
						e.mu.Unlock()
						if want != m {
							viol("mac-input-differs-from-doc:"+s.name, fmt.Sprintf("%s asDecoded=%v: real %x documented %x (input %x)", ctx, asDec, m, want,
								c21DocInput(hdr, sc, s, alg, ts, 17, payload)))
						}
					}
					// (2) every header bit
					f := make([]byte, len(hdr))
					for off := 0; off < len(hdr); off++ {
						for bit := 0; bit < 8; bit++ {
							mask := byte(1) << bit
							class, field := c21Classify(hdr, sc, s, off, mask)
							copy(f, hdr)
							f[off] ^= mask
							m1, dec, err := w.mac(f, s, alg, ts, 17, payload, asDec, nil)
							n++
							if !dec {
								e.note(field, 3)
								continue
							}
							if err != nil {
								if class == c21IfDecodes {
									e.note(field, 3)
									continue
								}
								viol("mac-error-after-flip:"+field, fmt.Sprintf("%s: byte %d mask %#02x: %v", ctx, off, mask, err))
								continue
							}
							switch class {
							case c21Unjudged:
								e.note(field, 2)
							case c21Excluded:
								if m1 != m {
									if field == "TrafficClass.ECN" {
										e.tcECN.Add(1)
									}
									viol("mutable-field-authenticated:"+field, fmt.Sprintf("%s: flipping header byte %d mask %#02x (%s, must not be covered) "+
										"changes the MAC %x -> %x; header %x", ctx, off, mask, field, m, m1, hdr))
								} else {
									e.note(field, 1)
								}
							default:
								if m1 == m {
									if field == "TrafficClass.DSCP" {
										e.tcDSCP.Add(1)
									}
									viol("covered-field-not-authenticated:"+field, fmt.Sprintf("%s: flipping header byte %d mask %#02x (%s, must be covered) "+
										"leaves the MAC at %x; header %x", ctx, off, mask, field, m, hdr))
								} else {
									e.note(field, 0)
								}
							}
						}
					}
					// struct-level single-field changes (no re-layout of the packet)
					for _, tw := range []struct {
						field string
						class int
						f     func(*slayers.SCION)
					}{
						{"PathType(field)", c21Covered, func(x *slayers.SCION) { x.PathType ^= 4 }},
						{"NextHdr(field)", c21Excluded, func(x *slayers.SCION) { x.NextHdr = slayers.End2EndClass }},
						{"PayloadLen(field)", c21Excluded, func(x *slayers.SCION) { x.PayloadLen += 40 }},
					} {
						m1, _, err := w.mac(hdr, s, alg, ts, 17, payload, asDec, tw.f)
						n++
						if err != nil {
							viol("mac-error-after-flip:"+tw.field, ctx+": "+err.Error())
							continue
						}
						if tw.class == c21Covered && m1 == m {
							viol("covered-field-not-authenticated:"+tw.field, ctx)
						} else if tw.class == c21Excluded && m1 != m {
							viol("mutable-field-authenticated:"+tw.field, ctx)
						} else {
							e.note(tw.field, tw.class)
						}
					}
				}
				// SPAO metadata, upper layer
				chk := func(field string, covered bool, m1 [16]byte, err error) {
					n++
					switch {
					case err != nil:
						viol("mac-error-after-flip:"+field, ctx+": "+err.Error())
					case covered && m1 == m0:
						viol("covered-field-not-authenticated:"+field, fmt.Sprintf("%s: MAC stays %x", ctx, m0))
					case !covered && m1 != m0:
						viol("mutable-field-authenticated:"+field, fmt.Sprintf("%s: MAC %x -> %x", ctx, m0, m1))
					case covered:
						e.note(field, 0)
					default:
						e.note(field, 1)
					}
				}
				for bit := 0; bit < 8; bit++ {
					m1, _, err := w.mac(hdr, s, alg^(1<<bit), ts, 17, payload, false, nil)
					chk("SPAO.Algorithm", true, m1, err)
					m1, _, err = w.mac(hdr, s, alg, ts, 17^(1<<bit), payload, false, nil)
					chk("UpperLayer.Type", true, m1, err)
				}
				for bit := 0; bit < 48; bit++ {
					m1, _, err := w.mac(hdr, s, alg, ts^(1<<bit), 17, payload, false, nil)
					chk("SPAO.Timestamp", true, m1, err)
				}
				pl := append([]byte{}, payload...)
				for i := range pl {
					for bit := 0; bit < 8; bit++ {
						pl[i] ^= 1 << bit
						m1, _, err := w.mac(hdr, s, alg, ts, 17, pl, false, nil)
						chk("UpperLayer.Payload", true, m1, err)
						pl[i] ^= 1 << bit
					}
				}
				m1, _, err := w.mac(hdr, s, alg, ts, 17, append(append([]byte{}, payload...), 0), false, nil)
				chk("UpperLayer.Length(+1 zero byte)", true, m1, err)
				m1, _, err = w.mac(hdr, s, alg, ts, 17, payload[:len(payload)-1], false, nil)
				chk("UpperLayer.Length(-1 byte)", true, m1, err)
				m1, _, err = w.mac(hdr, s, alg, ts, 17, nil, false, nil)
				chk("UpperLayer.Length(empty)", true, m1, err)
				// extension headers: whole packets, parsed by the real extension decoders
				l4 := append([]byte{0x12, 0x34, 0x56, 0x78, 0x00, uint8(8 + len(payload)), 0, 0}, payload...)
				spaoOpt := c18SPAO(s.spi, alg, ts, make([]byte, 16))
				hbh := []wsOpt{{Type: 1, Data: []byte{0, 0}}, {Type: 0xfd, Data: []byte{1, 2, 3}}, {Type: 0}}
				e2e := []wsOpt{spaoOpt, {Type: 1, Data: nil}, {Type: 0}, {Type: 0}}
				mkPkt := func(withH, withE bool, mut func(ext []byte)) []byte {
					hh := b.h
					var ext []byte
					nextAfter := uint8(17)
					if withE {
						x := wsExtBytes(nextAfter, 8, e2e)
						ext = append(x, ext...)
						nextAfter = 201
					}
					if withH {
						x := wsExtBytes(nextAfter, 2, hbh)
						ext = append(x, ext...)
						nextAfter = 200
					}
					if mut != nil {
						mut(ext)
					}
					hh.Next = nextAfter
					hh.PayLen = uint16(len(ext) + len(l4))
					return append(append(hh.bytes(), ext...), l4...)
				}
				macPkt := func(pkt []byte) (m [16]byte, err error) {
					hl, pt, pld, perr := c21Parse(pkt)
					if perr != nil {
						return m, perr
					}
					m, _, err = w.mac(pkt[:hl], s, alg, ts, pt, pld, false, nil)
					return m, err
				}
				mb, err := macPkt(mkPkt(false, false, nil))
				if err != nil {
					r.HarnessError("base packet with L4 not parsed: %v", err)
					return
				}
				for v := 1; v < 4; v++ {
					m1, err := macPkt(mkPkt(v&1 != 0, v&2 != 0, nil))
					n++
					field := []string{"", "Ext.HBH-added", "Ext.E2E-added", "Ext.HBH+E2E-added"}[v]
					switch {
					case err != nil:
						r.HarnessError("%s: %s: %v", ctx, field, err)
					case m1 != mb:
						viol("mutable-field-authenticated:"+field, fmt.Sprintf("%s: MAC %x -> %x", ctx, mb, m1))
					default:
						e.note(field, 1)
					}
				}
				// option data bits inside the extension headers (structure bytes excluded)
				full := mkPkt(true, true, nil)
				extLen := len(full) - len(hdr) - len(l4)
				for i := 0; i < extLen; i++ {
					structural := i == 0 || i == 1 || i == 2 || i == 3 || i == 6 || i == 7 || i == 11 || // HBH: next, len, opt hdrs, pad1
						i == 12 || i == 13 || i == 14 || i == 15 || i == 44 || i == 45 || i == 46 || i == 47
					if structural {
						continue
					}
					for bit := 0; bit < 8; bit++ {
						m1, err := macPkt(mkPkt(true, true, func(x []byte) { x[i] ^= 1 << bit }))
						n++
						switch {
						case err != nil:
							r.HarnessError("%s: extension byte %d bit %d: %v", ctx, i, bit, err)
						case m1 != mb:
							viol("mutable-field-authenticated:Ext.OptionData", fmt.Sprintf("%s: extension byte %d bit %d: MAC %x -> %x", ctx, i, bit, mb, m1))
						default:
							e.note("Ext.OptionData", 1)
						}
					}
				}
			}
		}
		// ---- SPI grid: the SPI only decides which ADDRESS fields are authenticated, so the large SPI alphabet is swept over
		// the address header (every bit of both ISD-ASes and both hosts) plus the exact oracle, on the traffic-class-zero
		// bases (thorough: all traffic-class-neutral bases, both path representations)
		if b.h.TC == 0 || (mc.Thorough() && tcNeutral) {
			alg, ts := uint8(0), uint64(0x0000a1b2c3d4e5f6)&0xffffffffffff
			f := make([]byte, len(hdr))
			for _, s := range grid {
				ctx := fmt.Sprintf("base{%s} spi{%s %#x}", b.name, s.name, s.spi)
				for rep := 0; rep < 2; rep++ {
					asDec := rep == 1
					if asDec && (sc.PathType != wsSCION || !mc.Thorough()) {
						continue
					}
					m, dec, err := w.mac(hdr, s, alg, ts, 17, payload, asDec, nil)
					n++
					if !dec || err != nil {
						r.HarnessError("base packet not usable: %s: decoded=%v err=%v", ctx, dec, err)
						return
					}
					want, _ := wsCMAC(c21Key, c21DocInput(hdr, sc, s, alg, ts, 17, payload))
					e.mu.Lock()
					e.st.exact++
					e.mu.Unlock()
					if want != m {
						viol("mac-input-differs-from-doc:"+s.name, fmt.Sprintf("%s: real %x documented %x (documented input %x)", ctx, m, want,
							c21DocInput(hdr, sc, s, alg, ts, 17, payload)))
					}
					for off := 12; off < sc.PathOff; off++ {
						for bit := 0; bit < 8; bit++ {
							mask := byte(1) << bit
							class, field := c21Classify(hdr, sc, s, off, mask)
							copy(f, hdr)
							f[off] ^= mask
							m1, dec, err := w.mac(f, s, alg, ts, 17, payload, asDec, nil)
							n++
							if !dec || err != nil {
								viol("mac-error-after-flip:"+field, fmt.Sprintf("%s: byte %d mask %#02x: decoded=%v %v", ctx, off, mask, dec, err))
								continue
							}
							switch {
							case class == c21Excluded && m1 != m:
								viol("mutable-field-authenticated:"+field, fmt.Sprintf("%s: flipping header byte %d mask %#02x (%s, must not be covered for this SPI) "+
									"changes the MAC %x -> %x; header %x", ctx, off, mask, field, m, m1, hdr))
							case class == c21Covered && m1 == m:
								viol("covered-field-not-authenticated:"+field, fmt.Sprintf("%s: flipping header byte %d mask %#02x (%s, must be covered for this SPI) "+
									"leaves the MAC at %x; header %x", ctx, off, mask, field, m, hdr))
							case class == c21Excluded:
								e.note(field, 1)
								gridExcl.Add(1)
							default:
								e.note(field, 0)
								gridCov.Add(1)
							}
						}
					}
				}
			}
		}
		evals.Add(n)
	})
	r.CaseBulk(evals.Load(), evals.Load())
	if stop.Load() {
		r.Capped("time budget reached before all base packets were done")
	}
	// evidence
	var names []string
	for k := range e.fields {
		names = append(names, k)
	}
	sort.Strings(names)
	tab := map[string]any{}
	var cov, exc, unj, und int64
	for _, k := range names {
		f := e.fields[k]
		tab[k] = map[string]int64{"changed_as_required": f[0], "unchanged_as_required": f[1], "unjudged": f[2], "not_decodable_after_flip": f[3]}
		cov += f[0]
		exc += f[1]
		unj += f[2]
		und += f[3]
	}
	r.Extra["per_field"] = tab
	r.Extra["base_packets"] = len(bases)
	r.Extra["spi_kinds"] = len(c21spis)
	r.Extra["spi_grid"] = map[string]int64{"spis": int64(len(grid)), "address_bit_flips_changed_as_required": gridCov.Load(),
		"address_bit_flips_unchanged_as_required": gridExcl.Load()}
	if gridCov.Load() == 0 || gridExcl.Load() == 0 {
		r.HarnessError("SPI grid sweep vacuous")
	}
	r.Extra["exact_mac_comparisons"] = e.st.exact
	r.Extra["traffic_class_findings"] = map[string]int64{"dscp_bit_flips_not_detected": e.tcDSCP.Load(), "ecn_bit_flips_changing_mac": e.tcECN.Load()}
	if cov > 0 {
		r.Outcome("covered-bit-changes-mac")
	}
	if exc > 0 {
		r.Outcome("mutable-bit-keeps-mac")
	}
	if unj > 0 {
		r.Outcome("unjudged-reserved-bit")
	}
	if und > 0 {
		r.Outcome("flip-makes-packet-undecodable")
	}
	if e.st.exact > 0 {
		r.Outcome("exact-mac-vs-documented-input")
	}
	r.Sample(map[string]any{"base": bases[0].name, "header": fmt.Sprintf("%x", bases[0].h.bytes()), "spi": c21spis[1].name,
		"change": "flip header byte 1 mask 0x10 (TrafficClass.ECN) -> MAC must stay"})
	r.Sample(map[string]any{"base": bases[len(bases)/2].name, "change": "add HBH+E2E extension headers -> MAC must stay"})
	r.Assumptions = []string{
		"coverage table from authenticator-option.rst 'Authenticated Data' and scion-header.rst; traffic class = 6 DSCP bits (high) + 2 ECN bits (low) per RFC 2474/3168",
		"EPIC PktID/PHVF/LHVF are immutable path content (routers never rewrite them) => covered; the document only lists SCION and OneHop paths",
		"reserved bits (common-header RSV, PathMeta RSV, info/hop flag RSV bits) and HdrLen bits are not judged",
		"structural bits (PathType, DL/SL, SegLen) are judged only when the flipped header is still accepted by the decoder",
		"the SPI value itself is not part of the MAC input (it selects the key); not judged; an SPI is a DRKey SPI iff 1 <= SPI <= 2^21-1 " +
			"regardless of its sub-fields (protocol 0 and set reserved bits included), SPI 0 is not explored",
		"AES-128 key fixed; non-DRKey SPIs use the same CMAC code path",
	}
	r.Finish(4)
}
