// Clean-room reference model of the SCION wire format, written from doc/protocols/scion-header.rst,
// extension-header.rst, authenticator-option.rst and scmp.rst. It never calls the code under test: it only
// knows the documented layout. Shared by C18 (round trips), C20 (checksums) and C21 (SPAO coverage).
package wire

import (
	"encoding/binary"
)

// ---- values ----

type wsInfo struct {
	Peer, ConsDir bool
	SegID         uint16
	TS            uint32
}

type wsHop struct {
	IngAlert, EgAlert bool
	Exp               uint8
	In, Eg            uint16
	Mac               [6]byte
}

const (
	wsEmpty  = 0
	wsSCION  = 1
	wsOneHop = 2
	wsEPIC   = 3
)

type wsPath struct {
	Type    uint8
	CurrINF uint8 // 2 bits
	CurrHF  uint8 // 6 bits
	Seg     [3]uint8
	Infos   []wsInfo
	Hops    []wsHop
	// EPIC
	EpicTS, EpicCtr uint32
	PHVF, LHVF      [4]byte
	// unknown path types: opaque bytes
	Opaque []byte
}

func (p *wsPath) len() int {
	switch p.Type {
	case wsEmpty:
		return 0
	case wsSCION:
		return 4 + 8*len(p.Infos) + 12*len(p.Hops)
	case wsOneHop:
		return 8 + 24
	case wsEPIC:
		return 16 + 4 + 8*len(p.Infos) + 12*len(p.Hops)
	}
	return len(p.Opaque)
}

type wsHdr struct {
	Ver    uint8 // 4 bits
	TC     uint8
	Flow   uint32 // 20 bits
	Next   uint8
	HdrLen uint8
	PayLen uint16
	DT, ST uint8 // 4 bits each: (type<<2 | len)
	DstIA  uint64
	SrcIA  uint64
	Dst    []byte
	Src    []byte
	Path   wsPath
}

func wsAddrLen(tl uint8) int { return 4 * (1 + int(tl&3)) }

func (h *wsHdr) len() int { return 12 + 16 + wsAddrLen(h.DT) + wsAddrLen(h.ST) + h.Path.len() }

func wsPutInfo(b []byte, i wsInfo) {
	b[0], b[1] = 0, 0
	if i.ConsDir {
		b[0] |= 1
	}
	if i.Peer {
		b[0] |= 2
	}
	binary.BigEndian.PutUint16(b[2:], i.SegID)
	binary.BigEndian.PutUint32(b[4:], i.TS)
}

func wsGetInfo(b []byte) wsInfo {
	return wsInfo{Peer: b[0]&2 != 0, ConsDir: b[0]&1 != 0, SegID: binary.BigEndian.Uint16(b[2:]), TS: binary.BigEndian.Uint32(b[4:])}
}

func wsPutHop(b []byte, h wsHop) {
	b[0] = 0
	if h.EgAlert {
		b[0] |= 1
	}
	if h.IngAlert {
		b[0] |= 2
	}
	b[1] = h.Exp
	binary.BigEndian.PutUint16(b[2:], h.In)
	binary.BigEndian.PutUint16(b[4:], h.Eg)
	copy(b[6:12], h.Mac[:])
}

func wsGetHop(b []byte) wsHop {
	h := wsHop{IngAlert: b[0]&2 != 0, EgAlert: b[0]&1 != 0, Exp: b[1], In: binary.BigEndian.Uint16(b[2:]), Eg: binary.BigEndian.Uint16(b[4:])}
	copy(h.Mac[:], b[6:12])
	return h
}

func (p *wsPath) put(b []byte) {
	switch p.Type {
	case wsEmpty:
	case wsOneHop:
		wsPutInfo(b, p.Infos[0])
		wsPutHop(b[8:], p.Hops[0])
		wsPutHop(b[20:], p.Hops[1])
	case wsEPIC:
		binary.BigEndian.PutUint32(b, p.EpicTS)
		binary.BigEndian.PutUint32(b[4:], p.EpicCtr)
		copy(b[8:12], p.PHVF[:])
		copy(b[12:16], p.LHVF[:])
		p.putSCION(b[16:])
	case wsSCION:
		p.putSCION(b)
	default:
		copy(b, p.Opaque)
	}
}

func (p *wsPath) putSCION(b []byte) {
	line := uint32(p.CurrINF&3)<<30 | uint32(p.CurrHF&63)<<24 | uint32(p.Seg[0]&63)<<12 | uint32(p.Seg[1]&63)<<6 | uint32(p.Seg[2]&63)
	binary.BigEndian.PutUint32(b, line)
	o := 4
	for _, i := range p.Infos {
		wsPutInfo(b[o:], i)
		o += 8
	}
	for _, h := range p.Hops {
		wsPutHop(b[o:], h)
		o += 12
	}
}

// bytes lays the header out exactly as documented (RSV = 0).
func (h *wsHdr) bytes() []byte {
	b := make([]byte, h.len())
	binary.BigEndian.PutUint32(b, uint32(h.Ver&15)<<28|uint32(h.TC)<<20|h.Flow&0xfffff)
	b[4], b[5] = h.Next, h.HdrLen
	binary.BigEndian.PutUint16(b[6:], h.PayLen)
	b[8] = h.Path.Type
	b[9] = (h.DT&15)<<4 | h.ST&15
	binary.BigEndian.PutUint64(b[12:], h.DstIA)
	binary.BigEndian.PutUint64(b[20:], h.SrcIA)
	o := 28
	copy(b[o:o+wsAddrLen(h.DT)], h.Dst)
	o += wsAddrLen(h.DT)
	copy(b[o:o+wsAddrLen(h.ST)], h.Src)
	o += wsAddrLen(h.ST)
	h.Path.put(b[o:])
	return b
}

// ---- structural parse of arbitrary bytes (decoder direction) ----

// wsScan is what the documented layout says about a byte string, without interpreting field semantics:
// where the layers are, whether every declared length fits into the data, and which bits are reserved.
type wsScan struct {
	// Overlong: some declared length (HdrLen, address lengths, path segment lengths) exceeds the data or its
	// enclosing declared length. OverlongWhat names the first such field.
	Overlong     bool
	OverlongWhat string
	// HdrEnd = HdrLen*4; PathOff = 12+addr header; PathEnd = end of the path proper (<= HdrEnd).
	HdrEnd, PathOff, PathEnd int
	PathType                 uint8
	// Mask has one byte per header byte [0,PathEnd): bits set = defined (non-reserved) bits.
	Mask []byte
}

// wsScanSCION analyses the SCION header of data. It returns ok=false when the layout cannot be determined at
// all (shorter than a common header).
func wsScanSCION(data []byte) (sc wsScan, ok bool) {
	if len(data) < 12 {
		sc.Overlong, sc.OverlongWhat = true, "common-header"
		return sc, false
	}
	dl, sl := wsAddrLen(data[9]>>4), wsAddrLen(data[9])
	sc.PathOff = 12 + 16 + dl + sl
	sc.HdrEnd = int(data[5]) * 4
	sc.PathType = data[8]
	if sc.PathOff > len(data) {
		sc.Overlong, sc.OverlongWhat = true, "address-header"
		return sc, true
	}
	if sc.HdrEnd > len(data) {
		sc.Overlong, sc.OverlongWhat = true, "HdrLen"
		return sc, true
	}
	if sc.HdrEnd < sc.PathOff {
		// header length smaller than what common+address header need: the address lengths exceed HdrLen
		sc.Overlong, sc.OverlongWhat = true, "HdrLen<address-header"
		return sc, true
	}
	avail := sc.HdrEnd - sc.PathOff
	need := 0
	switch sc.PathType {
	case wsEmpty:
	case wsOneHop:
		need = 32
	case wsSCION, wsEPIC:
		mo := sc.PathOff
		need = 4
		if sc.PathType == wsEPIC {
			mo += 16
			need += 16
		}
		if need <= avail {
			line := binary.BigEndian.Uint32(data[mo:])
			s0, s1, s2 := int(line>>12)&63, int(line>>6)&63, int(line)&63
			ninf := 0
			switch {
			case s2 > 0:
				ninf = 3
			case s1 > 0:
				ninf = 2
			case s0 > 0:
				ninf = 1
			}
			need += 8*ninf + 12*(s0+s1+s2)
		}
	default:
		need = avail
	}
	if need > avail {
		sc.Overlong, sc.OverlongWhat = true, "path-length"
		return sc, true
	}
	sc.PathEnd = sc.PathOff + need
	sc.Mask = make([]byte, sc.PathEnd)
	for i := range sc.Mask {
		sc.Mask[i] = 0xff
	}
	sc.Mask[10], sc.Mask[11] = 0, 0
	o := sc.PathOff
	maskInfo := func(o int) { sc.Mask[o], sc.Mask[o+1] = 0x03, 0 }
	switch sc.PathType {
	case wsOneHop:
		maskInfo(o)
		sc.Mask[o+8], sc.Mask[o+20] = 0x03, 0x03
	case wsSCION, wsEPIC:
		if sc.PathType == wsEPIC {
			o += 16
		}
		line := binary.BigEndian.Uint32(data[o:])
		s0, s1, s2 := int(line>>12)&63, int(line>>6)&63, int(line)&63
		sc.Mask[o+1] = 0x03 // RSV: bits 23..18 of the meta word = top 6 bits of its second byte
		ninf := 0
		switch {
		case s2 > 0:
			ninf = 3
		case s1 > 0:
			ninf = 2
		case s0 > 0:
			ninf = 1
		}
		o += 4
		for i := 0; i < ninf; i++ {
			maskInfo(o)
			o += 8
		}
		for i := 0; i < s0+s1+s2; i++ {
			sc.Mask[o] = 0x03
			o += 12
		}
	}
	return sc, true
}

// wsScanExt analyses an extension header at the start of data: does ExtLen fit, do the options fit.
type wsExtScan struct {
	Overlong     bool
	OverlongWhat string
	End          int
	NOpts        int
}

func wsScanExt(data []byte) wsExtScan {
	var sc wsExtScan
	if len(data) < 2 {
		sc.Overlong, sc.OverlongWhat = true, "ext-base"
		return sc
	}
	sc.End = (int(data[1]) + 1) * 4
	if sc.End > len(data) {
		sc.Overlong, sc.OverlongWhat = true, "ExtLen"
		return sc
	}
	o := 2
	for o < sc.End {
		if data[o] == 0 {
			o++
			sc.NOpts++
			continue
		}
		if o+2 > sc.End {
			sc.Overlong, sc.OverlongWhat = true, "option-header"
			return sc
		}
		if o+2+int(data[o+1]) > sc.End {
			sc.Overlong, sc.OverlongWhat = true, "OptDataLen"
			return sc
		}
		o += 2 + int(data[o+1])
		sc.NOpts++
	}
	return sc
}

// ---- Internet checksum (RFC 1071) over pseudo header || upper layer ----

// wsOnesSum returns the 16-bit one's-complement sum of the big-endian 16-bit words of all chunks laid end to
// end as ONE byte string (an odd total length is padded with one zero byte at the very end).
func wsOnesSum(chunks ...[]byte) uint16 {
	var all []byte
	for _, c := range chunks {
		all = append(all, c...)
	}
	if len(all)%2 == 1 {
		all = append(all, 0)
	}
	var s uint32
	for i := 0; i < len(all); i += 2 {
		s += uint32(all[i])<<8 | uint32(all[i+1])
		s = s&0xffff + s>>16 // end-around carry immediately: textbook one's-complement addition
	}
	return uint16(s)
}

// wsPseudo builds the documented pseudo header: DstIA, SrcIA, DstHost, SrcHost, upper-layer length (32 bit),
// 24 zero bits, next header.
func wsPseudo(dstIA, srcIA uint64, dst, src []byte, ulLen uint32, proto uint8) []byte {
	b := make([]byte, 0, 16+len(dst)+len(src)+8)
	b = binary.BigEndian.AppendUint64(b, dstIA)
	b = binary.BigEndian.AppendUint64(b, srcIA)
	b = append(b, dst...)
	b = append(b, src...)
	b = binary.BigEndian.AppendUint32(b, ulLen)
	b = append(b, 0, 0, 0, proto)
	return b
}
