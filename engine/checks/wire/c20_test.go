package wire

import (
	"encoding/binary"
	"fmt"
	"sync/atomic"
	"testing"

	"github.com/gopacket/gopacket"

	"github.com/scionproto/scion/pkg/addr"
	"github.com/scionproto/scion/pkg/slayers"

	"verif/mc"
)

// C20: UDP and SCMP checksums verify and detect corruption.
//
// Every case serializes a real UDP / SCMP(+message) layer stack over a real SCION layer with ComputeChecksums and
// verifies, with the clean-room RFC 1071 sum of wirespec.go over the documented pseudo header, that the one's
// complement sum over pseudo header || upper layer is 0xFFFF. Every single-bit flip of covered data is a new input
// serialized by the real code; its checksum must again verify and must differ (as a one's-complement residue)
// from the unflipped one - i.e. the real summation really covers that bit.

type c20addr struct {
	dt, st uint8
}

var c20addrs = []c20addr{{0x0, 0x0}, {0x0, 0x3}, {0x3, 0x3}, {0x4, 0x0}, {0x1, 0x2}}
var c20ias = [][2]uint64{{0, 0xffffffffffffffff}, {1, 0x0123456789abcdef}, {0xffffffffffffffff, 0}, {0x0001ff0000000110, 1},
	{0, 0}, {0xffffffffffffffff, 0xffffffffffffffff}}

const c20kinds = 9

var c20kindNames = [c20kinds]string{"udp", "scmp-raw", "scmp-echo", "scmp-traceroute", "scmp-extifdown", "scmp-intconndown",
	"scmp-paramproblem", "scmp-pkttoobig", "scmp-destunreach"}

// c20case is one input; everything the real code sees is derived from it.
type c20case struct {
	ad       c20addr
	dstIA    uint64
	srcIA    uint64
	dst, src []byte
	kind     int
	// l4 header fields
	sport, dport uint16 // udp
	tc           uint16 // scmp type/code (kind 1 only; the others use their documented type)
	id, seq      uint16 // echo / traceroute
	payload      []byte
}

type c20w struct {
	ul    []byte // upper-layer bytes of the last verified case
	proto uint8
	buf   gopacket.SerializeBuffer
	scn   slayers.SCION
	udp   slayers.UDP
	scm   slayers.SCMP
}

func newC20w() *c20w { return &c20w{buf: gopacket.NewSerializeBuffer()} }

// serialize runs the real serializers; returns the upper-layer bytes, the protocol number and the checksum offset.
func (w *c20w) serialize(c *c20case) (ul []byte, proto uint8, ckOff int, ckField uint16, err error) {
	w.buf.Clear()
	w.scn = slayers.SCION{DstAddrType: slayers.AddrType(c.ad.dt), SrcAddrType: slayers.AddrType(c.ad.st),
		DstIA: addr.IA(c.dstIA), SrcIA: addr.IA(c.srcIA), RawDstAddr: c.dst, RawSrcAddr: c.src}
	opts := gopacket.SerializeOptions{FixLengths: true, ComputeChecksums: true}
	pl := gopacket.Payload(c.payload)
	if c.kind == 0 {
		w.udp = slayers.UDP{SrcPort: c.sport, DstPort: c.dport}
		w.udp.SetNetworkLayerForChecksum(&w.scn)
		err = gopacket.SerializeLayers(w.buf, opts, &w.udp, pl)
		return w.buf.Bytes(), 17, 6, w.udp.Checksum, err
	}
	var msg gopacket.SerializableLayer
	typ := slayers.SCMPType(c.tc >> 8)
	switch c.kind {
	case 2:
		typ, msg = slayers.SCMPTypeEchoRequest, &slayers.SCMPEcho{Identifier: c.id, SeqNumber: c.seq}
	case 3:
		typ, msg = slayers.SCMPTypeTracerouteReply, &slayers.SCMPTraceroute{Identifier: c.id, Sequence: c.seq, IA: addr.IA(0x0001ff0000000110), Interface: 0x0102030405060708}
	case 4:
		typ, msg = slayers.SCMPTypeExternalInterfaceDown, &slayers.SCMPExternalInterfaceDown{IA: addr.IA(0x0002ff0000000220), IfID: uint64(c.id)<<48 | 5}
	case 5:
		typ, msg = slayers.SCMPTypeInternalConnectivityDown, &slayers.SCMPInternalConnectivityDown{IA: addr.IA(0x0002ff0000000220), Ingress: uint64(c.id), Egress: uint64(c.seq) << 32}
	case 6:
		typ, msg = slayers.SCMPTypeParameterProblem, &slayers.SCMPParameterProblem{Pointer: c.id}
	case 7:
		typ, msg = slayers.SCMPTypePacketTooBig, &slayers.SCMPPacketTooBig{MTU: c.id}
	case 8:
		typ, msg = slayers.SCMPTypeDestinationUnreachable, &slayers.SCMPDestinationUnreachable{}
	}
	w.scm = slayers.SCMP{TypeCode: slayers.CreateSCMPTypeCode(typ, slayers.SCMPCode(c.tc))}
	w.scm.SetNetworkLayerForChecksum(&w.scn)
	if msg == nil {
		err = gopacket.SerializeLayers(w.buf, opts, &w.scm, pl)
	} else {
		err = gopacket.SerializeLayers(w.buf, opts, &w.scm, msg, pl)
	}
	return w.buf.Bytes(), 202, 2, w.scm.Checksum, err
}

func c20pattern(p, n int) []byte {
	b := make([]byte, n)
	for i := range b {
		switch p {
		case 1:
			b[i] = 0xff
		case 2:
			b[i] = byte(i*131 + 7)
		}
	}
	return b
}

func c20res(c uint16) uint16 { // one's-complement residue: 0xFFFF and 0 are the same number
	if c == 0xffff {
		return 0
	}
	return c
}

type c20env struct {
	r                                  *mc.Run
	doubleFold, oddLen, base, flips    atomic.Int64
	flipPseudo, flipL4, flipPl, flipLn atomic.Int64
}

// verify serializes c and checks the sum; returns the written checksum (ok=false on a reported violation).
func (e *c20env) verify(w *c20w, c *c20case, what string) (uint16, bool) {
	var ul []byte
	var proto uint8
	var ckOff int
	var ckField uint16
	var err error
	if p := mc.Safely(func() { ul, proto, ckOff, ckField, err = w.serialize(c) }); p != nil {
		e.r.Violation("serialize-panic:"+c20kindNames[c.kind], fmt.Sprintf("%s %s: %v", what, c.describe(), p))
		return 0, false
	}
	if err != nil {
		e.r.Violation("serialize-error:"+c20kindNames[c.kind], fmt.Sprintf("%s %s: %v", what, c.describe(), err))
		return 0, false
	}
	w.ul, w.proto = ul, proto
	written := binary.BigEndian.Uint16(ul[ckOff:])
	if written != ckField {
		e.r.Violation("checksum-field-vs-bytes:"+c20kindNames[c.kind], fmt.Sprintf("%s %s: field %#04x bytes %#04x", what, c.describe(), ckField, written))
		return written, false
	}
	ps := wsPseudo(c.dstIA, c.srcIA, c.dst, c.src, uint32(len(ul)), proto)
	if s := wsOnesSum(ps, ul); s != 0xffff {
		odd := "even"
		if len(ul)%2 == 1 {
			odd = "odd"
		}
		e.r.Violation("sum-not-ffff:"+c20kindNames[c.kind]+":"+odd+"-length",
			fmt.Sprintf("%s %s: checksum %#04x written, one's-complement sum over pseudo header || upper layer = %#04x", what, c.describe(), written, s))
		return written, false
	}
	return written, true
}

func (c *c20case) describe() string {
	pl := c.payload
	if len(pl) > 24 {
		pl = pl[:24]
	}
	return fmt.Sprintf("{kind %s DT/ST %x/%x dstIA %#x srcIA %#x dst %x src %x ports %d/%d tc %#04x id/seq %d/%d payload[%d] %x..}",
		c20kindNames[c.kind], c.ad.dt, c.ad.st, c.dstIA, c.srcIA, c.dst, c.src, c.sport, c.dport, c.tc, c.id, c.seq, len(c.payload), pl)
}

func c20mk(kind, combo, pattern, n int) *c20case {
	ad := c20addrs[combo%len(c20addrs)]
	ia := c20ias[(combo/len(c20addrs))%len(c20ias)]
	c := &c20case{ad: ad, dstIA: ia[0], srcIA: ia[1], kind: kind, sport: 0x8001, dport: 0x0035, tc: 0x6403, id: 0xbeef, seq: 0x0102}
	c.dst, c.src = c18Addr(ad.dt, 2+combo%3, false), c18Addr(ad.st, 3+combo%2, true)
	if combo%7 == 3 {
		c.dst, c.src = c18Addr(ad.dt, 1, false), c18Addr(ad.st, 1, true) // all-ones hosts
	}
	if combo%7 == 5 {
		c.dst, c.src = c18Addr(ad.dt, 0, false), c18Addr(ad.st, 0, true) // all-zero hosts
	}
	c.payload = c20pattern(pattern, n)
	return c
}

// noteShape records non-vacuity facts about a verified case using plain integer arithmetic.
func (e *c20env) noteShape(c *c20case, ulLen int, proto uint8, ul []byte) {
	var s uint64
	add := func(b []byte) {
		for i := 0; i+1 < len(b); i += 2 {
			s += uint64(b[i])<<8 | uint64(b[i+1])
		}
		if len(b)%2 == 1 {
			s += uint64(b[len(b)-1]) << 8
		}
	}
	add(wsPseudo(c.dstIA, c.srcIA, c.dst, c.src, uint32(ulLen), proto))
	add(ul)
	ckOff := 2
	if proto == 17 {
		ckOff = 6
	}
	s -= uint64(ul[ckOff])<<8 | uint64(ul[ckOff+1]) // the serializer sums with the checksum field zeroed
	if (s>>16)+(s&0xffff) > 0xffff {
		e.doubleFold.Add(1)
	}
	if ulLen%2 == 1 {
		e.oddLen.Add(1)
	}
}

// flipAll serializes every single-bit neighbour of c selected by the flags and checks it.
func (e *c20env) flipAll(w *c20w, c *c20case, c0 uint16, pseudo, l4, length bool, plFrom, plTo int) {
	chk := func(what string, ctr *atomic.Int64) {
		ctr.Add(1)
		c1, ok := e.verify(w, c, "after flipping "+what)
		if ok && c20res(c1) == c20res(c0) {
			e.r.Violation("flip-not-covered:"+c20kindNames[c.kind]+":"+what[:indexOrLen(what, ' ')],
				fmt.Sprintf("flipping %s of %s leaves the checksum at %#04x", what, c.describe(), c0))
		}
	}
	if pseudo {
		for b := 0; b < 64; b++ {
			c.dstIA ^= 1 << b
			chk(fmt.Sprintf("DstIA bit %d", b), &e.flipPseudo)
			c.dstIA ^= 1 << b
			c.srcIA ^= 1 << b
			chk(fmt.Sprintf("SrcIA bit %d", b), &e.flipPseudo)
			c.srcIA ^= 1 << b
		}
		for i := range c.dst {
			for b := 0; b < 8; b++ {
				c.dst[i] ^= 1 << b
				chk(fmt.Sprintf("DstHost byte %d bit %d", i, b), &e.flipPseudo)
				c.dst[i] ^= 1 << b
			}
		}
		for i := range c.src {
			for b := 0; b < 8; b++ {
				c.src[i] ^= 1 << b
				chk(fmt.Sprintf("SrcHost byte %d bit %d", i, b), &e.flipPseudo)
				c.src[i] ^= 1 << b
			}
		}
	}
	if l4 {
		for b := 0; b < 16; b++ {
			switch c.kind {
			case 0:
				c.sport ^= 1 << b
				chk(fmt.Sprintf("UDP.SrcPort bit %d", b), &e.flipL4)
				c.sport ^= 1 << b
				c.dport ^= 1 << b
				chk(fmt.Sprintf("UDP.DstPort bit %d", b), &e.flipL4)
				c.dport ^= 1 << b
			case 1:
				c.tc ^= 1 << b
				chk(fmt.Sprintf("SCMP.TypeCode bit %d", b), &e.flipL4)
				c.tc ^= 1 << b
			default:
				if b < 8 {
					c.tc ^= 1 << b
					chk(fmt.Sprintf("SCMP.Code bit %d", b), &e.flipL4)
					c.tc ^= 1 << b
				}
				if c.kind != 8 {
					c.id ^= 1 << b
					chk(fmt.Sprintf("SCMPmsg.field1 bit %d", b), &e.flipL4)
					c.id ^= 1 << b
				}
				if c.kind == 2 || c.kind == 3 || c.kind == 5 {
					c.seq ^= 1 << b
					chk(fmt.Sprintf("SCMPmsg.field2 bit %d", b), &e.flipL4)
					c.seq ^= 1 << b
				}
			}
		}
	}
	for i := plFrom; i < plTo && i < len(c.payload); i++ {
		if i < 0 {
			continue
		}
		for b := 0; b < 8; b++ {
			c.payload[i] ^= 1 << b
			chk(fmt.Sprintf("Payload byte %d/%d bit %d", i, len(c.payload), b), &e.flipPl)
			c.payload[i] ^= 1 << b
		}
	}
	if length {
		// flipping bit k of the upper-layer length: the same data followed by / stripped of 2^k zero bytes
		// (zero bytes add nothing to the sum, so only the length words differ)
		n := len(c.payload)
		orig := c.payload
		for k := 0; k < 14; k++ {
			var np []byte
			if n&(1<<k) == 0 {
				if n+(1<<k) > 9000 {
					continue
				}
				np = append(append([]byte{}, orig...), make([]byte, 1<<k)...)
			} else {
				tail := orig[n-(1<<k):]
				zero := true
				for _, v := range tail {
					zero = zero && v == 0
				}
				if !zero {
					continue
				}
				np = orig[:n-(1<<k)]
			}
			c.payload = np
			chk(fmt.Sprintf("Length bit %d (%d -> %d payload bytes)", k, n, len(np)), &e.flipLn)
		}
		c.payload = orig
	}
}

func indexOrLen(s string, ch byte) int {
	for i := 0; i < len(s); i++ {
		if s[i] == ch {
			return i
		}
	}
	return len(s)
}

func TestC20(t *testing.T) {
	r := mc.NewRun(t, "C20", mc.Exploration)
	e := &c20env{r: r}
	maxLen := 9000
	fullFlipLen := mc.Pick(64, 600)
	stride := mc.Pick(7, 1)
	r.Rule = fmt.Sprintf("base cases: every payload length 0..%d x 3 payload patterns (0x00, 0xff, counter) x 9 upper layers (UDP, bare SCMP, "+
		"7 SCMP message types), address layout {4/4,4/16,16/16,SVC/4,8/12} x ISD-AS values {0,1,max,mixed} rotating with the length; "+
		"every base case is a distinct (length, pattern, upper layer) triple. Flips: each flipped packet is a distinct input: all covered bits "+
		"(both ISD-ASes, both hosts, L4 header fields, every payload bit, every length bit) for lengths <= %d; for longer lengths "+
		"(quick: every %d-th and the last 16 with the upper layer rotating; thorough: every length x every upper layer) all pseudo-header bits, L4 header bits, first and last 8 payload bytes and the length bits",
		maxLen, fullFlipLen, stride)
	var stop atomic.Bool
	// Part 1+2+3 sharded by length
	mc.ParallelFor(maxLen+1, func(i int) {
		if stop.Load() {
			return
		}
		// interleave short and long lengths over the workers
		n := i
		w := newC20w()
		var cnt int64
		for kind := 0; kind < c20kinds; kind++ {
			for pat := 0; pat < 3; pat++ {
				c := c20mk(kind, n*c20kinds+kind+pat, pat, n)
				c0, ok := e.verify(w, c, "base")
				cnt++
				if !ok {
					continue
				}
				e.noteShape(c, len(w.ul), w.proto, w.ul)
				switch {
				case n <= fullFlipLen:
					e.flipAll(w, c, c0, true, true, true, 0, n)
				case (n%stride == 0 || n > maxLen-16) && pat == (n+kind)%3 && (mc.Thorough() || kind == n%c20kinds):
					e.flipAll(w, c, c0, true, true, true, 0, 8)
					e.flipAll(w, c, c0, false, false, false, n-8, n)
				}
			}
		}
		e.base.Add(cnt)
		if r.OutOfBudget() {
			stop.Store(true)
		}
	})
	// all 16 ISD-AS combinations x all address layouts on a few lengths (the rotation above pairs them up)
	{
		w := newC20w()
		for _, n := range []int{0, 1, 2, 3, 31, 32, 33, 255, 256, 257, 1499, 1500, 8999, 9000} {
			for kind := 0; kind < c20kinds; kind++ {
				for combo := 0; combo < len(c20addrs)*len(c20ias); combo++ {
					c := c20mk(kind, combo, 2, n)
					if c0, ok := e.verify(w, c, "base(address product)"); ok && n <= 33 {
						e.flipAll(w, c, c0, true, false, false, 0, 0)
					}
					e.base.Add(1)
				}
			}
		}
	}
	fl := e.flipPseudo.Load() + e.flipL4.Load() + e.flipPl.Load() + e.flipLn.Load()
	r.CaseBulk(e.base.Load()+fl, e.base.Load()+fl)
	r.Extra["base_cases"] = e.base.Load()
	r.Extra["flip_cases"] = map[string]int64{"pseudo_header_bits": e.flipPseudo.Load(), "l4_header_bits": e.flipL4.Load(),
		"payload_bits": e.flipPl.Load(), "length_bits": e.flipLn.Load()}
	r.Extra["cases_needing_second_fold"] = e.doubleFold.Load()
	r.Extra["odd_length_upper_layers"] = e.oddLen.Load()
	r.Extra["full_flip_length_bound"] = fullFlipLen
	r.Extra["long_length_stride"] = stride
	if stop.Load() {
		r.Capped("time budget reached before all lengths were done")
	}
	if r.Violations() == 0 {
		r.Outcome("sum-ffff-even-length")
		if e.oddLen.Load() > 0 {
			r.Outcome("sum-ffff-odd-length")
		}
		if e.doubleFold.Load() > 0 {
			r.Outcome("sum-ffff-with-second-carry-fold")
		}
		if fl > 0 {
			r.Outcome("flip-detected")
		}
	}
	c := c20mk(3, 7, 2, 5)
	r.Sample(map[string]any{"base_case": c.describe()})
	r.Sample(map[string]any{"flip": "DstHost byte 3 bit 7 of the case above -> checksum residue must change and the sum must again be 0xffff"})
	r.Assumptions = []string{
		"pseudo header as documented in scion-header.rst: DstIA, SrcIA, DstHost, SrcHost, 32-bit upper-layer length, 24 zero bits, protocol (17 UDP, 202 SCMP)",
		"upper-layer length = actual number of upper-layer bytes (FixLengths makes UDP.Length agree with it); inconsistent UDP.Length values are not explored",
		"a 'length bit flip' is realised as the same data followed by (or stripped of) 2^k zero bytes, so that only the length words differ",
		"the checksum 0x0000/0xFFFF are the same one's-complement number: 'changes' is judged on residues",
		"host addresses are the raw DL/SL-sized byte strings (types 4/4, 4/16, 16/16, SVC/4 and the unassigned 8/12-byte lengths)",
	}
	r.Finish(4)
}
