package pki

import (
	"bytes"
	"context"
	"crypto/elliptic"
	"crypto/x509"
	"errors"
	"fmt"
	"strings"
	"sync"
	"testing"
	"time"

	"github.com/scionproto/scion/pkg/addr"
	"github.com/scionproto/scion/pkg/private/xtest"
	cppb "github.com/scionproto/scion/pkg/proto/control_plane"
	"github.com/scionproto/scion/pkg/scrypto/cppki"
	"github.com/scionproto/scion/private/trust"
	"github.com/scionproto/scion/private/trust/compat"
	trustgrpc "github.com/scionproto/scion/private/trust/grpc"

	"verif/mc"
	"verif/pkigen"
)

// C24 part H: the FETCH path. The verifying AS has only the TRC; certificate chains come through the real
// private/trust/grpc.Fetcher (dial, TrustMaterialService.Chains RPC, RepToChains, CheckChainsMatchQuery) from an
// in-process gRPC server (bufconn, as the repository's own fetcher tests do) that answers with every ordered list of
// 1..3 chains drawn from a pool, and the fetched chains go through trust.FetchingProvider / trust.Verifier /
// segverifier.VerifySegment. gRPC needs real goroutine scheduling, so this part runs outside the synctest bubble on
// the real clock; every certificate window has hours of slack on both sides, no verdict depends on wall-clock speed.

type c24TrustServer struct {
	cppb.UnimplementedTrustMaterialServiceServer
	mu     sync.Mutex
	answer [][]*x509.Certificate
	calls  int
	last   *cppb.ChainsRequest
}

func (s *c24TrustServer) set(answer [][]*x509.Certificate) {
	s.mu.Lock()
	defer s.mu.Unlock()
	s.answer, s.calls, s.last = answer, 0, nil
}

func (s *c24TrustServer) seen() (int, *cppb.ChainsRequest) {
	s.mu.Lock()
	defer s.mu.Unlock()
	return s.calls, s.last
}

func (s *c24TrustServer) Chains(_ context.Context, req *cppb.ChainsRequest) (*cppb.ChainsResponse, error) {
	s.mu.Lock()
	defer s.mu.Unlock()
	s.calls++
	s.last = req
	rep := &cppb.ChainsResponse{}
	for _, c := range s.answer {
		rep.Chains = append(rep.Chains, &cppb.Chain{AsCert: c[0].Raw, CaCert: c[1].Raw})
	}
	return rep, nil
}

func c24FetchPath(t *testing.T, r *mc.Run) {
	now := time.Now()
	ts := now.Add(-60 * time.Second).Truncate(time.Second)
	isd1, err := c24MakeISD(1, now)
	if err != nil {
		r.HarnessError("fetch path, ISD 1: %v", err)
		return
	}
	isds := []c24ISD{isd1}
	const exp = 63 // hop lifetime 6 h
	life := time.Duration(exp+1) * c24Unit
	wide := cppki.Validity{NotBefore: now.Add(-24 * time.Hour), NotAfter: now.Add(72 * time.Hour)}
	narrow := cppki.Validity{NotBefore: now.Add(-12 * time.Hour), NotAfter: now.Add(2 * time.Hour)} // valid now, ends 4 h before the hop field does
	iaX := addr.MustIAFrom(1, 0xff0000000110)                                                       // the AS the entry claims
	iaY := addr.MustIAFrom(1, 0xff0000000111)                                                       // another AS (the remote / attacker)
	iaZ := addr.MustIAFrom(1, 0xff0000000120)                                                       // first AS of two-entry segments (chain in the DB)
	mk := func(ia addr.IA, cn, keyName string, v cppki.Validity) *c24Cred {
		c := pkigen.Must(pkigen.Spec{Type: cppki.AS, IA: ia, CN: "c24-fetch-" + cn, KeyName: "c24-fetch-key-" + keyName, NotBefore: v.NotBefore,
			NotAfter: v.NotAfter, Issuer: isd1.ca, Curve: elliptic.P256()})
		return &c24Cred{name: cn, ia: ia, cert: c, ca: isd1.ca, alg: 1}
	}
	credG := mk(iaX, "genuine", "x1", wide)              // the genuine chain of the queried AS and key
	credV := mk(iaX, "genuine-key-narrow", "x1", narrow) // same AS, same key (same subject key id), validity does not cover
	credK := mk(iaX, "other-key-id", "x2", wide)         // right ISD-AS, another key id
	credO := mk(iaY, "other-as", "y", wide)              // genuine chain of another AS
	credZ := mk(iaZ, "first-as", "z", wide)
	if !bytes.Equal(credG.cert.X.SubjectKeyId, credV.cert.X.SubjectKeyId) || bytes.Equal(credG.cert.X.SubjectKeyId, credK.cert.X.SubjectKeyId) {
		r.HarnessError("fetch path: subject key ids of the pool are not as intended")
		return
	}
	type poolEntry struct {
		tag  string
		cred *c24Cred
		// does the chain match a query for (X, key id of G) with the hop validity / without a validity?
		matchBound, matchUnbound bool
	}
	pool := []poolEntry{
		{"genuine", credG, true, true},
		{"other-AS", credO, false, false},
		{"other-key-id", credK, false, false},
		{"validity-not-covering", credV, false, true},
	}
	var lists [][]int
	for a := range pool {
		lists = append(lists, []int{a})
		for b := range pool {
			lists = append(lists, []int{a, b})
			for c := range pool {
				lists = append(lists, []int{a, b, c})
			}
		}
	}
	describe := func(l []int) string {
		var s []string
		for _, i := range l {
			s = append(s, pool[i].tag)
		}
		return "[" + strings.Join(s, ", ") + "]"
	}
	answerOf := func(l []int) [][]*x509.Certificate {
		var out [][]*x509.Certificate
		for _, i := range l {
			out = append(out, pool[i].cred.chain())
		}
		return out
	}

	srv := &c24TrustServer{}
	svc := xtest.NewGRPCService()
	cppb.RegisterTrustMaterialServiceServer(svc.Server(), srv)
	svc.Start(t)
	fetcher := trustgrpc.Fetcher{IA: addr.MustIAFrom(1, 0xff0000000199), Dialer: svc}
	isTimeout := func(err error) bool {
		return err != nil && (errors.Is(err, context.DeadlineExceeded) || strings.Contains(err.Error(), "DeadlineExceeded"))
	}

	// ---- H1: the fetcher by itself: an answer is refused iff it contains a chain that does not match the query
	hopValidity := cppki.Validity{NotBefore: ts, NotAfter: ts.Add(life)}
	queries := []struct {
		what  string
		q     trust.ChainQuery
		bound bool
	}{
		{"query (X, key id, hop validity)", trust.ChainQuery{IA: iaX, SubjectKeyID: credG.cert.X.SubjectKeyId, Validity: hopValidity}, true},
		{"query (X, key id, no validity)", trust.ChainQuery{IA: iaX, SubjectKeyID: credG.cert.X.SubjectKeyId}, false},
	}
	fetchCases := 0
	for _, q := range queries {
		for _, l := range append([][]int{{}}, lists...) {
			srv.set(answerOf(l))
			ctx, cancel := context.WithTimeout(context.Background(), 30*time.Second)
			var got [][]*x509.Certificate
			var ferr error
			p := mc.Safely(func() { got, ferr = fetcher.Chains(ctx, q.q, c24Server) })
			cancel()
			fetchCases++
			what := fmt.Sprintf("real gRPC fetcher, %s, remote answers %s", q.what, describe(l))
			if p != nil {
				r.Violation("panic", map[string]any{"case": what, "panic": fmt.Sprint(p)})
				continue
			}
			ncalls, req := srv.seen()
			if isTimeout(ferr) || ncalls != 1 || req == nil {
				r.HarnessError("%s: RPC did not complete (calls=%d): %v", what, ncalls, ferr)
				return
			}
			if addr.IA(req.IsdAs) != iaX || !bytes.Equal(req.SubjectKeyId, credG.cert.X.SubjectKeyId) {
				r.Violation("fetch-request-does-not-carry-the-query", map[string]any{"case": what, "request": fmt.Sprint(req)})
			}
			allMatch := true
			for _, i := range l {
				if q.bound && !pool[i].matchBound || !q.bound && !pool[i].matchUnbound {
					allMatch = false
				}
			}
			switch {
			case !allMatch && ferr == nil:
				r.Violation("fetcher-accepts-answer-with-non-matching-chain", map[string]any{"case": what, "returned_chains": len(got)})
			case allMatch && ferr != nil:
				r.Violation("fetcher-refuses-matching-answer", map[string]any{"case": what, "error": ferr.Error()})
			case allMatch:
				same := len(got) == len(l)
				for i := 0; same && i < len(l); i++ {
					same = len(got[i]) == 2 && bytes.Equal(got[i][0].Raw, pool[l[i]].cred.cert.X.Raw) && bytes.Equal(got[i][1].Raw, isd1.ca.X.Raw)
				}
				if !same {
					r.Violation("fetcher-returns-other-chains-than-answered", map[string]any{"case": what, "returned_chains": len(got)})
				}
				r.Outcome("fetcher:answer-accepted")
			default:
				r.Outcome("fetcher:answer-refused")
			}
		}
	}
	r.CaseBulk(int64(fetchCases), int64(fetchCases))

	// ---- H2: end to end. Entry claiming (X, key id of the genuine certificate), signed with the key of ...
	signers := []struct {
		what      string
		cred      *c24Cred
		certified bool // key certified for X with a certificate covering the hop lifetime
	}{
		{"the genuine key of X", credG, true},
		{"the key of another AS", credO, false},
		{"another certified key of X (key id names the first one)", credK, true},
	}
	e2e := 0
	for _, n := range []int{1, 2} {
		for si, sg := range signers {
			var es []c24Entry
			if n == 2 {
				es = append(es, c24Honest(credZ, iaX, 0, 20, exp, 0))
			}
			in := uint16(0)
			if n == 2 {
				in = 11
			}
			e := c24Honest(credG, 0, in, 0, exp, 0)
			e.key, e.alg = sg.cred.cert.Key, sg.cred.alg // claim stays (X, key id of G)
			es = append(es, e)
			ps := c24RefBuild(c24Info(ts, uint16(0x8000+n)), es, now)
			for _, l := range lists {
				st, err := c24NewStore(isds, credZ.chain())
				if err != nil {
					r.HarnessError("trust db: %v", err)
					return
				}
				srv.set(answerOf(l))
				v := compat.Verifier{Verifier: trust.Verifier{Engine: trust.FetchingProvider{DB: st.db, Recurser: trust.LocalOnlyRecurser{}, Fetcher: fetcher}}}
				got, verr := c24Check(v, ps, false)
				calls, _ := srv.seen()
				st.db.Close()
				e2e++
				what := fmt.Sprintf("chains only via the real gRPC fetcher; %d-entry segment whose last entry claims X with the genuine key id and is signed with %s; remote answers %s",
					n, sg.what, describe(l))
				if got == "panic" {
					r.Violation("panic", map[string]any{"case": what, "panic": fmt.Sprint(verr)})
					continue
				}
				if isTimeout(verr) || calls < 1 {
					r.HarnessError("%s: fetch did not take place / timed out (calls=%d): %v", what, calls, verr)
					return
				}
				allGenuine := true
				for _, i := range l {
					if i != 0 {
						allGenuine = false
					}
				}
				switch {
				case !sg.certified && got == "accept":
					r.Violation("fetched-foreign-chain-makes-forged-entry-verify", map[string]any{"case": what, "segment": c24Dump(ps)})
				case si == 0 && allGenuine && got != "accept":
					r.Violation("honest-entry-rejected-with-genuine-fetched-chain", map[string]any{"case": what, "observed": got, "error": fmt.Sprint(verr)})
				case !sg.certified:
					r.Outcome("fetch-path:forged:" + got)
				case si == 0 && allGenuine:
					r.Outcome("fetch-path:honest:" + got)
				default:
					// honest entry but the answer also holds non-matching chains (the fetcher refuses the whole answer), or an
					// entry signed by another certified key of the same AS: the statement allows either verdict
					r.Outcome("fetch-path:unspecified:" + got)
				}
			}
		}
	}
	r.CaseBulk(int64(e2e), int64(e2e))
	r.Assumptions = append(r.Assumptions,
		"fetch path (part H): runs on the real clock outside the synctest bubble (gRPC over bufconn); an honest entry whose remote answer also holds non-matching chains, and an entry signed by ANOTHER certified key of the claimed AS, may be accepted or rejected; an entry signed by a key of another AS must be rejected whatever the remote answers",
		"the fetcher must refuse an answer iff one of its chains does not match the query (ISD-AS, subject key id, queried validity covered), as documented for CheckChainsMatchQuery's callers")
	r.Extra["fetch_path_fetcher_cases"] = fetchCases
	r.Extra["fetch_path_end_to_end_cases"] = e2e
}
