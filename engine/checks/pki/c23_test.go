package pki

import (
	"bytes"
	"context"
	"crypto/aes"
	"crypto/ecdsa"
	"crypto/elliptic"
	"encoding/binary"
	"fmt"
	"hash"
	"strings"
	"testing"
	"testing/synctest"
	"time"

	"google.golang.org/protobuf/proto"

	"github.com/scionproto/scion/control/beacon"
	"github.com/scionproto/scion/control/beaconing"
	"github.com/scionproto/scion/control/ifstate"
	"github.com/scionproto/scion/pkg/addr"
	cppb "github.com/scionproto/scion/pkg/proto/control_plane"
	"github.com/scionproto/scion/pkg/scrypto"
	"github.com/scionproto/scion/pkg/scrypto/cppki"
	"github.com/scionproto/scion/pkg/scrypto/signed"
	seg "github.com/scionproto/scion/pkg/segment"
	"github.com/scionproto/scion/pkg/segment/extensions/discovery"
	"github.com/scionproto/scion/private/topology"
	"github.com/scionproto/scion/private/trust"

	"verif/mc"
	"verif/pkigen"
)

// C23: beacon extension produces verifiable, correctly bounded AS entries.
//
// A line of ASes 0..L, each with its own real DefaultExtender (own forwarding key, own signers, own interface
// table); ASes 0..L-1 build the prior segment with the real Extend, AS L is the one under test. Clock: synctest bubble
// (frozen at 2000-01-01), so signer windows can be placed exactly around timestamp + maximum hop lifetime.
//
// Reference model (doc/protocols/scion-header.rst "Hop Field MAC Computation" / "Peering Links", statement):
//   sigma_i   = AES-CMAC_{K_i}(0 | beta_i | ts | 0 | ExpTime | ConsIngress | ConsEgress | 0)[:6]
//   beta_0    = SegID, beta_{i+1} = beta_i xor sigma_i[:2];   peer hop fields of entry i use beta_{i+1}
//   lifetime  = (ExpTime+1) * 24h/256
// AES-CMAC is implemented here for the single 16-byte block (RFC 4493), signatures are checked with crypto/ecdsa
// over the clean-room envelope model of C38.

const (
	c23IfParent   = 1 // to AS i-1 (remote interface 2)
	c23IfChild    = 2 // to AS i+1 (remote interface 1)
	c23IfPeerA    = 3 // peering, remote id 33
	c23IfPeerB    = 4 // peering, remote id 44
	c23IfPeerNoID = 5 // peering, remote interface id unknown (0)
	c23IfWildcard = 6 // child link whose remote ISD-AS is a wildcard
	c23IfUnknown  = 9 // not in the interface table
)

func c23IA(i int) addr.IA {
	isd := addr.ISD(1)
	if i%4 == 3 {
		isd = 2
	}
	return addr.MustIAFrom(isd, addr.AS(0xff0000000200+i))
}

func c23PeerIA(i int, ifid uint16) addr.IA {
	return addr.MustIAFrom(3, addr.AS(0xff0000000900+uint64(i)*16+uint64(ifid)))
}

func c23Key16(i int) []byte {
	k := make([]byte, 16)
	for j := range k {
		k[j] = byte(i*31 + j*7 + 3)
	}
	return k
}

// c23CMAC: AES-CMAC of one complete 16-byte block (RFC 4493 section 2.4, case "complete block").
func c23CMAC(key []byte, msg [16]byte) [16]byte {
	blk, err := aes.NewCipher(key)
	if err != nil {
		panic(err)
	}
	var l, k1, x, out [16]byte
	blk.Encrypt(l[:], l[:])
	carry := byte(0)
	for i := 15; i >= 0; i-- {
		k1[i] = l[i]<<1 | carry
		carry = l[i] >> 7
	}
	if l[0]&0x80 != 0 {
		k1[15] ^= 0x87
	}
	for i := range x {
		x[i] = msg[i] ^ k1[i]
	}
	blk.Encrypt(out[:], x[:])
	return out
}

func c23HopMAC(key []byte, beta uint16, ts uint32, exp uint8, in, eg uint16) [16]byte {
	var m [16]byte
	binary.BigEndian.PutUint16(m[2:], beta)
	binary.BigEndian.PutUint32(m[4:], ts)
	m[9] = exp
	binary.BigEndian.PutUint16(m[10:], in)
	binary.BigEndian.PutUint16(m[12:], eg)
	return c23CMAC(key, m)
}

type c23Signer struct {
	name   string
	key    *ecdsa.PrivateKey
	alg    signed.SignatureAlgorithm
	nb, na time.Time
}

func (s c23Signer) real(ia addr.IA) trust.Signer {
	return trust.Signer{PrivateKey: s.key, Algorithm: s.alg, IA: ia, SubjectKeyID: pkigen.SubjectKeyID(&s.key.PublicKey),
		Expiration: s.na, ChainValidity: cppki.Validity{NotBefore: s.nb, NotAfter: s.na.Add(time.Hour)},
		TRCID: cppki.TRCID{ISD: ia.ISD(), Base: 1, Serial: 1}}
}

func c23Interfaces(i int) map[uint16]ifstate.InterfaceInfo {
	m := map[uint16]ifstate.InterfaceInfo{
		c23IfChild:    {ID: c23IfChild, IA: c23IA(i + 1), LinkType: topology.Child, RemoteID: c23IfParent, MTU: 1400},
		c23IfPeerA:    {ID: c23IfPeerA, IA: c23PeerIA(i, c23IfPeerA), LinkType: topology.Peer, RemoteID: 33, MTU: 1333},
		c23IfPeerB:    {ID: c23IfPeerB, IA: c23PeerIA(i, c23IfPeerB), LinkType: topology.Peer, RemoteID: 44, MTU: 1344},
		c23IfPeerNoID: {ID: c23IfPeerNoID, IA: c23PeerIA(i, c23IfPeerNoID), LinkType: topology.Peer, RemoteID: 0, MTU: 1355},
		c23IfWildcard: {ID: c23IfWildcard, IA: addr.MustIAFrom(1, 0), LinkType: topology.Child, RemoteID: 1, MTU: 1366},
	}
	if i > 0 {
		m[c23IfParent] = ifstate.InterfaceInfo{ID: c23IfParent, IA: c23IA(i - 1), LinkType: topology.Parent, RemoteID: c23IfChild, MTU: 1411}
	} else {
		// the first AS also has an interface 1 (a core link), so that "ingress != 0 in the first hop" is a known interface
		m[c23IfParent] = ifstate.InterfaceInfo{ID: c23IfParent, IA: c23IA(100), LinkType: topology.Core, RemoteID: 7, MTU: 1411}
	}
	return m
}

func c23Extender(i int, signers []c23Signer, maxExp uint8, epic bool) *beaconing.DefaultExtender {
	return c23ExtenderFn(i, signers, func() uint8 { return maxExp }, epic, "c23")
}

// c23MaxExpStore is the part of the control service's beacon store (control.Store) the extenders are wired to.
type c23MaxExpStore interface {
	MaxExpTime(policyType beacon.PolicyType) uint8
}

// c23Policy builds one beaconing policy the way the control service loads it (control/policy.go loadPolicy): no policy
// file = zero policy with defaults, otherwise the YAML document parsed by beacon.ParsePolicyYaml.
func c23Policy(t beacon.PolicyType, maxExp int) (beacon.Policy, error) {
	var pol beacon.Policy
	if maxExp >= 0 {
		p, err := beacon.ParsePolicyYaml(strings.NewReader(fmt.Sprintf("Type: %s\nMaxExpTime: %d\n", t, maxExp)), t)
		if err != nil {
			return pol, err
		}
		if err := p.Validate(); err != nil {
			return pol, err
		}
		pol = *p
	}
	pol.InitDefaults()
	pol.Type = t
	return pol, nil
}

// c23Task is one periodic task of the control service that owns an extender (control/tasks.go): which policy type's
// maximum its extender is wired to (store.MaxExpTime(<type>)) and how it extends.
type c23Task struct {
	name      string
	core      bool
	policy    beacon.PolicyType    // the policy type whose configured maximum binds this task (oracle side, a constant)
	reg       beacon.RegPolicyType // segment writers: the registration policy type the writer is started for
	originate bool                 // first entry (ingress 0)
	terminate bool                 // egress 0
}

// maxExpFn is the MaxExpTime callback exactly as control/tasks.go builds it for the task's extender.
func (tk *c23Task) maxExpFn(st c23MaxExpStore) func() uint8 {
	if tk.reg != "" {
		policyType := tk.reg
		return func() uint8 { return st.MaxExpTime(policyType.PolicyType()) }
	}
	return func() uint8 { return st.MaxExpTime(beacon.PropPolicy) }
}

var c23Tasks = []c23Task{
	{"originator", true, beacon.PropPolicy, "", true, false},
	{"propagator", true, beacon.PropPolicy, "", false, false},
	{"segment_writer(core)", true, beacon.CoreRegPolicy, beacon.RegPolicyTypeCore, false, true},
	{"propagator", false, beacon.PropPolicy, "", false, false},
	{"segment_writer(up)", false, beacon.UpRegPolicy, beacon.RegPolicyTypeUp, false, true},
	{"segment_writer(down)", false, beacon.DownRegPolicy, beacon.RegPolicyTypeDown, false, true},
}

func c23ExtenderFn(i int, signers []c23Signer, maxExp func() uint8, epic bool, task string) *beaconing.DefaultExtender {
	key := c23Key16(i)
	return &beaconing.DefaultExtender{
		IA: c23IA(i),
		SignerGen: beaconing.SignerGenFunc(func(context.Context) ([]beaconing.Signer, error) {
			var out []beaconing.Signer
			for _, s := range signers {
				out = append(out, s.real(c23IA(i)))
			}
			return out, nil
		}),
		MAC: func() hash.Hash {
			m, err := scrypto.InitMac(key)
			if err != nil {
				panic(err)
			}
			return m
		},
		Intfs:                ifstate.NewInterfaces(c23Interfaces(i), ifstate.Config{}),
		MTU:                  1472,
		MaxExpTime:           func() uint8 { return maxExp() },
		StaticInfo:           func() *beaconing.StaticInfoCfg { return nil },
		DiscoveryInformation: func() *discovery.Extension { return nil },
		EPIC:                 epic,
		Task:                 task,
	}
}

type c23Case struct {
	l           int
	ts          time.Time
	ingress     uint16
	egress      uint16
	peers       []uint16
	maxExp      uint8
	signers     []c23Signer
	epic        bool
	part        string
	description string
	// topology reloads (ifstate.Interfaces.Update) applied to the extender's interface table before the judged
	// extension; extendFirst: one extension is done with the original table before the reloads
	topo        []map[uint16]ifstate.InterfaceInfo
	extendFirst bool
	// part F: the extender's MaxExpTime callback is the beacon store's, as wired by the control service for `task`;
	// maxExp is then the maximum CONFIGURED for the policy type of that task (the oracle never asks the store)
	store c23MaxExpStore
	task  *c23Task
}

func TestC23(t *testing.T) {
	r := mc.NewRun(t, "C23", mc.Exploration)
	r.Rule = "prior segment lengths 0..N (N=6 quick; 10 and 63 thorough) built by real extenders of other ASes; part A: every " +
		"(ingress, egress) in {0, parent, unknown} x {0, child, unknown, wildcard-remote}; part B: every ordered selection of " +
		"peer interfaces from {with remote id A, with remote id B, without remote id, unknown} x EPIC on/off; part C: MaxExpTime " +
		"{0,1,63,254,255} x timestamp-now {0,-10s,-1h,-6h,+10s} x signer sets (one signer: NotAfter-(ts+max lifetime) " +
		"in {-unit-1s,-1s,0,+1s,+1d} x NotBefore-ts in {-1h,0,+1s}; two signers: all ordered pairs of the NotAfter deltas, second on " +
		"P-384); part D: every ordered list of 2 and 3 signers (own key per position) over {covering, starting 1s after the " +
		"timestamp} x NotAfter-(ts+max lifetime) {-1s,+1s,+1d} (quick: every third 3-list); part E: every sequence of 1-2 (thorough 3) topology reloads (ifstate.Interfaces.Update) " +
		"over 10 table variants (neighbour / peer re-homed, MTUs, link types, remote interface id, interface removed) with and " +
		"without an extension before the reloads; part F: the maximum obtained the way the control service does: real beacon.Store / beacon.CoreStore built from " +
		"policies (loaded like control/policy.go: unset or YAML) for every assignment of MaxExpTime {unset,0,20,130,255} to Prop x UpReg x DownReg (non-core) and " +
		"Prop x CoreReg (core), x every task owning an extender (originator, propagator, segment writer up/down/core) wired as in control/tasks.go " +
		"(store.MaxExpTime(<policy type of the task>)); the bound is the maximum configured for THAT policy type (default 63). One case = one Extend call judged field by field; non-trivial = every case (all inputs pairwise different)"
	synctest.Test(t, func(t *testing.T) { c23Run(r) })
	r.Finish(5)
}

func c23Run(r *mc.Run) {
	now := time.Now()
	longLived := func(name string) c23Signer {
		return c23Signer{name, pkigen.Key("c23-" + name), signed.ECDSAWithSHA256, now.Add(-48 * time.Hour), now.Add(30 * 24 * time.Hour)}
	}
	ctx := context.Background()
	maxL := mc.Pick(6, 10)
	lengths := []int{}
	for l := 0; l <= maxL; l++ {
		lengths = append(lengths, l)
	}
	if mc.Thorough() {
		lengths = append(lengths, 63)
	}
	// prior segments, by (timestamp, length): built once by the real extenders of ASes 0..l-1, kept as protobuf
	type priorKey struct {
		ts int64
		l  int
	}
	priors := map[priorKey]*cppb.PathSegment{}
	var prior func(ts time.Time, l int) (*seg.PathSegment, error)
	prior = func(ts time.Time, l int) (*seg.PathSegment, error) {
		k := priorKey{ts.Unix(), l}
		if pb, ok := priors[k]; ok {
			if l == 0 {
				return seg.CreateSegment(ts, 0x5a5a)
			}
			return seg.BeaconFromPB(pb)
		}
		ps, err := seg.CreateSegment(ts, 0x5a5a)
		if err != nil {
			return nil, err
		}
		for i := 0; i < l; i++ {
			in := uint16(c23IfParent)
			if i == 0 {
				in = 0
			}
			var peers []uint16
			if i%2 == 1 {
				peers = []uint16{c23IfPeerA}
			}
			ext := c23Extender(i, []c23Signer{longLived(fmt.Sprintf("as%d", i))}, 63, false)
			if err := ext.Extend(ctx, ps, in, c23IfChild, peers); err != nil {
				return nil, fmt.Errorf("prior segment, AS %d: %w", i, err)
			}
		}
		priors[k] = seg.PathSegmentToPB(ps)
		return prior(ts, l)
	}

	var cases []c23Case
	// part A: position consistency
	for _, l := range lengths {
		for _, in := range []uint16{0, c23IfParent, c23IfUnknown} {
			for _, eg := range []uint16{0, c23IfChild, c23IfUnknown, c23IfWildcard} {
				for _, peers := range [][]uint16{nil, {c23IfPeerA}} {
					cases = append(cases, c23Case{l: l, ts: now.Add(-10 * time.Second), ingress: in, egress: eg, peers: peers, maxExp: 63,
						signers: []c23Signer{longLived("local")}, part: "position"})
				}
			}
		}
	}
	// part B: peers
	peerAlphabet := []uint16{c23IfPeerA, c23IfPeerB, c23IfPeerNoID, c23IfUnknown}
	var peerSels [][]uint16
	var rec func(cur []uint16, used int)
	rec = func(cur []uint16, used int) {
		peerSels = append(peerSels, append([]uint16{}, cur...))
		if len(cur) == mc.Pick(3, 4) {
			return
		}
		for i, p := range peerAlphabet {
			if used&(1<<i) == 0 {
				rec(append(cur, p), used|1<<i)
			}
		}
	}
	rec(nil, 0)
	for _, l := range []int{0, 1, maxL} {
		for _, term := range []bool{false, true} {
			if term && l == 0 {
				continue
			}
			for _, sel := range peerSels {
				for _, epic := range []bool{false, true} {
					c := c23Case{l: l, ts: now.Add(-10 * time.Second), ingress: c23IfParent, egress: c23IfChild, peers: sel, maxExp: 63,
						signers: []c23Signer{longLived("local")}, epic: epic, part: "peers"}
					if l == 0 {
						c.ingress = 0
					}
					if term {
						c.egress = 0
					}
					cases = append(cases, c)
				}
			}
		}
	}
	// part C: expiry against signer windows
	tsOffsets := []time.Duration{0, -10 * time.Second, -time.Hour, -6 * time.Hour, 10 * time.Second}
	deltas := []time.Duration{-c24Unit - time.Second, -time.Second, 0, time.Second, 24 * time.Hour}
	nbs := []time.Duration{-time.Hour, 0, time.Second}
	k1, k2 := pkigen.Key("c23-local"), pkigen.KeyOn(elliptic.P384(), "c23-local-2")
	for _, l := range mc.Pick([]int{0, 2}, []int{0, 1, 2, 5, 10, 63}) {
		for _, maxExp := range []uint8{0, 1, 63, 254, 255} {
			life := time.Duration(int(maxExp)+1) * c24Unit
			for _, off := range tsOffsets {
				ts := now.Add(off)
				mk := func(sg []c23Signer, d string) {
					c := c23Case{l: l, ts: ts, ingress: c23IfParent, egress: c23IfChild, peers: []uint16{c23IfPeerA}, maxExp: maxExp,
						signers: sg, part: "expiry", description: d}
					if l == 0 {
						c.ingress = 0
					}
					cases = append(cases, c)
				}
				for _, d := range deltas {
					for _, nb := range nbs {
						mk([]c23Signer{{"s1", k1, signed.ECDSAWithSHA256, ts.Add(nb), ts.Add(life + d)}},
							fmt.Sprintf("one signer NotBefore=ts%+v NotAfter=ts+maxlife%+v", nb, d))
					}
				}
				for _, d1 := range deltas {
					for _, d2 := range deltas {
						mk([]c23Signer{{"s1", k1, signed.ECDSAWithSHA256, ts.Add(-time.Hour), ts.Add(life + d1)},
							{"s2", k2, signed.ECDSAWithSHA384, ts.Add(-time.Hour), ts.Add(life + d2)}},
							fmt.Sprintf("two signers NotAfter=ts+maxlife%+v / %+v", d1, d2))
					}
				}
			}
		}
	}

	// part D: signer lists. Every ordered list of 2 and (thorough: all, quick: every third) 3 signers drawn from
	// {covering, certificate starting 1 s after the timestamp} x NotAfter-(ts+max lifetime) in {-1s,+1s,+1d}; every position
	// has its own key, so the list ORDER is part of the case.
	{
		k3 := pkigen.Key("c23-local-3")
		keysD := []*ecdsa.PrivateKey{k1, k2, k3}
		algsD := []signed.SignatureAlgorithm{signed.ECDSAWithSHA256, signed.ECDSAWithSHA384, signed.ECDSAWithSHA256}
		type sigType struct {
			nb, dna time.Duration
		}
		var types []sigType
		for _, nb := range []time.Duration{-time.Hour, time.Second} {
			for _, dna := range []time.Duration{-time.Second, time.Second, 24 * time.Hour} {
				types = append(types, sigType{nb, dna})
			}
		}
		var lists [][]int
		for a := range types {
			for b := range types {
				lists = append(lists, []int{a, b})
				for c := range types {
					if mc.Thorough() || (a*36+b*6+c)%3 == 0 {
						lists = append(lists, []int{a, b, c})
					}
				}
			}
		}
		for _, l := range []int{0, 2} {
			for _, maxExp := range []uint8{0, 63, 255} {
				life := time.Duration(int(maxExp)+1) * c24Unit
				for _, off := range []time.Duration{-10 * time.Second, -time.Hour} {
					ts := now.Add(off)
					for _, lst := range lists {
						var sg []c23Signer
						d := "signer list"
						for i, ti := range lst {
							tp := types[ti]
							sg = append(sg, c23Signer{fmt.Sprintf("s%d", i+1), keysD[i], algsD[i], ts.Add(tp.nb), ts.Add(life + tp.dna)})
							d += fmt.Sprintf(" [NotBefore=ts%+v NotAfter=ts+maxlife%+v]", tp.nb, tp.dna)
						}
						c := c23Case{l: l, ts: ts, ingress: c23IfParent, egress: c23IfChild, maxExp: maxExp, signers: sg, part: "signer-lists", description: d}
						if l == 0 {
							c.ingress = 0
						}
						cases = append(cases, c)
					}
				}
			}
		}
	}

	// part E: topology reload histories. Variants of the interface table of the AS under test; every sequence of 1 or 2
	// (thorough: 3) reloads, with and without an extension before the reloads; the judged extension must reflect the
	// table of the LAST reload.
	{
		variant := func(l int, v int) map[uint16]ifstate.InterfaceInfo {
			m := c23Interfaces(l)
			set := func(id uint16, f func(*ifstate.InterfaceInfo)) {
				if info, ok := m[id]; ok {
					f(&info)
					m[id] = info
				}
			}
			switch v {
			case 0: // unchanged
			case 1:
				set(c23IfChild, func(i *ifstate.InterfaceInfo) { i.IA = c23IA(50) })
			case 2:
				set(c23IfPeerA, func(i *ifstate.InterfaceInfo) { i.IA = c23PeerIA(77, 3) })
			case 3:
				set(c23IfChild, func(i *ifstate.InterfaceInfo) { i.MTU = 1280 })
				set(c23IfParent, func(i *ifstate.InterfaceInfo) { i.MTU = 1290 })
				set(c23IfPeerA, func(i *ifstate.InterfaceInfo) { i.MTU = 1270 })
			case 4:
				set(c23IfChild, func(i *ifstate.InterfaceInfo) { i.LinkType = topology.Core })
				set(c23IfPeerB, func(i *ifstate.InterfaceInfo) { i.LinkType = topology.Child })
			case 5:
				delete(m, c23IfChild)
			case 6:
				delete(m, c23IfPeerA)
			case 7:
				set(c23IfPeerA, func(i *ifstate.InterfaceInfo) { i.RemoteID = 55 })
			case 8:
				set(c23IfParent, func(i *ifstate.InterfaceInfo) { i.IA = c23IA(60); i.MTU = 1222 })
			case 9:
				set(c23IfChild, func(i *ifstate.InterfaceInfo) { i.IA = c23IA(51); i.MTU = 1301 })
				set(c23IfPeerA, func(i *ifstate.InterfaceInfo) { i.IA = c23PeerIA(78, 3); i.MTU = 1302 })
				set(c23IfPeerB, func(i *ifstate.InterfaceInfo) { i.IA = c23PeerIA(79, 4); i.MTU = 1303 })
			}
			return m
		}
		const nVar = 10
		var seqs [][]int
		for a := 0; a < nVar; a++ {
			seqs = append(seqs, []int{a})
			for b := 0; b < nVar; b++ {
				seqs = append(seqs, []int{a, b})
				if mc.Thorough() {
					for c := 0; c < nVar; c++ {
						seqs = append(seqs, []int{a, b, c})
					}
				}
			}
		}
		for _, l := range []int{0, 2} {
			for _, term := range []bool{false, true} {
				if term && l == 0 {
					continue
				}
				for _, first := range []bool{false, true} {
					for _, sq := range seqs {
						c := c23Case{l: l, ts: now.Add(-10 * time.Second), ingress: c23IfParent, egress: c23IfChild, peers: []uint16{c23IfPeerA, c23IfPeerB},
							maxExp: 63, signers: []c23Signer{longLived("local")}, part: "topology-reload", extendFirst: first,
							description: fmt.Sprintf("reload variants %v, extension before the reloads: %v", sq, first)}
						if l == 0 {
							c.ingress = 0
						}
						if term {
							c.egress = 0
						}
						for _, v := range sq {
							c.topo = append(c.topo, variant(l, v))
						}
						cases = append(cases, c)
					}
				}
			}
		}
	}

	// part F: the maximum as the control service obtains it. Real beacon.Store (non-core) / beacon.CoreStore (core) built
	// from policies loaded like control/policy.go does, every assignment of MaxExpTime in {unset, 0, 20, 130, 255} to the
	// policy types of the store (non-core: Prop x UpReg x DownReg, core: Prop x CoreReg); for every task of that kind of
	// AS that owns an extender (control/tasks.go) the extender is wired as there: MaxExpTime = store.MaxExpTime(<policy
	// type of the task>). The signer outlives every maximum, so the configured maximum of THAT policy type is the bound.
	{
		alphabet := []int{-1, 0, 20, 130, 255}
		confMax := func(v int) uint8 {
			if v < 0 {
				return 63 // documented default (doc/manuals/control.rst / beacon policy: MaxExpTime default 63)
			}
			return uint8(v)
		}
		type conf struct {
			core  bool
			vals  map[beacon.PolicyType]int
			store c23MaxExpStore
			desc  string
		}
		var confs []conf
		mkPol := func(t beacon.PolicyType, v int) beacon.Policy {
			p, err := c23Policy(t, v)
			if err != nil {
				r.HarnessError("policy %s MaxExpTime=%d: %v", t, v, err)
			}
			return p
		}
		name := func(v int) string {
			if v < 0 {
				return "unset"
			}
			return fmt.Sprint(v)
		}
		for _, pv := range alphabet {
			for _, av := range alphabet {
				cs, err := beacon.NewCoreBeaconStore(beacon.CorePolicies{Prop: mkPol(beacon.PropPolicy, pv), CoreReg: mkPol(beacon.CoreRegPolicy, av)}, nil)
				if err != nil {
					r.HarnessError("core beacon store: %v", err)
					return
				}
				confs = append(confs, conf{true, map[beacon.PolicyType]int{beacon.PropPolicy: pv, beacon.CoreRegPolicy: av}, cs,
					fmt.Sprintf("core AS, MaxExpTime Prop=%s CoreReg=%s", name(pv), name(av))})
				for _, bv := range alphabet {
					s, err := beacon.NewBeaconStore(beacon.Policies{Prop: mkPol(beacon.PropPolicy, pv), UpReg: mkPol(beacon.UpRegPolicy, av),
						DownReg: mkPol(beacon.DownRegPolicy, bv)}, nil)
					if err != nil {
						r.HarnessError("beacon store: %v", err)
						return
					}
					confs = append(confs, conf{false, map[beacon.PolicyType]int{beacon.PropPolicy: pv, beacon.UpRegPolicy: av, beacon.DownRegPolicy: bv}, s,
						fmt.Sprintf("non-core AS, MaxExpTime Prop=%s UpReg=%s DownReg=%s", name(pv), name(av), name(bv))})
				}
			}
		}
		for _, cf := range confs {
			for ti := range c23Tasks {
				tk := &c23Tasks[ti]
				if tk.core != cf.core {
					continue
				}
				v, ok := cf.vals[tk.policy]
				if !ok {
					r.HarnessError("task %s: no policy %s in %s", tk.name, tk.policy, cf.desc)
					continue
				}
				c := c23Case{l: 2, ts: now.Add(-10 * time.Second), ingress: c23IfParent, egress: c23IfChild, peers: []uint16{c23IfPeerA, c23IfPeerB},
					maxExp: confMax(v), signers: []c23Signer{longLived("local")}, part: "policy-store", store: cf.store, task: tk,
					description: fmt.Sprintf("%s; extender of task %s (policy %s)", cf.desc, tk.name, tk.policy)}
				if tk.originate {
					c.l, c.ingress = 0, 0
				}
				if tk.terminate {
					c.egress = 0
				}
				cases = append(cases, c)
			}
		}
	}

	nonMaximal, notLatest := 0, 0
	for ci, c := range cases {
		ps, err := prior(c.ts, c.l)
		if err != nil {
			r.HarnessError("%v", err)
			return
		}
		priorPB := seg.PathSegmentToPB(ps)
		if c.l == 0 {
			priorPB = &cppb.PathSegment{SegmentInfo: ps.Info.Raw}
		}
		ext := c23Extender(c.l, c.signers, c.maxExp, c.epic)
		if c.store != nil {
			ext = c23ExtenderFn(c.l, c.signers, c.task.maxExpFn(c.store), c.epic, c.task.name)
		}
		remoteOK := map[uint16]map[uint16]bool{} // remote interface ids an interface may report (a reload keeps the learned one)
		curTopo := c23Interfaces(c.l)
		for id, info := range curTopo {
			remoteOK[id] = map[uint16]bool{info.RemoteID: true}
		}
		if c.extendFirst {
			if warm, err := prior(c.ts, c.l); err == nil {
				eg := uint16(c23IfChild)
				_ = ext.Extend(ctx, warm, c.ingress, eg, c.peers)
			}
		}
		for _, m := range c.topo {
			ext.Intfs.Update(m)
			next := map[uint16]map[uint16]bool{}
			for id, info := range m {
				if old, ok := remoteOK[id]; ok {
					old[info.RemoteID] = true
					next[id] = old
				} else {
					next[id] = map[uint16]bool{info.RemoteID: true}
				}
			}
			remoteOK, curTopo = next, m
		}
		name := fmt.Sprintf("%s: prior=%d ts-now=%v in=%d eg=%d peers=%v maxExp=%d epic=%v %s", c.part, c.l, c.ts.Sub(now), c.ingress, c.egress,
			c.peers, c.maxExp, c.epic, c.description)
		var eerr error
		if p := mc.Safely(func() { eerr = ext.Extend(ctx, ps, c.ingress, c.egress, c.peers) }); p != nil {
			r.Violation("panic-in-extend", map[string]any{"case": name, "panic": fmt.Sprint(p)})
			continue
		}
		r.CaseBulk(1, 1)
		viol := func(key, detail string) {
			r.Violation(key, map[string]any{"case": name, "detail": detail, "error": fmt.Sprint(eerr)})
		}
		// ---- reference expectations ----
		first := c.l == 0
		posOK := (c.ingress == 0) == first && !(c.ingress == 0 && c.egress == 0)
		ifs := curTopo
		egInfo, egKnown := ifs[c.egress]
		egOK := c.egress == 0 || (egKnown && !egInfo.IA.IsWildcard())
		_, inKnown := ifs[c.ingress]
		inOK := c.ingress == 0 || inKnown
		var best *c23Signer
		for i := range c.signers {
			s := &c.signers[i]
			if !s.nb.After(c.ts) && !now.After(s.na) { // covers [ts, now]
				if best == nil || s.na.After(best.na) {
					best = s
				}
			}
		}
		signerOK := best != nil && best.na.Sub(c.ts) >= c24Unit
		mustFail := !posOK || !egOK || best == nil
		maySucceed := posOK && egOK && inOK && signerOK
		if eerr != nil {
			if maySucceed {
				viol("unexpected-failure", "Extend failed although position, interfaces and a signer covering [timestamp, now] with room for one expiry unit were given")
				continue
			}
			switch {
			case !posOK:
				r.Outcome("refused:position")
			case !egOK || !inOK:
				r.Outcome("refused:interface")
			default:
				r.Outcome("refused:no-usable-signer")
			}
			continue
		}
		if mustFail {
			k := "inconsistent-position-accepted"
			if posOK && !egOK {
				k = "unknown-egress-accepted"
			} else if posOK {
				k = "extended-without-valid-signer"
			}
			viol(k, fmt.Sprintf("Extend succeeded; posOK=%v egOK=%v signer=%v", posOK, egOK, best != nil))
			continue
		}
		// ---- judge the produced entry ----
		if len(ps.ASEntries) != c.l+1 {
			viol("entry-count", fmt.Sprintf("%d entries after extending %d", len(ps.ASEntries), c.l))
			continue
		}
		outPB := seg.PathSegmentToPB(ps)
		if !bytes.Equal(outPB.SegmentInfo, priorPB.SegmentInfo) {
			viol("info-changed", "segment info changed by Extend")
		}
		for i := 0; i < c.l; i++ {
			if !proto.Equal(outPB.AsEntries[i].Signed, priorPB.AsEntries[i].Signed) {
				viol("earlier-entry-changed", fmt.Sprintf("entry %d changed by Extend", i))
			}
		}
		e := ps.ASEntries[c.l]
		// what is signed is what the struct says: decode the signed body independently
		hdr, rawBody, derr := c38DecodeHB(e.Signed.HeaderAndBody)
		var body cppb.ASEntrySignedBody
		if derr != nil || proto.Unmarshal(rawBody, &body) != nil || body.HopEntry == nil || body.HopEntry.HopField == nil {
			viol("signed-body-undecodable", fmt.Sprint(derr))
			continue
		}
		if addr.IA(body.IsdAs) != c23IA(c.l) || e.Local != c23IA(c.l) {
			viol("local-ia-wrong", fmt.Sprintf("signed %v struct %v want %v", addr.IA(body.IsdAs), e.Local, c23IA(c.l)))
		}
		wantNext := addr.IA(0)
		if c.egress != 0 {
			wantNext = egInfo.IA
		}
		if addr.IA(body.NextIsdAs) != wantNext || e.Next != wantNext {
			viol("next-ia-wrong", fmt.Sprintf("signed %v struct %v want %v", addr.IA(body.NextIsdAs), e.Next, wantNext))
		}
		hf := body.HopEntry.HopField
		if hf.Ingress != uint64(c.ingress) || hf.Egress != uint64(c.egress) {
			viol("hop-interfaces-wrong", fmt.Sprintf("signed hop field %d>%d", hf.Ingress, hf.Egress))
		}
		wantInMTU := uint32(0)
		if c.ingress != 0 {
			wantInMTU = uint32(ifs[c.ingress].MTU)
		}
		if body.Mtu != 1472 || (inKnown || c.ingress == 0) && body.HopEntry.IngressMtu != wantInMTU {
			viol("mtu-wrong", fmt.Sprintf("AS MTU %d (configured 1472), ingress MTU %d (interface table: %d)", body.Mtu, body.HopEntry.IngressMtu, wantInMTU))
		}
		// signature: which offered signer made it, over info || earlier entries and signatures
		ad := [][]byte{outPB.SegmentInfo}
		for i := 0; i < c.l; i++ {
			ad = append(ad, outPB.AsEntries[i].Signed.HeaderAndBody, outPB.AsEntries[i].Signed.Signature)
		}
		var used *c23Signer
		for i := range c.signers {
			s := &c.signers[i]
			if hdr.alg >= 1 && hdr.alg <= 3 && ecdsa.VerifyASN1(&s.key.PublicKey, c38Digest(hdr.alg, e.Signed.HeaderAndBody, ad), e.Signed.Signature) {
				used = s
			}
		}
		if used == nil || hdr.adLen != int64(len(c38Concat(ad))) {
			viol("signature-not-over-info-and-earlier-entries", fmt.Sprintf("no offered signer key verifies the entry over info||earlier entries||signatures (alg %d, adlen %d)", hdr.alg, hdr.adLen))
			continue
		}
		var kid cppb.VerificationKeyID
		if proto.Unmarshal(hdr.keyID, &kid) != nil || addr.IA(kid.IsdAs) != c23IA(c.l) || !bytes.Equal(kid.SubjectKeyId, pkigen.SubjectKeyID(&used.key.PublicKey)) {
			viol("key-id-wrong", fmt.Sprintf("verification key id %x", hdr.keyID))
		}
		if used != best {
			notLatest++
		}
		// the entry has to be verifiable: the signer that signed must be one whose validity covers [timestamp, now]
		// (segment verification binds the certificate validity to start at the segment timestamp)
		if used.nb.After(c.ts) || now.After(used.na) {
			viol("signed-by-signer-not-covering-timestamp", fmt.Sprintf("entry signed by %s valid [%v, %v], which does not cover [timestamp %v, now %v]; covering signer available: %s",
				used.name, used.nb, used.na, c.ts, now, best.name))
		}
		// expiry bounds
		checkExp := func(what string, exp uint32) {
			if exp > uint32(c.maxExp) {
				if c.task != nil {
					viol("expiry-exceeds-maximum-of-policy:"+c.task.name, fmt.Sprintf("%s ExpTime %d > MaxExpTime %d configured for policy %s", what, exp, c.maxExp, c.task.policy))
				} else {
					viol("expiry-exceeds-maximum", fmt.Sprintf("%s ExpTime %d > MaxExpTime %d", what, exp, c.maxExp))
				}
			}
			if end := c.ts.Truncate(time.Second).Add(time.Duration(exp+1) * c24Unit); end.After(used.na) {
				viol("expiry-exceeds-signer", fmt.Sprintf("%s ExpTime %d: hop valid until %v, signer %s expires %v", what, exp, end, used.name, used.na))
			}
		}
		checkExp("hop field", hf.ExpTime)
		wantExp := int64(c.maxExp)
		if room := int64(used.na.Sub(c.ts.Truncate(time.Second))/c24Unit) - 1; room < wantExp {
			wantExp = room
		}
		if int64(hf.ExpTime) != wantExp {
			nonMaximal++
		}
		// MACs
		key := c23Key16(c.l)
		tsSecs := uint32(c.ts.Unix())
		beta := uint16(0x5a5a)
		for i := 0; i < c.l; i++ {
			beta ^= binary.BigEndian.Uint16(ps.ASEntries[i].HopEntry.HopField.MAC[:2])
		}
		full := c23HopMAC(key, beta, tsSecs, uint8(hf.ExpTime), c.ingress, c.egress)
		if !bytes.Equal(hf.Mac, full[:6]) || !bytes.Equal(e.HopEntry.HopField.MAC[:], full[:6]) {
			viol("hop-mac-wrong", fmt.Sprintf("hop MAC %x, reference %x (beta %#04x)", hf.Mac, full[:6], beta))
		}
		betaPeer := beta ^ binary.BigEndian.Uint16(full[:2])
		// peers: exactly the requested peer interfaces that are known and have a remote interface id, in order
		var wantPeers []uint16
		for _, p := range c.peers {
			if info, ok := ifs[p]; ok && info.RemoteID != 0 && !info.IA.IsWildcard() {
				wantPeers = append(wantPeers, p)
			}
		}
		if len(body.PeerEntries) != len(wantPeers) || len(e.PeerEntries) != len(wantPeers) {
			viol("peer-entries-wrong-set", fmt.Sprintf("%d peer entries, want interfaces %v", len(body.PeerEntries), wantPeers))
		} else {
			for pi, p := range wantPeers {
				pe := body.PeerEntries[pi]
				info := ifs[p]
				if pe.HopField == nil || pe.HopField.Ingress != uint64(p) || pe.HopField.Egress != uint64(c.egress) ||
					addr.IA(pe.PeerIsdAs) != info.IA || !remoteOK[p][uint16(pe.PeerInterface)] || pe.PeerMtu != uint32(info.MTU) {
					viol("peer-entry-wrong", fmt.Sprintf("peer entry %d: %v", pi, pe))
					continue
				}
				checkExp(fmt.Sprintf("peer hop field %d", pi), pe.HopField.ExpTime)
				pfull := c23HopMAC(key, betaPeer, tsSecs, uint8(pe.HopField.ExpTime), p, c.egress)
				if !bytes.Equal(pe.HopField.Mac, pfull[:6]) {
					viol("peer-mac-wrong", fmt.Sprintf("peer %d MAC %x, reference %x (beta %#04x)", pi, pe.HopField.Mac, pfull[:6], betaPeer))
				}
				if c.epic {
					d := e.UnsignedExtensions.EpicDetached
					if d == nil || len(d.AuthPeerEntries) != len(wantPeers) || !bytes.Equal(d.AuthPeerEntries[pi], pfull[6:]) {
						viol("epic-peer-authenticator-wrong", fmt.Sprintf("peer %d", pi))
					}
				}
			}
		}
		if c.epic {
			if d := e.UnsignedExtensions.EpicDetached; d == nil || !bytes.Equal(d.AuthHopEntry, full[6:]) {
				viol("epic-hop-authenticator-wrong", "EPIC hop authenticator is not the remaining 10 bytes of the hop MAC")
			}
		}
		switch {
		case int64(hf.ExpTime) < int64(c.maxExp):
			r.Outcome("extended:expiry-shortened-by-signer")
		case c.egress == 0:
			r.Outcome("extended:terminated")
		case first:
			r.Outcome("extended:originated")
		default:
			r.Outcome("extended:propagated")
		}
		if ci%997 == 0 {
			r.Sample(map[string]any{"case": name, "exp_time": hf.ExpTime, "hop_mac": fmt.Sprintf("%x", hf.Mac), "peer_entries": len(body.PeerEntries),
				"signer_used": used.name})
		}
	}
	r.Extra["cases_by_part"] = func() map[string]int {
		m := map[string]int{}
		for _, c := range cases {
			m[c.part]++
		}
		return m
	}()
	r.Extra["observation_expiry_not_maximal"] = nonMaximal
	r.Extra["observation_signer_not_latest_expiring"] = notLatest
	r.Assumptions = []string{
		"Extend is expected to succeed when ingress/egress fit the position, the interfaces are configured with a non-wildcard neighbour, and a signer covers [timestamp, now] and expires at least one expiry unit after the timestamp; it must fail when the position rule is broken, the egress interface has no (non-wildcard) neighbour, or no offered signer covers [timestamp, now]",
		"an unknown ingress interface may be refused or not (not stated); a signer with less than one expiry unit of room may be refused",
		"peer entries are expected exactly for the requested peer interfaces that are configured with a remote interface id (others are skipped)",
		"whether the expiry is the largest admissible one and whether the latest-expiring signer was chosen are recorded as observations, not demanded",
		"part F replicates the six extender constructions of control/tasks.go (TasksConfig.extender is unexported and the tasks are periodic runners); the stores, policy parsing/defaulting and RegPolicyType.PolicyType() are the real ones; the default maximum when a policy does not set MaxExpTime is 63",
		"EPIC authenticators (bytes 6..16 of the same CMAC) are checked although the statement does not name them: only in cases with EPIC enabled",
	}
}
