package pki

import (
	"context"
	"crypto/ecdsa"
	"crypto/elliptic"
	"crypto/x509"
	"encoding/asn1"
	"fmt"
	"math/big"
	"net"
	"sync"
	"sync/atomic"
	"testing"
	"testing/synctest"
	"time"

	"github.com/patrickmn/go-cache"
	"google.golang.org/protobuf/proto"

	"github.com/scionproto/scion/pkg/addr"
	cppb "github.com/scionproto/scion/pkg/proto/control_plane"
	cryptopb "github.com/scionproto/scion/pkg/proto/crypto"
	"github.com/scionproto/scion/pkg/scrypto/cppki"
	"github.com/scionproto/scion/pkg/scrypto/signed"
	seg "github.com/scionproto/scion/pkg/segment"
	"github.com/scionproto/scion/private/segment/segverifier"
	infra "github.com/scionproto/scion/private/segment/verifier"
	"github.com/scionproto/scion/private/storage/db"
	"github.com/scionproto/scion/private/storage/trust/sqlite"
	"github.com/scionproto/scion/private/trust"
	"github.com/scionproto/scion/private/trust/compat"
	trustgrpc "github.com/scionproto/scion/private/trust/grpc"

	"verif/mc"
	"verif/pkigen"
)

// C24: segment verification detects any alteration of signed content.
//
// Real code on the path of every case: segment.SegmentFromPB / BeaconFromPB / ASEntryFromPB (parsing),
// segverifier.VerifySegment (binds IA and hop lifetime), PathSegment.VerifyASEntry / associatedData,
// trust.Verifier.Verify, trust.FetchingProvider.GetChains over a real sqlite trust DB with real TRCs and chains
// (cppki.VerifyChain), signed.Verify. The clock is the synctest bubble clock (frozen), so that certificate windows
// can be placed exactly around the segment timestamp and the hop lifetime.
//
// Reference model (from the statement and doc/control-plane.rst "Signatures"): entry i verifies iff
//   sig_i = ECDSA_{k}(H(header_and_body_i || info || hb_0 || sig_0 || ... || hb_{i-1} || sig_{i-1})),
//   k is the key of an AS certificate (chain rooted in the active TRC) whose subject ISD-AS equals the ISD-AS in the
//   signed body of entry i and whose validity covers [timestamp, timestamp + (ExpTime+1)*24h/256].
// Segments are built twice: with the real AddASEntry + trust.Signer, and by a clean-room signer (own protobuf
// encoding of header/body envelope from the C38 check, crypto/ecdsa directly).

const c24Unit = 24 * time.Hour / 256 // hop-field expiry unit (337.5 s), doc/protocols/scion-header.rst

type c24Cred struct {
	name string
	ia   addr.IA // ISD-AS in the certificate subject
	cert *pkigen.Cert
	ca   *pkigen.Cert
	alg  int64
}

func (c c24Cred) chain() []*x509.Certificate { return pkigen.Chain(c.cert, c.ca) }

func c24KeyID(ia addr.IA, skid []byte) []byte {
	b, err := proto.Marshal(&cppb.VerificationKeyID{IsdAs: uint64(ia), SubjectKeyId: skid, TrcBase: 1, TrcSerial: 1})
	if err != nil {
		panic(err)
	}
	return b
}

type c24ISD struct {
	isd     addr.ISD
	trc     cppki.SignedTRC
	ca      *pkigen.Cert
	rogueCA *pkigen.Cert // CA under a root that is not in the TRC
}

func c24MakeISD(isd addr.ISD, now time.Time) (c24ISD, error) {
	core := addr.MustIAFrom(isd, 0xff0000000001)
	v := pkigen.Val(now.Add(-72*time.Hour), 400*24*time.Hour)
	n := func(s string) string { return fmt.Sprintf("c24-%s-%d", s, isd) }
	root := pkigen.Root(core, n("root"), v)
	ca := pkigen.CA(root, core, n("ca"), pkigen.Val(now.Add(-71*time.Hour), 300*24*time.Hour))
	rogueRoot := pkigen.Root(core, n("rogue-root"), v)
	rogueCA := pkigen.CA(rogueRoot, core, n("rogue-ca"), pkigen.Val(now.Add(-71*time.Hour), 300*24*time.Hour))
	sens := pkigen.Sensitive(core, n("sensitive"), v)
	reg := pkigen.Regular(core, n("regular"), v)
	pld := cppki.TRC{Version: 1, ID: cppki.TRCID{ISD: isd, Base: 1, Serial: 1},
		Validity: pkigen.Val(now.Add(-70*time.Hour), 200*24*time.Hour), Quorum: 1,
		CoreASes: []addr.AS{core.AS()}, AuthoritativeASes: []addr.AS{core.AS()}, Description: "c24",
		Certificates: pkigen.Certs(sens, reg, root)}
	trc, err := pkigen.Sign(pld, sens, reg)
	if err != nil {
		return c24ISD{}, err
	}
	if err := trc.Verify(nil); err != nil {
		return c24ISD{}, fmt.Errorf("base TRC does not verify: %w", err)
	}
	return c24ISD{isd, trc, ca, rogueCA}, nil
}

func c24Alg(curve elliptic.Curve) int64 {
	switch curve {
	case elliptic.P384():
		return 2
	case elliptic.P521():
		return 3
	}
	return 1
}

func c24MakeCred(isd c24ISD, ca *pkigen.Cert, ia addr.IA, name string, v cppki.Validity, curve elliptic.Curve) c24Cred {
	c := pkigen.Must(pkigen.Spec{Type: cppki.AS, IA: ia, CN: "c24-" + name, NotBefore: v.NotBefore, NotAfter: v.NotAfter,
		Issuer: ca, Curve: curve})
	return c24Cred{name: name, ia: ia, cert: c, ca: ca, alg: c24Alg(curve)}
}

// c24Entry describes one AS entry and who signs it how.
type c24Entry struct {
	local, next     addr.IA
	ingress, egress uint16
	exp             uint8
	peers           int
	key             *ecdsa.PrivateKey
	alg             int64
	claimIA         addr.IA // ISD-AS written into the verification key id
	claimSKID       []byte
	cred            *c24Cred // set for honest entries (key/claim derived from it)
	omitEarlierSigs bool     // reference signer only: leave earlier signatures out of the signature input
	omitInfo        bool     // reference signer only: leave the segment info out of the signature input
	peerExp         *uint8   // expiry of the peer hop fields if different from the hop field's
}

func c24Honest(c *c24Cred, next addr.IA, in, eg uint16, exp uint8, peers int) c24Entry {
	return c24Entry{local: c.ia, next: next, ingress: in, egress: eg, exp: exp, peers: peers, key: c.cert.Key, alg: c.alg,
		claimIA: c.ia, claimSKID: c.cert.X.SubjectKeyId, cred: c}
}

func (e c24Entry) asEntry() seg.ASEntry {
	a := seg.ASEntry{Local: e.local, Next: e.next, MTU: 1472,
		HopEntry: seg.HopEntry{IngressMTU: 1400, HopField: seg.HopField{ExpTime: e.exp, ConsIngress: e.ingress,
			ConsEgress: e.egress, MAC: [6]byte{1, 2, 3, 4, 5, byte(e.ingress)}}}}
	pexp := e.exp
	if e.peerExp != nil {
		pexp = *e.peerExp
	}
	for p := 0; p < e.peers; p++ {
		a.PeerEntries = append(a.PeerEntries, seg.PeerEntry{Peer: addr.MustIAFrom(1, addr.AS(0xff0000000700+p)),
			PeerInterface: uint16(70 + p), PeerMTU: 1300,
			HopField: seg.HopField{ExpTime: pexp, ConsIngress: uint16(900 + p), ConsEgress: e.egress, MAC: [6]byte{9, 9, 9, 9, 9, byte(p)}}})
	}
	return a
}

func (e c24Entry) bodyPB() []byte {
	a := e.asEntry()
	pb := &cppb.ASEntrySignedBody{IsdAs: uint64(a.Local), NextIsdAs: uint64(a.Next), Mtu: uint32(a.MTU),
		HopEntry: &cppb.HopEntry{IngressMtu: uint32(a.HopEntry.IngressMTU), HopField: &cppb.HopField{
			Ingress: uint64(a.HopEntry.HopField.ConsIngress), Egress: uint64(a.HopEntry.HopField.ConsEgress),
			ExpTime: uint32(a.HopEntry.HopField.ExpTime), Mac: a.HopEntry.HopField.MAC[:]}}}
	for _, p := range a.PeerEntries {
		pb.PeerEntries = append(pb.PeerEntries, &cppb.PeerEntry{PeerIsdAs: uint64(p.Peer), PeerInterface: uint64(p.PeerInterface),
			PeerMtu: uint32(p.PeerMTU), HopField: &cppb.HopField{Ingress: uint64(p.HopField.ConsIngress),
				Egress: uint64(p.HopField.ConsEgress), ExpTime: uint32(p.HopField.ExpTime), Mac: p.HopField.MAC[:]}})
	}
	b, err := proto.Marshal(pb)
	if err != nil {
		panic(err)
	}
	return b
}

func c24Info(ts time.Time, segID uint16) []byte {
	b, err := proto.Marshal(&cppb.SegmentInformation{Timestamp: ts.Unix(), SegmentId: uint32(segID)})
	if err != nil {
		panic(err)
	}
	return b
}

// c24RefBuild builds the segment with the clean-room signer.
func c24RefBuild(info []byte, entries []c24Entry, signTime time.Time) *cppb.PathSegment {
	ps := &cppb.PathSegment{SegmentInfo: info}
	for _, e := range entries {
		var ad [][]byte
		if !e.omitInfo {
			ad = append(ad, info)
		}
		for _, prev := range ps.AsEntries {
			ad = append(ad, prev.Signed.HeaderAndBody)
			if !e.omitEarlierSigs {
				ad = append(ad, prev.Signed.Signature)
			}
		}
		h := c38Hdr{alg: e.alg, keyID: c24KeyID(e.claimIA, e.claimSKID), hasTS: true, sec: signTime.Unix(),
			nanos: int64(signTime.Nanosecond()), adLen: int64(len(c38Concat(ad)))}
		hb := c38EncodeHB(h.encode(), e.bodyPB())
		sig, err := ecdsa.SignASN1(nil, e.key, c38Digest(e.alg, hb, ad))
		if err != nil {
			panic(err)
		}
		ps.AsEntries = append(ps.AsEntries, &cppb.ASEntry{Signed: &cryptopb.SignedMessage{HeaderAndBody: hb, Signature: sig}})
	}
	return ps
}

// c24RealBuild builds the segment with the real PathSegment.AddASEntry and trust.Signer (honest entries only).
func c24RealBuild(ts time.Time, segID uint16, entries []c24Entry) (*cppb.PathSegment, error) {
	ps, err := seg.CreateSegment(ts, segID)
	if err != nil {
		return nil, err
	}
	for _, e := range entries {
		s := trust.Signer{PrivateKey: e.cred.cert.Key, Algorithm: signed.SignatureAlgorithm(e.alg), IA: e.cred.ia,
			SubjectKeyID: e.cred.cert.X.SubjectKeyId, Expiration: e.cred.cert.X.NotAfter, TRCID: cppki.TRCID{ISD: e.cred.ia.ISD(), Base: 1, Serial: 1},
			Chain: e.cred.chain()}
		if err := ps.AddASEntry(context.Background(), e.asEntry(), s); err != nil {
			return nil, err
		}
	}
	return seg.PathSegmentToPB(ps), nil
}

func c24ClonePB(ps *cppb.PathSegment) *cppb.PathSegment {
	out := &cppb.PathSegment{SegmentInfo: append([]byte{}, ps.SegmentInfo...)}
	for _, e := range ps.AsEntries {
		out.AsEntries = append(out.AsEntries, &cppb.ASEntry{Signed: &cryptopb.SignedMessage{
			HeaderAndBody: append([]byte{}, e.Signed.HeaderAndBody...), Signature: append([]byte{}, e.Signed.Signature...)}})
	}
	return out
}

// c24Fetcher models the remote trust-material server. Like the real gRPC fetcher (private/trust/grpc/fetcher.go) it
// passes whatever the server returned through the real CheckChainsMatchQuery.
type c24Fetcher struct {
	mu     sync.Mutex
	answer [][]*x509.Certificate
	calls  int
}

func (f *c24Fetcher) Chains(_ context.Context, q trust.ChainQuery, _ net.Addr) ([][]*x509.Certificate, error) {
	f.mu.Lock()
	defer f.mu.Unlock()
	f.calls++
	if err := trustgrpc.CheckChainsMatchQuery(q, f.answer); err != nil {
		return nil, err
	}
	return f.answer, nil
}

func (f *c24Fetcher) TRC(context.Context, cppki.TRCID, net.Addr) (cppki.SignedTRC, error) {
	return cppki.SignedTRC{}, fmt.Errorf("c24: remote has no TRC")
}

type c24Store struct {
	db      sqlite.DB
	fetcher *c24Fetcher
}

var c24DBCtr atomic.Int64

func c24NewStore(isds []c24ISD, chains ...[]*x509.Certificate) (*c24Store, error) {
	d, err := sqlite.New(fmt.Sprintf("c24-%d-%d", time.Now().UnixNano(), c24DBCtr.Add(1)), &db.SqliteConfig{InMemory: true, MaxOpenReadConns: 2})
	if err != nil {
		return nil, err
	}
	for _, i := range isds {
		if _, err := d.InsertTRC(context.Background(), i.trc); err != nil {
			d.Close()
			return nil, err
		}
	}
	for _, c := range chains {
		if _, err := d.InsertChain(context.Background(), c); err != nil {
			d.Close()
			return nil, err
		}
	}
	return &c24Store{db: d, fetcher: &c24Fetcher{}}, nil
}

func (s *c24Store) verifier(c *cache.Cache) compat.Verifier {
	return compat.Verifier{Verifier: trust.Verifier{
		Engine: trust.FetchingProvider{DB: s.db, Recurser: trust.LocalOnlyRecurser{}, Fetcher: s.fetcher},
		Cache:  c,
	}}
}

var c24Server = &net.TCPAddr{IP: net.IPv4(127, 0, 0, 9), Port: 30252}

// c24Verdict: "parse" (the wire form is refused before verification), "reject" (verification error), "accept".
// A byte/structure mutant that the strict wire parser refuses (e.g. because Validate sees inconsistent ISD-AS
// links) is additionally pushed through VerifySegment entry by entry without Validate, so that the signature
// chain itself is exercised for every mutant whose entries are parsable at all.
func c24Check(v compat.Verifier, ps *cppb.PathSegment, beacon bool) (verdict string, err error) {
	var s *seg.PathSegment
	p := mc.Safely(func() {
		if beacon {
			s, err = seg.BeaconFromPB(ps)
		} else {
			s, err = seg.SegmentFromPB(ps)
		}
	})
	if p != nil {
		return "panic", fmt.Errorf("%v", p)
	}
	wireParsed := err == nil
	if !wireParsed {
		// lenient path: parse the pieces, skip Validate
		var info cppb.SegmentInformation
		if e := proto.Unmarshal(ps.SegmentInfo, &info); e != nil || info.SegmentId > 0xffff {
			return "parse", err
		}
		s = &seg.PathSegment{Info: seg.Info{Raw: ps.SegmentInfo, Timestamp: time.Unix(info.Timestamp, 0), SegmentID: uint16(info.SegmentId)}}
		for _, e := range ps.AsEntries {
			var a seg.ASEntry
			var e2 error
			if p := mc.Safely(func() { a, e2 = seg.ASEntryFromPB(e) }); p != nil {
				return "panic", fmt.Errorf("%v", p)
			}
			if e2 != nil {
				return "parse", e2
			}
			s.ASEntries = append(s.ASEntries, a)
		}
		if len(s.ASEntries) == 0 {
			return "parse", err
		}
	}
	var verr error
	if p := mc.Safely(func() { verr = segverifier.VerifySegment(context.Background(), v, c24Server, s) }); p != nil {
		return "panic", fmt.Errorf("%v", p)
	}
	if verr != nil {
		if !wireParsed {
			return "parse+reject", verr
		}
		return "reject", verr
	}
	if !wireParsed {
		return "parse-but-signatures-accept", err
	}
	return "accept", nil
}

func TestC24(t *testing.T) {
	r := mc.NewRun(t, "C24", mc.Exploration)
	r.Rule = "segments of 1..N entries (N=5 quick, 10 thorough; with and without peer entries; P-256/384/521 AS keys; hop expiry " +
		"0/1/63/255), built by the real AddASEntry+trust.Signer and by a clean-room signer; for each: every trailing truncation " +
		"(must verify), every byte of every HeaderAndBody, Signature and of the segment info under each mask, every swap / " +
		"removal / duplication / foreign insertion of entries, every (entry, wrong signer identity) pair, and per hop expiry " +
		"every certificate window around [timestamp, timestamp+lifetime] (all window cases under time.Local = UTC, UTC+05:30 and UTC-08:00); all hop-expiry vectors over {0,63,255} of 2- and 3-entry " +
		"segments x entry position x certificate windows relative to that entry's own / the segment's shortest / longest lifetime " +
		"(and peer hop fields with another expiry); chains in the DB or only at a remote server that " +
		"answers with right/wrong chains; the fetch path for real (part H: trust DB with the TRC only, real grpc Fetcher against an in-process TrustMaterialService that answers " +
		"with every ordered list of 1-3 chains from {genuine, other AS, right ISD-AS other key id, same key but validity not covering} x query with/without validity at the fetcher, and " +
		"x entry signed by {genuine key, other AS's key, another certified key of the AS} x 1-/2-entry segments end to end); cached verifier histories of 2 verifications (same key with other validity; warm-ups of several ASes followed by every signer-identity forgery). One case = one VerifySegment verdict " +
		"on a distinct (segment bytes, trust material, history); non-trivial = every case"
	var budget atomic.Bool
	done := make(chan struct{})
	go func() { // wall-clock budget watcher outside the bubble (the bubble clock is virtual)
		for !r.OutOfBudget() {
			select {
			case <-done:
				return
			case <-time.After(200 * time.Millisecond):
			}
		}
		budget.Store(true)
	}()
	synctest.Test(t, func(t *testing.T) { c24Run(r, &budget) })
	close(done)
	c24FetchPath(t, r)
	if budget.Load() {
		r.Capped("internal budget reached; remaining segment shapes skipped")
	}
	r.Finish(6)
}

func c24Run(r *mc.Run, budget *atomic.Bool) {
	now := time.Now() // bubble clock: 2000-01-01, frozen
	ts := now.Add(-60 * time.Second).Truncate(time.Second)
	isd1, err := c24MakeISD(1, now)
	if err != nil {
		r.HarnessError("ISD 1: %v", err)
		return
	}
	isd2, err := c24MakeISD(2, now)
	if err != nil {
		r.HarnessError("ISD 2: %v", err)
		return
	}
	isds := []c24ISD{isd1, isd2}
	wide := cppki.Validity{NotBefore: now.Add(-24 * time.Hour), NotAfter: now.Add(72 * time.Hour)}
	maxN := mc.Pick(5, 10)
	// honest ASes: position i -> IA; every third one in ISD 2, curves vary.
	var creds []*c24Cred
	for i := 0; i < maxN+1; i++ {
		isd := isd1
		if i%3 == 2 {
			isd = isd2
		}
		curve := elliptic.P256()
		if i == 1 {
			curve = elliptic.P384()
		}
		if i == 3 {
			curve = elliptic.P521()
		}
		ia := addr.MustIAFrom(isd.isd, addr.AS(0xff0000000110+i))
		c := c24MakeCred(isd, isd.ca, ia, fmt.Sprintf("as%d", i), wide, curve)
		creds = append(creds, &c)
	}
	var allChains [][]*x509.Certificate
	for _, c := range creds {
		allChains = append(allChains, c.chain())
	}
	// the same AS number as creds[0] in the other ISD (certified there)
	twinIA := addr.MustIAFrom(2, creds[0].ia.AS())
	twin := c24MakeCred(isd2, isd2.ca, twinIA, "twin-other-isd", wide, elliptic.P256())
	allChains = append(allChains, twin.chain())
	// a certificate for creds[0]'s ISD-AS from a CA whose root is not in the TRC
	rogue := c24MakeCred(isd1, isd1.rogueCA, creds[0].ia, "rogue-root", wide, elliptic.P256())
	allChains = append(allChains, rogue.chain())

	store, err := c24NewStore(isds, allChains...)
	if err != nil {
		r.HarnessError("trust db: %v", err)
		return
	}
	defer store.db.Close()
	ver := store.verifier(nil)
	masks := mc.Pick([]byte{0x01, 0x80}, []byte{0x01, 0x04, 0x20, 0x80})

	viol := func(key string, d map[string]any) { r.Violation(key, d) }
	expect := func(class string, want string, key string, what string, v compat.Verifier, ps *cppb.PathSegment, beacon bool) string {
		got, err := c24Check(v, ps, beacon)
		r.CaseBulk(1, 1)
		ok := false
		switch want {
		case "accept":
			ok = got == "accept"
		case "reject":
			ok = got == "reject" || got == "parse" || got == "parse+reject"
		}
		if got == "panic" {
			viol("panic", map[string]any{"case": what, "panic": fmt.Sprint(err)})
			return got
		}
		if !ok {
			viol(key, map[string]any{"case": what, "expected": want, "observed": got, "error": fmt.Sprint(err),
				"segment": c24Dump(ps)})
			return got
		}
		r.Outcome(class + ":" + got)
		return got
	}

	chainOf := func(n int, exp uint8, peersAt int) []c24Entry {
		var es []c24Entry
		for i := 0; i < n; i++ {
			var next addr.IA
			in, eg := uint16(0), uint16(0)
			if i > 0 {
				in = uint16(10 + i)
			}
			if i < n-1 {
				next = creds[i+1].ia
				eg = uint16(20 + i)
			}
			peers := 0
			if i == peersAt {
				peers = 2
			}
			es = append(es, c24Honest(creds[i], next, in, eg, exp, peers))
		}
		return es
	}

	// ---------- Part A: honest segments, truncation, byte and structure mutants ----------
	type shape struct {
		n       int
		exp     uint8
		peersAt int
		style   string
	}
	var shapes []shape
	for n := 1; n <= maxN; n++ {
		shapes = append(shapes, shape{n, 63, n / 2, "real"})
		if n <= mc.Pick(2, 4) {
			shapes = append(shapes, shape{n, 0, -1, "reference"})
		}
	}
	if mc.Thorough() {
		shapes = append(shapes, shape{3, 255, 0, "reference"}, shape{5, 1, 4, "reference"})
	}
	var sampleN int
	for _, sh := range shapes {
		if budget.Load() {
			return
		}
		entries := chainOf(sh.n, sh.exp, sh.peersAt)
		info := c24Info(ts, uint16(0x1000+sh.n))
		var ps *cppb.PathSegment
		if sh.style == "real" {
			if ps, err = c24RealBuild(ts, uint16(0x1000+sh.n), entries); err != nil {
				r.HarnessError("building real segment n=%d: %v", sh.n, err)
				return
			}
		} else {
			ps = c24RefBuild(info, entries, now)
		}
		name := fmt.Sprintf("%s-signed n=%d exp=%d", sh.style, sh.n, sh.exp)
		expect("honest-"+sh.style, "accept", "honest-segment-rejected", name, ver, ps, false)
		if sampleN < 3 {
			sampleN++
			r.Sample(map[string]any{"segment": name, "dump": c24Dump(ps)})
		}
		// trailing truncation: every proper prefix verifies (as a beacon on the wire: its last entry still names a next AS)
		for k := 1; k < sh.n; k++ {
			pre := c24ClonePB(ps)
			pre.AsEntries = pre.AsEntries[:k]
			expect("prefix", "accept", "prefix-rejected", fmt.Sprintf("%s: first %d entries", name, k), ver, pre, true)
		}
		// byte mutants, sharded over entries
		type job struct {
			entry int // -1: info
			field int // 0 HeaderAndBody, 1 Signature
		}
		var jobs []job
		jobs = append(jobs, job{-1, 0})
		for i := 0; i < sh.n; i++ {
			jobs = append(jobs, job{i, 0}, job{i, 1})
		}
		mc.ParallelFor(len(jobs), func(ji int) {
			j := jobs[ji]
			var ln int
			switch {
			case j.entry < 0:
				ln = len(ps.SegmentInfo)
			case j.field == 0:
				ln = len(ps.AsEntries[j.entry].Signed.HeaderAndBody)
			default:
				ln = len(ps.AsEntries[j.entry].Signed.Signature)
			}
			for b := 0; b < ln; b++ {
				for _, mask := range masks {
					if budget.Load() {
						return
					}
					m := c24ClonePB(ps)
					var what, class, key string
					switch {
					case j.entry < 0:
						m.SegmentInfo[b] ^= mask
						what, class, key = fmt.Sprintf("info[%d]^=%#x", b, mask), "info-byte", "info-byte-accepted"
					case j.field == 0:
						m.AsEntries[j.entry].Signed.HeaderAndBody[b] ^= mask
						what, class, key = fmt.Sprintf("entry %d HeaderAndBody[%d]^=%#x", j.entry, b, mask), "body-byte", "entry-byte-accepted"
					default:
						m.AsEntries[j.entry].Signed.Signature[b] ^= mask
						what, class, key = fmt.Sprintf("entry %d Signature[%d]^=%#x", j.entry, b, mask), "signature-byte", "signature-byte-accepted"
						if j.entry < sh.n-1 {
							key = "earlier-signature-byte-accepted"
						}
					}
					expect(class, "reject", key, name+": "+what, ver, m, false)
				}
			}
		})
		// structure mutants
		for i := 0; i < sh.n; i++ {
			for j := i + 1; j < sh.n; j++ {
				m := c24ClonePB(ps)
				m.AsEntries[i], m.AsEntries[j] = m.AsEntries[j], m.AsEntries[i]
				expect("reorder", "reject", "reordered-accepted", fmt.Sprintf("%s: entries %d and %d swapped", name, i, j), ver, m, false)
			}
			if i < sh.n-1 { // non-trailing removal
				m := c24ClonePB(ps)
				m.AsEntries = append(m.AsEntries[:i:i], m.AsEntries[i+1:]...)
				expect("removal", "reject", "removal-accepted", fmt.Sprintf("%s: entry %d removed", name, i), ver, m, false)
			}
			for at := 0; at <= sh.n; at++ { // duplicate entry i at position at
				m := c24ClonePB(ps)
				dup := c24ClonePB(ps).AsEntries[i]
				m.AsEntries = append(m.AsEntries[:at:at], append([]*cppb.ASEntry{dup}, m.AsEntries[at:]...)...)
				want := "reject"
				expect("insertion", want, "insertion-accepted", fmt.Sprintf("%s: copy of entry %d inserted at %d", name, i, at), ver, m, false)
			}
		}
		// an earlier entry's signature replaced by ANOTHER VALID signature of the same signer over the same input
		// (the ECDSA twin (r, n-s)): that entry still verifies by itself, every later entry must not.
		for i := 0; i < sh.n-1; i++ {
			m := c24ClonePB(ps)
			tw, err := c24Twin(m.AsEntries[i].Signed.Signature, entries[i].key)
			if err != nil {
				r.HarnessError("twin signature: %v", err)
				continue
			}
			m.AsEntries[i].Signed.Signature = tw
			expect("earlier-signature-swap", "reject", "earlier-signature-replaced-accepted",
				fmt.Sprintf("%s: signature of entry %d replaced by its valid ECDSA twin", name, i), ver, m, false)
			// control: the prefix ending with the re-signed entry is itself fine (the replaced signature is valid)
			pre := c24ClonePB(m)
			pre.AsEntries = pre.AsEntries[:i+1]
			expect("earlier-signature-swap-control", "accept", "twin-control-rejected",
				fmt.Sprintf("%s: prefix ending at the twin-signed entry %d", name, i), ver, pre, true)
		}
		// insertion of an entry that is validly signed in another segment (same info, other chain)
		if sh.n >= 2 {
			other := c24RefBuild(info, chainOf(sh.n, sh.exp, -1)[:1], now)
			for at := 1; at <= sh.n; at++ {
				m := c24ClonePB(ps)
				m.AsEntries = append(m.AsEntries[:at:at], append([]*cppb.ASEntry{c24ClonePB(other).AsEntries[0]}, m.AsEntries[at:]...)...)
				expect("insertion", "reject", "insertion-accepted", fmt.Sprintf("%s: first entry of another segment inserted at %d", name, at), ver, m, false)
			}
			// the info of another segment (timestamp + 1 s, segment id + 1)
			for _, inf := range [][]byte{c24Info(ts.Add(time.Second), uint16(0x1000+sh.n)), c24Info(ts, uint16(0x1001+sh.n)), {}} {
				m := c24ClonePB(ps)
				m.SegmentInfo = inf
				expect("info-edit", "reject", "info-edit-accepted", fmt.Sprintf("%s: info replaced by %x", name, inf), ver, m, false)
			}
		}
	}

	// ---------- Part B: signer identity ----------
	type identCase struct {
		what string
		ps   *cppb.PathSegment
		want string
	}
	var identCases []identCase // replayed in part F behind warm caches
	for n := 1; n <= mc.Pick(3, 5); n++ {
		for pos := 0; pos < n; pos++ {
			if budget.Load() {
				return
			}
			base := chainOf(n, 63, -1)
			info := c24Info(ts, 0x2000)
			victim := creds[pos]
			other := creds[(pos+1)%len(creds)] // another honest AS (possibly other ISD)
			type ident struct {
				what      string
				cred      *c24Cred // key used
				claimIA   addr.IA
				claimSKID []byte
				want      string
			}
			ids := []ident{
				{"honest", victim, victim.ia, victim.cert.X.SubjectKeyId, "accept"},
				{"other AS's key, key id names the other AS", other, other.ia, other.cert.X.SubjectKeyId, "reject"},
				{"other AS's key, key id names the victim's certificate", other, victim.ia, victim.cert.X.SubjectKeyId, "reject"},
				{"other AS's key, key id names the victim's ISD-AS with the other AS's subject key id", other, victim.ia, other.cert.X.SubjectKeyId, "reject"},
				{"victim's key, key id names another ISD-AS", victim, other.ia, victim.cert.X.SubjectKeyId, "reject"},
				{"victim's key, unknown subject key id", victim, victim.ia, []byte("no-such-key-id------"), "reject"},
				{"victim's key, wildcard AS in key id", victim, addr.MustIAFrom(victim.ia.ISD(), 0), victim.cert.X.SubjectKeyId, "reject"},
			}
			if pos == 0 {
				ids = append(ids,
					ident{"same AS number certified in the other ISD, key id names that ISD-AS", &twin, twin.ia, twin.cert.X.SubjectKeyId, "reject"},
					ident{"same AS number certified in the other ISD, key id names the victim's ISD-AS", &twin, victim.ia, twin.cert.X.SubjectKeyId, "reject"},
					ident{"certificate for the victim's ISD-AS under a root outside the TRC", &rogue, victim.ia, rogue.cert.X.SubjectKeyId, "reject"},
				)
			}
			for _, id := range ids {
				es := append([]c24Entry{}, base...)
				es[pos].key, es[pos].alg, es[pos].claimIA, es[pos].claimSKID = id.cred.cert.Key, id.cred.alg, id.claimIA, id.claimSKID
				ps := c24RefBuild(info, es, now)
				class := "identity"
				if id.want == "accept" {
					class = "identity-honest"
				}
				expect(class, id.want, "wrong-signer-identity-accepted", fmt.Sprintf("n=%d entry %d: %s", n, pos, id.what), ver, ps, false)
				if n <= 2 {
					identCases = append(identCases, identCase{fmt.Sprintf("n=%d entry %d: %s", n, pos, id.what), ps, id.want})
				}
			}
			// signature input variants an implementation could wrongly accept
			for _, variant := range []string{"earlier signatures not covered", "segment info not covered"} {
				if variant == "earlier signatures not covered" && pos == 0 {
					continue
				}
				es := append([]c24Entry{}, base...)
				es[pos].omitEarlierSigs = variant == "earlier signatures not covered"
				es[pos].omitInfo = variant == "segment info not covered"
				expect("signature-input", "reject", "weak-signature-input-accepted", fmt.Sprintf("n=%d entry %d: %s", n, pos, variant), ver,
					c24RefBuild(info, es, now), false)
			}
		}
	}

	// ---------- Part C: certificate validity vs hop lifetime ----------
	// Parts C and C2 run once per process time zone: segment timestamps are time.Unix values (= in time.Local) and the
	// trust DB compares times as text, so every certificate-window verdict has to be independent of time.Local.
	origLocal := time.Local
	defer func() { time.Local = origLocal }()
	for _, zone := range []struct {
		name string
		loc  *time.Location
	}{{"UTC", time.UTC}, {"UTC+05:30", time.FixedZone("c24-east", 5*3600+1800)}, {"UTC-08:00", time.FixedZone("c24-west", -8*3600)}} {
		time.Local = zone.loc
		zn := "time.Local=" + zone.name + ": "
		type window struct {
			what string
			nb   time.Duration // NotBefore - ts
			na   func(life time.Duration) time.Duration
			want string // accept / reject / "" (boundary instant: either verdict)
		}
		ceil := func(d time.Duration) time.Duration { return (d + time.Second - 1).Truncate(time.Second) }
		windows := []window{
			{"covers with slack", -time.Hour, func(l time.Duration) time.Duration { return ceil(l) + time.Hour }, "accept"},
			{"starts 1s before, ends at first whole second >= end of life", -time.Second, func(l time.Duration) time.Duration { return ceil(l) }, "accept"},
			{"starts exactly at the timestamp", 0, func(l time.Duration) time.Duration { return ceil(l) + time.Hour }, ""},
			{"starts 1s after the timestamp", time.Second, func(l time.Duration) time.Duration { return ceil(l) + time.Hour }, "reject"},
			{"ends 1s before the first whole second >= end of life", -time.Hour, func(l time.Duration) time.Duration { return ceil(l) - time.Second }, "reject"},
			{"ends one expiry unit early", -time.Hour, func(l time.Duration) time.Duration { return l - c24Unit }, "reject"},
		}
		boundary := map[string]int{}
		for _, exp := range []uint8{0, 1, 2, 63, 254, 255} {
			life := time.Duration(int(exp)+1) * c24Unit
			for wi, w := range windows {
				if budget.Load() {
					return
				}
				want := w.want
				na := w.na(life)
				if na == life && want == "accept" {
					want = "" // the window ends exactly at the end of life: boundary instant
				}
				if ts.Add(na).Before(now.Add(time.Second)) {
					continue // certificate would not be valid at verification time: another property's business
				}
				v := cppki.Validity{NotBefore: ts.Add(w.nb), NotAfter: ts.Add(na)}
				c := c24MakeCred(isd1, isd1.ca, creds[1].ia, fmt.Sprintf("win-%d-%d", exp, wi), v, elliptic.P256())
				for _, where := range []string{"db", "remote"} {
					for n := 1; n <= 2; n++ { // windowed certificate signs the last entry of a 1- and 2-entry segment
						es := chainOf(2, exp, -1)[:n]
						if n == 1 {
							es[0] = c24Honest(&c, 0, 0, 0, exp, 0)
							es[0].local = c.ia
						} else {
							es[1] = c24Honest(&c, 0, 11, 0, exp, 0)
						}
						if n == 1 {
							// single-entry segment of AS creds[1].ia
						} else {
							es[0].next = c.ia
						}
						ps := c24RefBuild(c24Info(ts, 0x3000), es, now)
						st, err := c24NewStore(isds, creds[0].chain())
						if err != nil {
							r.HarnessError("trust db: %v", err)
							return
						}
						if where == "db" {
							st.db.InsertChain(context.Background(), c.chain())
						} else {
							st.fetcher.answer = [][]*x509.Certificate{c.chain()}
						}
						what := zn + fmt.Sprintf("exp=%d (life %v) n=%d chain in %s, certificate [ts%+v, ts+%v]: %s", exp, life, n, where, w.nb, na, w.what)
						if want == "" {
							got, _ := c24Check(st.verifier(nil), ps, false)
							r.CaseBulk(1, 1)
							boundary[got]++
							r.Outcome("validity-boundary:" + got)
						} else {
							expect("validity", want, "certificate-window-"+map[string]string{"accept": "covering-rejected", "reject": "not-covering-accepted"}[want],
								what, st.verifier(nil), ps, false)
						}
						st.db.Close()
					}
				}
			}
		}
		r.Extra["boundary_instant_verdicts "+zone.name] = boundary

		// ---------- Part C2: hop expiries that differ within one segment ----------
		// Every expiry vector over {0,63,255} for 2- and 3-entry segments x every entry position as the one whose signer has
		// a bounded certificate x windows placed relative to that entry's OWN lifetime and to the shortest / longest lifetime
		// of the segment. The entry must verify iff the certificate covers its own hop field's lifetime, whatever the other
		// entries' (or its peer entries') expiries are. Both signing styles for the honest part (reference signer here).
		{
			expAlphabet := []uint8{0, 63, 255}
			lifeOf := func(e uint8) time.Duration { return time.Duration(int(e)+1) * c24Unit }
			type wkey struct {
				pos int
				na  time.Duration
			}
			wcreds := map[wkey]*c24Cred{}
			var c2Chains [][]*x509.Certificate
			c2Chains = append(c2Chains, allChains...)
			credFor := func(pos int, na time.Duration) *c24Cred {
				k := wkey{pos, na}
				if c, ok := wcreds[k]; ok {
					return c
				}
				isd := isd1
				if creds[pos].ia.ISD() == 2 {
					isd = isd2
				}
				c := c24MakeCred(isd, isd.ca, creds[pos].ia, fmt.Sprintf("mixed-%d-%d", pos, na/time.Second),
					cppki.Validity{NotBefore: ts.Add(-time.Hour), NotAfter: ts.Add(na)}, elliptic.P256())
				wcreds[k] = &c
				c2Chains = append(c2Chains, c.chain())
				return &c
			}
			type c2case struct {
				what string
				es   []c24Entry
				want string
			}
			var c2 []c2case
			for n := 2; n <= 3; n++ {
				nvec := 1
				for i := 0; i < n; i++ {
					nvec *= len(expAlphabet)
				}
				for v := 0; v < nvec; v++ {
					exps := make([]uint8, n)
					minLife, maxLife := time.Duration(1<<62), time.Duration(0)
					for i, x := 0, v; i < n; i, x = i+1, x/len(expAlphabet) {
						exps[i] = expAlphabet[x%len(expAlphabet)]
						if l := lifeOf(exps[i]); l < minLife {
							minLife = l
						}
						if l := lifeOf(exps[i]); l > maxLife {
							maxLife = l
						}
					}
					for pos := 0; pos < n; pos++ {
						own := lifeOf(exps[pos])
						wins := []struct {
							what string
							na   time.Duration
						}{
							{"ends 1s after this entry's own end of life", ceil(own) + time.Second},
							{"ends 1s before the first whole second >= this entry's own end of life", ceil(own) - time.Second},
							{"ends 1s after the SHORTEST hop lifetime of the segment", ceil(minLife) + time.Second},
							{"ends 1s after the LONGEST hop lifetime of the segment", ceil(maxLife) + time.Second},
						}
						for _, w := range wins {
							es := chainOf(n, 63, -1)
							for i := range es {
								es[i].exp = exps[i]
							}
							c := credFor(pos, w.na)
							h := c24Honest(c, es[pos].next, es[pos].ingress, es[pos].egress, exps[pos], 0)
							es[pos] = h
							want := "reject"
							if w.na >= own {
								want = "accept"
							}
							c2 = append(c2, c2case{fmt.Sprintf("expiries %v, entry %d signed with a certificate that %s (NotAfter ts+%v, own lifetime %v)",
								exps, pos, w.what, w.na, own), es, want})
						}
					}
				}
			}
			// peer hop fields of the same entry with another expiry than the hop field
			u8 := func(v uint8) *uint8 { return &v }
			for _, pc := range []struct {
				hop, peer uint8
				cover     string
			}{{255, 0, "peer"}, {255, 0, "hop"}, {0, 255, "hop"}, {0, 255, "peer"}} {
				es := chainOf(2, 63, -1)
				na := ceil(lifeOf(pc.hop)) + time.Second
				if pc.cover == "peer" {
					na = ceil(lifeOf(pc.peer)) + time.Second
				}
				c := credFor(1, na)
				es[1] = c24Honest(c, 0, es[1].ingress, 0, pc.hop, 2)
				es[1].peerExp = u8(pc.peer)
				want := "reject"
				if na >= lifeOf(pc.hop) {
					want = "accept"
				}
				if pc.hop == 0 && pc.peer == 255 && pc.cover == "hop" {
					want = "" // the hop field is covered, the longer-lived peer hop fields are not: not decided by the statement
				}
				c2 = append(c2, c2case{fmt.Sprintf("last entry hop ExpTime %d with peer hop fields ExpTime %d, certificate covers the %s lifetime only", pc.hop, pc.peer, pc.cover), es, want})
			}
			st, err := c24NewStore(isds, c2Chains...)
			if err != nil {
				r.HarnessError("trust db: %v", err)
				return
			}
			v2 := st.verifier(nil)
			mc.ParallelFor(len(c2), func(i int) {
				if budget.Load() {
					return
				}
				c := c2[i]
				ps := c24RefBuild(c24Info(ts, 0x3100), c.es, now)
				if c.want == "" {
					got, _ := c24Check(v2, ps, false)
					r.CaseBulk(1, 1)
					r.Outcome("mixed-expiry-peer-unspecified:" + got)
					return
				}
				key := "mixed-expiry-own-lifetime-not-covered-accepted"
				if c.want == "accept" {
					key = "mixed-expiry-covering-certificate-rejected"
				}
				expect("mixed-expiry", c.want, key, zn+c.what, v2, ps, false)
			})
			// the same honest mixed-expiry segments through the real AddASEntry + trust.Signer (all certificates wide)
			for _, exps := range [][]uint8{{0, 255}, {255, 0}, {0, 63, 255}, {255, 63, 0}, {63, 0, 255}} {
				es := chainOf(len(exps), 63, 1)
				for i := range es {
					es[i].exp = exps[i]
				}
				ps, err := c24RealBuild(ts, 0x3200, es)
				if err != nil {
					r.HarnessError("real mixed-expiry segment: %v", err)
					continue
				}
				expect("mixed-expiry-real", "accept", "honest-segment-rejected", zn+fmt.Sprintf("real-signed, expiries %v", exps), v2, ps, false)
			}
			st.db.Close()
			r.Extra["mixed_expiry_cases"] = len(c2)
		}
	}
	time.Local = origLocal

	// ---------- Part D: chain only available from a remote server ----------
	{
		victim, attacker := creds[0], creds[1]
		honest := c24RefBuild(c24Info(ts, 0x4000), chainOf(1, 63, -1), now)
		forged := func(c *c24Cred, claimSKID []byte) *cppb.PathSegment {
			es := chainOf(1, 63, -1)
			es[0].key, es[0].alg, es[0].claimIA, es[0].claimSKID = c.cert.Key, c.alg, victim.ia, claimSKID
			return c24RefBuild(c24Info(ts, 0x4000), es, now)
		}
		short := c24MakeCred(isd1, isd1.ca, victim.ia, "short-lived", cppki.Validity{NotBefore: now.Add(-time.Hour), NotAfter: now.Add(time.Hour)}, elliptic.P256())
		cases := []struct {
			what   string
			ps     *cppb.PathSegment
			answer [][]*x509.Certificate
			want   string
		}{
			{"honest entry, server returns the right chain", honest, [][]*x509.Certificate{victim.chain()}, "accept"},
			{"honest entry, server returns nothing", honest, nil, "reject"},
			{"honest entry, server returns the right chain and an unrelated one", honest, [][]*x509.Certificate{victim.chain(), attacker.chain()}, "reject"},
			{"entry signed by the attacker AS naming its own subject key id, server returns the attacker's (genuine) chain",
				forged(attacker, attacker.cert.X.SubjectKeyId), [][]*x509.Certificate{attacker.chain()}, "reject"},
			{"entry signed by the attacker AS naming the victim's subject key id, server returns the attacker's chain",
				forged(attacker, victim.cert.X.SubjectKeyId), [][]*x509.Certificate{attacker.chain()}, "reject"},
			{"entry signed with a certificate under a foreign root, server returns that chain",
				forged(&rogue, rogue.cert.X.SubjectKeyId), [][]*x509.Certificate{rogue.chain()}, "reject"},
			{"entry signed with a short-lived certificate not covering the hop lifetime, server returns that chain",
				forged(&short, short.cert.X.SubjectKeyId), [][]*x509.Certificate{short.chain()}, "reject"},
			{"entry signed with the same AS number of another ISD, server returns that chain",
				forged(&twin, twin.cert.X.SubjectKeyId), [][]*x509.Certificate{twin.chain()}, "reject"},
		}
		for _, c := range cases {
			st, err := c24NewStore(isds)
			if err != nil {
				r.HarnessError("trust db: %v", err)
				return
			}
			st.fetcher.answer = c.answer
			// "right chain and an unrelated one": the real fetcher refuses the whole answer; either verdict is
			// compatible with the statement as long as nothing forged is accepted -> only demand no panic.
			if c.what == "honest entry, server returns the right chain and an unrelated one" {
				got, _ := c24Check(st.verifier(nil), c.ps, false)
				r.CaseBulk(1, 1)
				r.Outcome("remote-mixed-answer:" + got)
			} else {
				expect("remote", c.want, "remote-chain-"+map[string]string{"accept": "honest-rejected", "reject": "forged-accepted"}[c.want], c.what, st.verifier(nil), c.ps, false)
			}
			st.db.Close()
		}
	}

	// ---------- Part E: verifier with the chain cache (as configured by the control service and the daemon) ----------
	// Histories of two verifications with one cache: the verdict on the second segment must be what it is without
	// history (the statement does not make verification depend on earlier verifications).
	{
		victim := creds[1]
		short := c24MakeCred(isd1, isd1.ca, victim.ia, "cache-short", cppki.Validity{NotBefore: now.Add(-30 * time.Second), NotAfter: now.Add(time.Hour)}, elliptic.P256())
		mk := func(c *c24Cred, tstamp time.Time, exp uint8) *cppb.PathSegment {
			e := c24Honest(c, 0, 0, 0, exp, 0)
			return c24RefBuild(c24Info(tstamp, 0x5000), []c24Entry{e}, now)
		}
		tsIn := now.Add(-10 * time.Second).Truncate(time.Second)
		segs := []struct {
			what string
			ps   *cppb.PathSegment
			want string
		}{
			{"short-lived cert, hop expiry inside the certificate window", mk(&short, tsIn, 0), "accept"},
			{"short-lived cert, hop lifetime (24h) outlives the certificate", mk(&short, tsIn, 255), "reject"},
			{"short-lived cert, segment timestamp before the certificate's NotBefore", mk(&short, ts, 0), "reject"},
			{"long-lived cert of the same AS", mk(victim, ts, 255), "accept"},
		}
		// history element that is not a segment: an ordinary signed control-plane message of the same key, verified with
		// the same cached verifier without any bound validity (as RPC signatures are)
		plain := c24RefBuild(nil, []c24Entry{func() c24Entry { e := c24Honest(&short, 0, 0, 0, 0, 0); e.omitInfo = true; return e }()}, now).AsEntries[0].Signed
		for j := range segs {
			st, err := c24NewStore(isds, victim.chain(), short.chain())
			if err != nil {
				r.HarnessError("trust db: %v", err)
				return
			}
			v := st.verifier(cache.New(time.Minute, 0))
			if _, err := v.Verifier.Verify(context.Background(), plain); err != nil {
				r.HarnessError("plain message did not verify: %v", err)
			}
			expect("cached-second", segs[j].want, "cached-verifier-ignores-validity",
				"cached verifier, after verifying an ordinary signed message of the same key: "+segs[j].what, v, segs[j].ps, false)
			st.db.Close()
		}
		for i := range segs {
			for j := range segs {
				st, err := c24NewStore(isds, victim.chain(), short.chain())
				if err != nil {
					r.HarnessError("trust db: %v", err)
					return
				}
				v := st.verifier(cache.New(time.Minute, 0))
				expect("cached-first", segs[i].want, "cached-verifier-first-verdict-wrong", "cached verifier, first: "+segs[i].what, v, segs[i].ps, false)
				expect("cached-second", segs[j].want, "cached-verifier-ignores-validity",
					fmt.Sprintf("cached verifier, after verifying [%s]: %s", segs[i].what, segs[j].what), v, segs[j].ps, false)
				st.db.Close()
			}
		}
	}
	// ---------- Part F: cached verifier, histories ACROSS ASes and claimed identities ----------
	// One verifier with the chain cache; first a warm-up that makes it look up (and cache) the chains of honest ASes,
	// then every signer-identity case of part B (n <= 2). The second verdict must be the history-free one: chains cached
	// for one ISD-AS / subject key id must never serve a query for another identity.
	{
		var plains []*cryptopb.SignedMessage
		for _, c := range append(append([]*c24Cred{}, creds[:3]...), &twin) {
			e := c24Honest(c, 0, 0, 0, 0, 0)
			e.omitInfo = true
			plains = append(plains, c24RefBuild(nil, []c24Entry{e}, now).AsEntries[0].Signed)
		}
		warmups := []struct {
			what string
			run  func(v compat.Verifier) error
		}{
			{"honest 3-entry segment of ASes 0,1,2", func(v compat.Verifier) error {
				got, err := c24Check(v, c24RefBuild(c24Info(ts, 0x6000), chainOf(3, 63, -1), now), false)
				if got != "accept" {
					return fmt.Errorf("warm-up segment: %s %v", got, err)
				}
				return nil
			}},
			{"ordinary signed messages of ASes 0,1,2 and of the same AS number in the other ISD", func(v compat.Verifier) error {
				for _, m := range plains {
					if _, err := v.Verifier.Verify(context.Background(), m); err != nil {
						return err
					}
				}
				return nil
			}},
			{"real-signed 2-entry segment, then the messages", func(v compat.Verifier) error {
				ps, err := c24RealBuild(ts, 0x6001, chainOf(2, 63, -1))
				if err != nil {
					return err
				}
				if got, err := c24Check(v, ps, false); got != "accept" {
					return fmt.Errorf("warm-up segment: %s %v", got, err)
				}
				for _, m := range plains {
					if _, err := v.Verifier.Verify(context.Background(), m); err != nil {
						return err
					}
				}
				return nil
			}},
		}
		for _, w := range warmups {
			for _, ic := range identCases {
				if budget.Load() {
					return
				}
				v := store.verifier(cache.New(time.Minute, 0))
				if err := w.run(v); err != nil {
					r.Violation("cached-verifier-warm-up-rejected", map[string]any{"warm-up": w.what, "error": err.Error()})
					continue
				}
				expect("cached-cross-identity", ic.want, "cached-verifier-serves-chain-for-other-identity",
					fmt.Sprintf("cached verifier, after [%s]: %s", w.what, ic.what), v, ic.ps, false)
			}
		}
		r.Extra["cached_cross_identity_histories"] = len(warmups) * len(identCases)
	}
	// ---------- Part G: the asynchronous unit path (StartVerification / Unit.Verify) under cancellation ----------
	// The segment handler verifies through units whose result is read with UnitResult.SegError(). Every entry
	// verification takes 10 ms of bubble time (a verifier that has to wait for trust material); the context is
	// cancelled before the call, has a deadline in the middle of the k-th of n entry verifications (k = 0..n-1), after
	// all of them, or none. Oracle: a unit reported without segment error must have completed a successful
	// verification of every entry, and must never be an invalid segment; without cancellation the verdict is the
	// history-free one.
	{
		const step = 10 * time.Millisecond
		forgedAt := func(n, pos int) *cppb.PathSegment {
			es := chainOf(n, 63, -1)
			forger := creds[(pos+1)%3] // never the AS itself
			es[pos].key, es[pos].alg, es[pos].claimIA, es[pos].claimSKID = forger.cert.Key, forger.alg, creds[pos].ia, creds[pos].cert.X.SubjectKeyId
			return c24RefBuild(c24Info(ts, 0x7000), es, now)
		}
		type unitSeg struct {
			what  string
			ps    *cppb.PathSegment
			valid bool
		}
		var usegs []unitSeg
		for _, n := range []int{1, 3} {
			usegs = append(usegs, unitSeg{fmt.Sprintf("honest %d-entry segment", n), c24RefBuild(c24Info(ts, 0x7000), chainOf(n, 63, -1), now), true})
			for pos := 0; pos < n; pos++ {
				usegs = append(usegs, unitSeg{fmt.Sprintf("%d-entry segment, entry %d signed with another AS's key", n, pos), forgedAt(n, pos), false})
			}
		}
		unitCases := 0
		for _, us := range usegs {
			n := len(us.ps.AsEntries)
			type cancel struct {
				what     string
				pre      bool
				deadline time.Duration // 0 = none
			}
			cancels := []cancel{{"never cancelled", false, 0}, {"cancelled before the call", true, 0}}
			for k := 0; k <= n; k++ {
				cancels = append(cancels, cancel{fmt.Sprintf("deadline during entry verification %d of %d", k+1, n), false, time.Duration(k)*step + step/2})
			}
			cancels[len(cancels)-1].what = "deadline after all entry verifications"
			for _, cn := range cancels {
				for _, honourCtx := range []bool{false, true} {
					for _, api := range []string{"StartVerification", "Unit.Verify"} {
						if budget.Load() {
							return
						}
						parsed, err := seg.SegmentFromPB(c24ClonePB(us.ps))
						if err != nil {
							r.HarnessError("unit segment does not parse: %v", err)
							return
						}
						ctx, cancelFn := context.WithCancel(context.Background())
						if cn.deadline > 0 {
							ctx, cancelFn = context.WithTimeout(context.Background(), cn.deadline)
						}
						if cn.pre {
							cancelFn()
						}
						st := &c24SlowState{}
						sv := c24SlowVerifier{inner: store.verifier(nil), step: step, honourCtx: honourCtx, st: st}
						var res segverifier.UnitResult
						p := mc.Safely(func() {
							if api == "StartVerification" {
								ch, cnt := segverifier.StartVerification(ctx, sv, c24Server, []*seg.Meta{{Segment: parsed, Type: seg.TypeDown}})
								if cnt != 1 {
									r.HarnessError("StartVerification announced %d units", cnt)
								}
								res = <-ch
							} else {
								ch := make(chan segverifier.UnitResult, 1)
								(&segverifier.Unit{SegMeta: &seg.Meta{Segment: parsed, Type: seg.TypeDown}}).Verify(ctx, sv, c24Server, ch)
								res = <-ch
							}
						})
						okAtReport := st.ok.Load()
						callsAtReport := st.calls.Load()
						cancelFn()
						time.Sleep(time.Second) // let a verification goroutine that is still running finish (bubble time)
						synctest.Wait()
						r.CaseBulk(1, 1)
						unitCases++
						what := fmt.Sprintf("%s via %s, %s, slow verifier %s the context while waiting", us.what, api, cn.what,
							map[bool]string{true: "honours", false: "ignores"}[honourCtx])
						if p != nil {
							viol("panic", map[string]any{"case": what, "panic": fmt.Sprint(p)})
							continue
						}
						serr := res.SegError()
						switch {
						case serr == nil && !us.valid:
							viol("unit-invalid-segment-reported-verified", map[string]any{"case": what, "errors_map": fmt.Sprint(res.Errors),
								"entry_verifications_started": callsAtReport, "succeeded": okAtReport})
						case serr == nil && okAtReport < int64(n):
							viol("unit-reported-verified-before-verification-completed", map[string]any{"case": what, "errors_map": fmt.Sprint(res.Errors),
								"entry_verifications_succeeded_when_reported": okAtReport, "entries": n})
						case serr != nil && us.valid && !cn.pre && cn.deadline == 0:
							viol("unit-honest-segment-rejected", map[string]any{"case": what, "error": serr.Error()})
						case serr == nil:
							r.Outcome("unit:verified")
						case us.valid:
							r.Outcome("unit:honest-segment-not-verified-because-cancelled")
						default:
							r.Outcome("unit:error")
						}
					}
				}
			}
		}
		r.Extra["unit_cancellation_cases"] = unitCases
	}
	r.Extra["max_entries"] = maxN
	r.Extra["byte_masks"] = fmt.Sprintf("%x", masks)
	r.Assumptions = []string{
		"a certificate whose window starts exactly at the segment timestamp or ends exactly at timestamp+lifetime is a boundary instant: either verdict is accepted and only recorded",
		"certificates that are not valid at verification time (now) are not part of this alphabet (chain/TRC activity is C34/C36)",
		"a mutant refused by the wire parser (SegmentFromPB incl. Validate) counts as rejected; it is additionally verified entry by entry without Validate and must fail there too whenever its entries are parsable",
		"the remote trust-material server is modelled by a stub fetcher that applies the real CheckChainsMatchQuery exactly like private/trust/grpc.Fetcher",
		"unsigned extensions are outside the signed content and are not mutated",
	}
}

// c24Twin returns the DER encoding of (r, n-s) for the DER signature (r, s).
func c24Twin(sig []byte, key *ecdsa.PrivateKey) ([]byte, error) {
	var v struct{ R, S *big.Int }
	if _, err := asn1.Unmarshal(sig, &v); err != nil {
		return nil, err
	}
	v.S = new(big.Int).Sub(key.Curve.Params().N, v.S)
	return asn1.Marshal(v)
}

// c24SlowVerifier wraps the real verifier: every Verify call first waits `step` of (bubble) time, as a verifier that
// has to fetch trust material would; it either ignores the context while waiting or gives up with ctx.Err().
type c24SlowState struct {
	calls, ok atomic.Int64
}

type c24SlowVerifier struct {
	inner     infra.Verifier
	step      time.Duration
	honourCtx bool
	st        *c24SlowState
}

func (v c24SlowVerifier) Verify(ctx context.Context, m *cryptopb.SignedMessage, ad ...[]byte) (*signed.Message, error) {
	v.st.calls.Add(1)
	if v.honourCtx {
		t := time.NewTimer(v.step)
		defer t.Stop()
		select {
		case <-t.C:
		case <-ctx.Done():
			return nil, ctx.Err()
		}
	} else {
		time.Sleep(v.step)
	}
	msg, err := v.inner.Verify(ctx, m, ad...)
	if err == nil {
		v.st.ok.Add(1)
	}
	return msg, err
}

func (v c24SlowVerifier) WithServer(a net.Addr) infra.Verifier {
	v.inner = v.inner.WithServer(a)
	return v
}

func (v c24SlowVerifier) WithIA(ia addr.IA) infra.Verifier {
	v.inner = v.inner.WithIA(ia)
	return v
}

func (v c24SlowVerifier) WithValidity(val cppki.Validity) infra.Verifier {
	v.inner = v.inner.WithValidity(val)
	return v
}

func c24Dump(ps *cppb.PathSegment) string {
	s := fmt.Sprintf("info=%x", ps.SegmentInfo)
	for i, e := range ps.AsEntries {
		hb, sg := e.Signed.HeaderAndBody, e.Signed.Signature
		if len(hb) > 24 {
			hb = hb[:24]
		}
		if len(sg) > 8 {
			sg = sg[:8]
		}
		s += fmt.Sprintf(" [%d hb=%x.. sig=%x..]", i, hb, sg)
	}
	if len(s) > 700 {
		s = s[:700] + "…"
	}
	return s
}
