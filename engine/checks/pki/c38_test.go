package pki

import (
	"bytes"
	"crypto"
	"crypto/ecdsa"
	"crypto/ed25519"
	"crypto/elliptic"
	"crypto/rand"
	"crypto/rsa"
	"crypto/sha256"
	"crypto/sha512"
	"encoding/asn1"
	"fmt"
	"hash"
	"math/big"
	"sync/atomic"
	"testing"
	"time"

	cryptopb "github.com/scionproto/scion/pkg/proto/crypto"
	"github.com/scionproto/scion/pkg/scrypto/signed"

	"verif/mc"
)

// C38: signed control-plane messages verify only when untouched.
//
// Reference model (written from proto/crypto/v1/signed.proto and the property statement, not from msg.go):
//   SignedMessage.header_and_body = protobuf HeaderAndBody{1: header bytes, 2: body}
//   header bytes                  = protobuf Header{1: algorithm, 2: key id, 3: Timestamp, 4: metadata, 5: AD length}
//   signature                     = ECDSA-ASN.1 over H_alg(header_and_body || ad_1 || ... || ad_n)
// The check encodes/decodes these by hand (own varint code) and uses crypto/ecdsa directly.

// ---- clean-room protobuf helpers ----

func c38Varint(b []byte, v uint64) []byte {
	for v >= 0x80 {
		b = append(b, byte(v)|0x80)
		v >>= 7
	}
	return append(b, byte(v))
}

func c38Bytes(b []byte, field int, v []byte) []byte {
	b = c38Varint(b, uint64(field<<3|2))
	b = c38Varint(b, uint64(len(v)))
	return append(b, v...)
}

func c38Int(b []byte, field int, v int64) []byte {
	b = c38Varint(b, uint64(field<<3|0))
	return c38Varint(b, uint64(v))
}

// c38Hdr is the reference representation of a header.
type c38Hdr struct {
	alg    int64
	keyID  []byte
	hasTS  bool
	sec    int64
	nanos  int64
	meta   []byte
	adLen  int64
	suffix []byte // raw bytes appended to the encoded header (unknown fields etc.)
}

func (h c38Hdr) encode() []byte {
	var b []byte
	if h.alg != 0 {
		b = c38Int(b, 1, h.alg)
	}
	if len(h.keyID) > 0 {
		b = c38Bytes(b, 2, h.keyID)
	}
	if h.hasTS {
		var ts []byte
		if h.sec != 0 {
			ts = c38Int(ts, 1, h.sec)
		}
		if h.nanos != 0 {
			ts = c38Int(ts, 2, h.nanos)
		}
		b = c38Bytes(b, 3, ts)
	}
	if len(h.meta) > 0 {
		b = c38Bytes(b, 4, h.meta)
	}
	if h.adLen != 0 {
		b = c38Int(b, 5, h.adLen)
	}
	return append(b, h.suffix...)
}

func c38EncodeHB(hdr, body []byte) []byte {
	var b []byte
	if len(hdr) > 0 {
		b = c38Bytes(b, 1, hdr)
	}
	if len(body) > 0 {
		b = c38Bytes(b, 2, body)
	}
	return b
}

type c38Field struct {
	num  int
	wt   int
	v    uint64
	data []byte
}

// c38Parse parses a protobuf message consisting of varint and length-delimited fields only.
func c38Parse(b []byte) ([]c38Field, error) {
	var out []c38Field
	rd := func() (uint64, error) {
		var v uint64
		for s := uint(0); s < 70; s += 7 {
			if len(b) == 0 {
				return 0, fmt.Errorf("truncated varint")
			}
			c := b[0]
			b = b[1:]
			v |= uint64(c&0x7f) << s
			if c < 0x80 {
				return v, nil
			}
		}
		return 0, fmt.Errorf("varint too long")
	}
	for len(b) > 0 {
		tag, err := rd()
		if err != nil {
			return nil, err
		}
		f := c38Field{num: int(tag >> 3), wt: int(tag & 7)}
		switch f.wt {
		case 0:
			if f.v, err = rd(); err != nil {
				return nil, err
			}
		case 2:
			l, err := rd()
			if err != nil {
				return nil, err
			}
			if l > uint64(len(b)) {
				return nil, fmt.Errorf("truncated bytes field")
			}
			f.data = b[:l]
			b = b[l:]
		default:
			return nil, fmt.Errorf("unexpected wire type %d", f.wt)
		}
		out = append(out, f)
	}
	return out, nil
}

// c38DecodeHB decodes header_and_body into the reference header representation and the body.
func c38DecodeHB(hb []byte) (c38Hdr, []byte, error) {
	var h c38Hdr
	var rawHdr, body []byte
	fs, err := c38Parse(hb)
	if err != nil {
		return h, nil, err
	}
	for _, f := range fs {
		switch {
		case f.num == 1 && f.wt == 2:
			rawHdr = f.data
		case f.num == 2 && f.wt == 2:
			body = f.data
		default:
			return h, nil, fmt.Errorf("unexpected field %d/%d in HeaderAndBody", f.num, f.wt)
		}
	}
	hf, err := c38Parse(rawHdr)
	if err != nil {
		return h, nil, err
	}
	for _, f := range hf {
		switch {
		case f.num == 1 && f.wt == 0:
			h.alg = int64(f.v)
		case f.num == 2 && f.wt == 2:
			h.keyID = f.data
		case f.num == 3 && f.wt == 2:
			h.hasTS = true
			tf, err := c38Parse(f.data)
			if err != nil {
				return h, nil, err
			}
			for _, t := range tf {
				switch {
				case t.num == 1 && t.wt == 0:
					h.sec = int64(t.v)
				case t.num == 2 && t.wt == 0:
					h.nanos = int64(int32(t.v))
				default:
					return h, nil, fmt.Errorf("unexpected field in Timestamp")
				}
			}
		case f.num == 4 && f.wt == 2:
			h.meta = f.data
		case f.num == 5 && f.wt == 0:
			h.adLen = int64(int32(f.v))
		default:
			return h, nil, fmt.Errorf("unexpected field %d/%d in Header", f.num, f.wt)
		}
	}
	return h, body, nil
}

func c38Hash(alg int64) hash.Hash {
	switch alg {
	case 1:
		return sha256.New()
	case 2:
		return sha512.New384()
	case 3:
		return sha512.New()
	}
	return nil
}

// c38Digest is the reference signature input.
func c38Digest(alg int64, hb []byte, ad [][]byte) []byte {
	h := c38Hash(alg)
	h.Write(hb)
	for _, d := range ad {
		h.Write(d)
	}
	return h.Sum(nil)
}

func c38Concat(ad [][]byte) []byte {
	var out []byte
	for _, d := range ad {
		out = append(out, d...)
	}
	return out
}

// ---- alphabet ----

type c38Key struct {
	name string
	priv *ecdsa.PrivateKey
}

func c38MakeKey(curve elliptic.Curve, name string, seed byte) c38Key {
	n := (curve.Params().BitSize + 7) / 8
	d := make([]byte, n)
	for i := range d {
		d[i] = seed + byte(i*29)
	}
	d[0] = 0 // keep the scalar below the group order
	d[1] &= 0x7f
	k, err := ecdsa.ParseRawPrivateKey(curve, d)
	if err != nil {
		panic(fmt.Sprintf("c38 key %s: %v", name, err))
	}
	return c38Key{name, k}
}

type c38Header struct {
	name string
	h    signed.Header // SignatureAlgorithm and AssociatedDataLength are filled per case
}

func c38Pattern(n int, mul, add byte) []byte {
	if n == 0 {
		return nil
	}
	b := make([]byte, n)
	for i := range b {
		b[i] = byte(i)*mul + add
	}
	return b
}

func c38Headers() []c38Header {
	hs := []c38Header{
		{"bare", signed.Header{}},
		{"meta1", signed.Header{Metadata: []byte{0x6d}}},
		{"all", signed.Header{VerificationKeyID: c38Pattern(8, 3, 0x41), Metadata: c38Pattern(16, 5, 0x80),
			Timestamp: time.Unix(1624000000, 123456789).UTC()}},
		{"epoch-ts", signed.Header{VerificationKeyID: []byte{0}, Timestamp: time.Unix(0, 0).UTC()}},
	}
	if mc.Thorough() {
		hs = append(hs,
			c38Header{"pre-epoch-ts", signed.Header{Timestamp: time.Unix(-300000000, 999999999).UTC(), Metadata: []byte("x")}},
			c38Header{"meta130", signed.Header{Metadata: c38Pattern(130, 7, 1)}},
			c38Header{"y9999-ts", signed.Header{Timestamp: time.Date(9999, 12, 31, 23, 59, 59, 1, time.UTC),
				VerificationKeyID: c38Pattern(20, 11, 2)}},
			c38Header{"zoned-ts", signed.Header{Timestamp: time.Date(2024, 2, 29, 12, 0, 0, 500, time.FixedZone("x", 3600*5)),
				VerificationKeyID: c38Pattern(3, 1, 0xf0), Metadata: c38Pattern(2, 1, 0xfe)}},
		)
	}
	return hs
}

func c38ADs() [][][]byte {
	ads := [][][]byte{
		nil,
		{[]byte("A")},
		{[]byte("abc"), []byte("de")},
		{{}, []byte("wxyz"), []byte("q")},
	}
	protoShaped := [][][]byte{
		// associated data whose bytes happen to be well-formed protobuf fields of HeaderAndBody: field 2 (body) again,
		// an unknown varint field followed by an empty body field. Moving such bytes across the boundary between
		// header_and_body and the associated data keeps the envelope parsable.
		{{0x12, 0x04, 'e', 'v', 'i', 'l'}, []byte("tail")},
		{{0x78, 0x01, 0x12, 0x00}},
	}
	if !mc.Thorough() {
		return append(ads, protoShaped...)
	}
	if mc.Thorough() {
		ads = append(ads,
			[][]byte{c38Pattern(8, 3, 1), c38Pattern(8, 5, 2), c38Pattern(8, 7, 3)},
			[][]byte{[]byte("aa"), []byte("aa")},
			[][]byte{c38Pattern(140, 9, 4)},
		)
	}
	ads = append(ads, protoShaped...)
	return ads
}

func c38BodyLens() []int {
	if mc.Thorough() {
		ls := []int{}
		for i := 0; i <= 32; i++ {
			ls = append(ls, i)
		}
		return append(ls, 130)
	}
	return []int{0, 1, 2, 17, 32}
}

// ---- the check ----

type c38Base struct {
	key  int
	alg  signed.SignatureAlgorithm
	hdr  int
	blen int
	ad   int
}

func c38SameHeader(got signed.Header, want signed.Header) string {
	if got.SignatureAlgorithm != want.SignatureAlgorithm {
		return fmt.Sprintf("algorithm %v != %v", got.SignatureAlgorithm, want.SignatureAlgorithm)
	}
	if !bytes.Equal(got.VerificationKeyID, want.VerificationKeyID) {
		return fmt.Sprintf("key id %x != %x", got.VerificationKeyID, want.VerificationKeyID)
	}
	if !bytes.Equal(got.Metadata, want.Metadata) {
		return fmt.Sprintf("metadata %x != %x", got.Metadata, want.Metadata)
	}
	if got.AssociatedDataLength != want.AssociatedDataLength {
		return fmt.Sprintf("AD length %d != %d", got.AssociatedDataLength, want.AssociatedDataLength)
	}
	if got.Timestamp.IsZero() != want.Timestamp.IsZero() || !got.Timestamp.Equal(want.Timestamp) {
		return fmt.Sprintf("timestamp %v != %v", got.Timestamp, want.Timestamp)
	}
	return ""
}

func c38RefHdr(h signed.Header) c38Hdr {
	r := c38Hdr{alg: int64(h.SignatureAlgorithm), keyID: h.VerificationKeyID, meta: h.Metadata,
		adLen: int64(h.AssociatedDataLength)}
	if !h.Timestamp.IsZero() {
		r.hasTS = true
		r.sec = h.Timestamp.Unix()
		r.nanos = int64(h.Timestamp.Nanosecond())
	}
	return r
}

func TestC38(t *testing.T) {
	r := mc.NewRun(t, "C38", mc.Exploration)
	r.Rule = "base messages = keys {P-256,P-384,P-521} x algorithms {SHA256,SHA384,SHA512} x header shapes x body lengths x " +
		"associated-data lists, each signed by the real Sign and by a clean-room reference signer; per base message every " +
		"single mutation of the alphabet (each byte of HeaderAndBody and Signature under each mask, truncations/extensions, " +
		"re-encoded header/body field edits, non-canonical re-encodings, AD byte/part edits, every shift of the header_and_body / AD boundary (incl. protobuf-shaped AD), every other key, inconsistent " +
		"algorithms/key types) and every split of the same AD concatenation; one case = one Verify/Sign call judged by the " +
		"oracle; a mutant is non-trivial iff its (message bytes, key, AD concatenation) differs from the signed one"

	keys := []c38Key{
		c38MakeKey(elliptic.P256(), "p256-a", 0x11), c38MakeKey(elliptic.P384(), "p384-a", 0x22),
		c38MakeKey(elliptic.P521(), "p521-a", 0x33),
		c38MakeKey(elliptic.P256(), "p256-b", 0x44), c38MakeKey(elliptic.P384(), "p384-b", 0x55),
		c38MakeKey(elliptic.P521(), "p521-b", 0x66),
	}
	edPub, edPriv, _ := ed25519.GenerateKey(bytes.NewReader(bytes.Repeat([]byte{7}, 64)))
	rsaKey, rsaErr := rsa.GenerateKey(rand.Reader, 2048)
	if rsaErr != nil {
		t.Fatalf("HARNESS-ERROR rsa key: %v", rsaErr)
	}
	headers := c38Headers()
	ads := c38ADs()
	blens := c38BodyLens()
	algs := []signed.SignatureAlgorithm{signed.ECDSAWithSHA256, signed.ECDSAWithSHA384, signed.ECDSAWithSHA512}
	// thorough: all 8 single-bit masks with the P-256 key (parsing of the envelope does not depend on the curve; P-384/521
	// verifications cost 10-40x more), lowest and highest bit with the P-384/P-521 keys.
	allMasks := mc.Pick([]byte{0x01, 0x80}, []byte{0x01, 0x02, 0x04, 0x08, 0x10, 0x20, 0x40, 0x80})

	var bases []c38Base
	for k := 0; k < 3; k++ {
		for _, a := range algs {
			for h := range headers {
				for _, bl := range blens {
					for ad := range ads {
						// thorough: every body length 0..32 is crossed with header shapes {bare, all} and AD lists
						// {none, two parts}; the body lengths of the quick tier (plus 130) with everything.
						sparseLen := bl != 0 && bl != 1 && bl != 2 && bl != 17 && bl != 32 && bl != 130
						if sparseLen && !((h == 0 || h == 2) && (ad == 0 || ad == 2)) {
							continue
						}
						if k > 0 && (sparseLen || ad == 4 || ad == 5) {
							continue // P-384/P-521: the body lengths of the quick tier (+130), AD lists without the 24-byte ones
						}
						bases = append(bases, c38Base{k, a, h, bl, ad})
					}
				}
			}
		}
	}
	// Interleave cheap (P-256) and expensive (P-521) bases so that a budget cut does not drop a whole curve.
	order := make([]int, 0, len(bases))
	var byKey [3][]int
	for i, b := range bases {
		byKey[b.key] = append(byKey[b.key], i)
	}
	for i := 0; len(order) < len(bases); i++ {
		for k := 0; k < 3; k++ {
			if i < len(byKey[k]) {
				order = append(order, byKey[k][i])
			}
		}
	}

	var capped atomic.Bool
	var basesDone atomic.Int64
	var twinAccepted, twinTried atomic.Int64
	var nAccept, nReject atomic.Int64
	outcomes := make([]atomic.Int64, 16)
	outNames := []string{"verified:real-signed", "verified:reference-signed", "verified:ad-resplit", "verified:equal-key-copy",
		"rejected:header-and-body-byte", "rejected:signature-byte", "rejected:length-edit", "rejected:field-edit",
		"rejected:noncanonical-reencoding", "rejected:associated-data", "rejected:other-key", "rejected:algorithm-or-key-type",
		"rejected:foreign-signature", "sign-refused", "rejected:body-ad-boundary-moved"}
	const (
		oReal = iota
		oRef
		oSplit
		oKeyCopy
		oHBByte
		oSigByte
		oLen
		oField
		oNonCanon
		oAD
		oKey
		oAlg
		oForeign
		oSignRefused
		oBoundary
	)

	mc.ParallelFor(len(order), func(oi int) {
		if r.OutOfBudget() {
			capped.Store(true)
			return
		}
		bc := bases[order[oi]]
		masks := allMasks
		if bc.key > 0 {
			masks = []byte{0x01, 0x80}
		}
		key := keys[bc.key]
		pub := &key.priv.PublicKey
		ad := ads[bc.ad]
		adCat := c38Concat(ad)
		hdr := headers[bc.hdr].h
		hdr.SignatureAlgorithm = bc.alg
		hdr.AssociatedDataLength = len(adCat)
		body := c38Pattern(bc.blen, 37, 11)
		name := fmt.Sprintf("%s/%v/%s/body%d/ad%d", key.name, bc.alg, headers[bc.hdr].name, bc.blen, bc.ad)
		var evals, distinct int64
		var err error
		viol := func(k string, detail string) {
			r.Violation(k, map[string]any{"base": name, "detail": detail})
		}

		// expectReject: the property demands failure.
		expectReject := func(class int, k string, what string, m *cryptopb.SignedMessage, pk crypto.PublicKey, a [][]byte) {
			evals++
			distinct++
			var msg *signed.Message
			var err error
			if p := mc.Safely(func() { msg, err = signed.Verify(m, pk, a...) }); p != nil {
				viol("panic-in-verify", fmt.Sprintf("%s: %v", what, p))
				return
			}
			if err == nil {
				nAccept.Add(1)
				viol(k, fmt.Sprintf("%s: Verify accepted; returned header %+v body %x", what, msg.Header, msg.Body))
				return
			}
			nReject.Add(1)
			outcomes[class].Add(1)
		}
		// expectAccept: the property demands success and the exact header/body.
		expectAccept := func(class int, k string, what string, m *cryptopb.SignedMessage, pk crypto.PublicKey, a [][]byte) {
			evals++
			distinct++
			var msg *signed.Message
			var err error
			if p := mc.Safely(func() { msg, err = signed.Verify(m, pk, a...) }); p != nil {
				viol("panic-in-verify", fmt.Sprintf("%s: %v", what, p))
				return
			}
			if err != nil {
				viol(k, fmt.Sprintf("%s: Verify failed: %v", what, err))
				return
			}
			if d := c38SameHeader(msg.Header, hdr); d != "" {
				viol("returned-header-differs", what+": "+d)
				return
			}
			if !bytes.Equal(msg.Body, body) {
				viol("returned-body-differs", fmt.Sprintf("%s: %x != %x", what, msg.Body, body))
				return
			}
			outcomes[class].Add(1)
		}

		// 1. real Sign; its output must be the documented format over the same header/body/AD.
		var m *cryptopb.SignedMessage
		evals++
		distinct++
		if p := mc.Safely(func() { m, err = signed.Sign(hdr, body, key.priv, ad...) }); p != nil || err != nil {
			viol("sign-failed", fmt.Sprintf("Sign: err=%v panic=%v", err, p))
			r.CaseBulk(evals, distinct)
			return
		}
		ref := c38RefHdr(hdr)
		gotHdr, gotBody, perr := c38DecodeHB(m.HeaderAndBody)
		if perr != nil {
			viol("sign-output-format", fmt.Sprintf("HeaderAndBody %x does not parse: %v", m.HeaderAndBody, perr))
		} else if gotHdr.alg != ref.alg || !bytes.Equal(gotHdr.keyID, ref.keyID) || gotHdr.hasTS != ref.hasTS ||
			gotHdr.sec != ref.sec || gotHdr.nanos != ref.nanos || !bytes.Equal(gotHdr.meta, ref.meta) ||
			gotHdr.adLen != ref.adLen || !bytes.Equal(gotBody, body) {
			viol("sign-output-content", fmt.Sprintf("HeaderAndBody %x decodes to %+v body %x, signed %+v body %x",
				m.HeaderAndBody, gotHdr, gotBody, ref, body))
		}
		if !ecdsa.VerifyASN1(pub, c38Digest(int64(bc.alg), m.HeaderAndBody, ad), m.Signature) {
			viol("sign-output-signature", "signature of Sign is not ECDSA over H(header_and_body || associated data)")
		}
		expectAccept(oReal, "untouched-rejected", "untouched real-signed message", m, pub, ad)

		// 2. reference-signed message (own encoding, crypto/ecdsa directly) must verify and return the same.
		refHB := c38EncodeHB(ref.encode(), body)
		refSig, err := ecdsa.SignASN1(nil, key.priv, c38Digest(int64(bc.alg), refHB, ad))
		if err != nil {
			r.HarnessError("reference signer: %v", err)
			return
		}
		mRef := &cryptopb.SignedMessage{HeaderAndBody: refHB, Signature: refSig}
		expectAccept(oRef, "reference-signed-rejected", "reference-signed message", mRef, pub, ad)
		// an equal key in a different object
		pubCopy := &ecdsa.PublicKey{Curve: pub.Curve, X: new(big.Int).Set(pub.X), Y: new(big.Int).Set(pub.Y)}
		expectAccept(oKeyCopy, "equal-key-rejected", "equal public key (copy)", m, pubCopy, ad)

		// 3. every split of the same AD concatenation into <= 3 parts (incl. empty parts) is equivalent.
		n := len(adCat)
		if n <= 8 {
			for i := 0; i <= n; i++ {
				for j := i; j <= n; j++ {
					expectAccept(oSplit, "ad-resplit-rejected", fmt.Sprintf("AD split %d/%d", i, j), m, pub,
						[][]byte{adCat[:i], adCat[i:j], adCat[j:]})
				}
			}
		} else {
			for _, c := range [][2]int{{0, 0}, {1, 1}, {1, n - 1}, {n / 2, n / 2}, {0, n}} {
				expectAccept(oSplit, "ad-resplit-rejected", fmt.Sprintf("AD split %d/%d", c[0], c[1]), m, pub,
					[][]byte{adCat[:c[0]], adCat[c[0]:c[1]], adCat[c[1]:]})
			}
		}
		expectAccept(oSplit, "ad-resplit-rejected", "AD as one part", m, pub, [][]byte{adCat})
		if n == 0 {
			expectAccept(oSplit, "ad-resplit-rejected", "no AD argument", m, pub, nil)
		}

		// 4. every byte of HeaderAndBody and of Signature under every mask.
		for _, src := range []*cryptopb.SignedMessage{m, mRef} {
			for i := range src.HeaderAndBody {
				if src == mRef && bytes.Equal(mRef.HeaderAndBody, m.HeaderAndBody) {
					break // same bytes as the real-signed message: already covered
				}
				for _, mask := range masks {
					hb := append([]byte{}, src.HeaderAndBody...)
					hb[i] ^= mask
					expectReject(oHBByte, "header-and-body-byte-accepted", fmt.Sprintf("HeaderAndBody[%d]^=%#x of %x", i, mask, src.HeaderAndBody),
						&cryptopb.SignedMessage{HeaderAndBody: hb, Signature: src.Signature}, pub, ad)
				}
			}
			sparse := bc.blen != 0 && bc.blen != 1 && bc.blen != 2 && bc.blen != 17 && bc.blen != 32 && bc.blen != 130
			if src == mRef && (!mc.Thorough() || sparse || bc.hdr > 3 || bc.key > 0) {
				break // signature bytes of the reference-signed twin: thorough tier, dense part of the grid only
			}
			for i := range src.Signature {
				for mi, mask := range masks {
					if sparse && mi > 0 && mi < len(masks)-1 {
						continue // sparse part of the thorough grid: lowest and highest bit of every signature byte
					}
					sg := append([]byte{}, src.Signature...)
					sg[i] ^= mask
					expectReject(oSigByte, "signature-byte-accepted", fmt.Sprintf("Signature[%d]^=%#x of %x", i, mask, src.Signature),
						&cryptopb.SignedMessage{HeaderAndBody: src.HeaderAndBody, Signature: sg}, pub, ad)
				}
			}
		}

		// 5. length edits
		hb0, sg0 := m.HeaderAndBody, m.Signature
		lenEdits := []struct {
			what string
			hb   []byte
			sg   []byte
		}{
			{"signature truncated by 1", hb0, sg0[:len(sg0)-1]},
			{"signature extended by 0x00", hb0, append(append([]byte{}, sg0...), 0)},
			{"signature empty", hb0, nil},
			{"signature prefixed by 0x00", hb0, append([]byte{0}, sg0...)},
			{"HeaderAndBody truncated by 1", hb0[:len(hb0)-1], sg0},
			{"HeaderAndBody extended by 0x00", append(append([]byte{}, hb0...), 0), sg0},
			{"HeaderAndBody empty", nil, sg0},
			{"HeaderAndBody and Signature swapped", sg0, hb0},
		}
		for _, e := range lenEdits {
			expectReject(oLen, "length-edit-accepted", e.what, &cryptopb.SignedMessage{HeaderAndBody: e.hb, Signature: e.sg}, pub, ad)
		}
		expectReject(oLen, "length-edit-accepted", "nil message", nil, pub, ad)

		// 6. field edits: re-encode header/body with one field changed, keep the signature. Where the edit changes the
		// AD length field, the AD passed is adjusted so that the length test alone cannot reject it.
		type fieldEdit struct {
			what string
			h    c38Hdr
			body []byte
			ad   [][]byte
		}
		var fes []fieldEdit
		addFE := func(what string, f func(h *c38Hdr, b *[]byte, a *[][]byte)) {
			h := ref
			h.keyID = append([]byte{}, ref.keyID...)
			h.meta = append([]byte{}, ref.meta...)
			b := append([]byte{}, body...)
			a := ad
			f(&h, &b, &a)
			fes = append(fes, fieldEdit{what, h, b, a})
		}
		for alg := int64(0); alg <= 4; alg++ {
			if alg != ref.alg {
				alg := alg
				addFE(fmt.Sprintf("algorithm -> %d", alg), func(h *c38Hdr, _ *[]byte, _ *[][]byte) { h.alg = alg })
			}
		}
		addFE("key id + byte", func(h *c38Hdr, _ *[]byte, _ *[][]byte) { h.keyID = append(h.keyID, 0x00) })
		if len(ref.keyID) > 0 {
			addFE("key id - byte", func(h *c38Hdr, _ *[]byte, _ *[][]byte) { h.keyID = h.keyID[:len(h.keyID)-1] })
			addFE("key id moved into metadata", func(h *c38Hdr, _ *[]byte, _ *[][]byte) {
				h.meta = append(append([]byte{}, h.keyID...), h.meta...)
				h.keyID = nil
			})
		}
		addFE("metadata + byte", func(h *c38Hdr, _ *[]byte, _ *[][]byte) { h.meta = append(h.meta, 0x00) })
		if len(ref.meta) > 0 {
			addFE("metadata - byte", func(h *c38Hdr, _ *[]byte, _ *[][]byte) { h.meta = h.meta[:len(h.meta)-1] })
		}
		addFE("timestamp presence toggled", func(h *c38Hdr, _ *[]byte, _ *[][]byte) { h.hasTS = !h.hasTS })
		if ref.hasTS {
			addFE("timestamp + 1s", func(h *c38Hdr, _ *[]byte, _ *[][]byte) { h.sec++ })
			addFE("timestamp + 1ns", func(h *c38Hdr, _ *[]byte, _ *[][]byte) { h.nanos++ })
		}
		addFE("AD length + 1, AD extended", func(h *c38Hdr, _ *[]byte, a *[][]byte) {
			h.adLen++
			*a = append(append([][]byte{}, *a...), []byte{0})
		})
		if n > 0 {
			addFE("AD length - 1, AD shortened", func(h *c38Hdr, _ *[]byte, a *[][]byte) {
				h.adLen--
				*a = [][]byte{adCat[:n-1]}
			})
			addFE("first AD byte moved to the end of the body", func(h *c38Hdr, b *[]byte, a *[][]byte) {
				h.adLen--
				*b = append(*b, adCat[0])
				*a = [][]byte{adCat[1:]}
			})
		}
		addFE("body + byte", func(_ *c38Hdr, b *[]byte, _ *[][]byte) { *b = append(*b, 0x00) })
		if len(body) > 0 {
			addFE("body - last byte", func(_ *c38Hdr, b *[]byte, _ *[][]byte) { *b = (*b)[:len(*b)-1] })
			addFE("last body byte moved to the front of the AD", func(h *c38Hdr, b *[]byte, a *[][]byte) {
				h.adLen++
				last := (*b)[len(*b)-1]
				*b = (*b)[:len(*b)-1]
				*a = append([][]byte{{last}}, *a...)
			})
			addFE("body reversed", func(_ *c38Hdr, b *[]byte, _ *[][]byte) {
				for i, j := 0, len(*b)-1; i < j; i, j = i+1, j-1 {
					(*b)[i], (*b)[j] = (*b)[j], (*b)[i]
				}
			})
		}
		for _, fe := range fes {
			hb := c38EncodeHB(fe.h.encode(), fe.body)
			if bytes.Equal(hb, hb0) {
				evals++ // not a mutant (e.g. reversing a palindromic body); counted as trivial
				continue
			}
			expectReject(oField, "field-edit-accepted", fe.what,
				&cryptopb.SignedMessage{HeaderAndBody: hb, Signature: sg0}, pub, fe.ad)
		}

		// 7. non-canonical re-encodings of the *same* header and body (bytes differ, content equal): the signature
		// covers the bytes, so they must fail too.
		encHdr := ref.encode()
		var nonCanon []struct {
			what string
			hb   []byte
		}
		addNC := func(what string, hb []byte) {
			nonCanon = append(nonCanon, struct {
				what string
				hb   []byte
			}{what, hb})
		}
		addNC("body field before header field", append(c38Bytes(nil, 2, body), c38Bytes(nil, 1, encHdr)...))
		addNC("unknown varint field appended to HeaderAndBody", c38Int(c38EncodeHB(encHdr, body), 15, 1))
		addNC("unknown varint field appended to Header", c38EncodeHB(c38Int(append([]byte{}, encHdr...), 15, 1), body))
		addNC("empty body field made explicit / implicit", func() []byte {
			if len(body) == 0 {
				return append(c38Bytes(nil, 1, encHdr), c38Bytes(nil, 2, nil)...)
			}
			return append(c38EncodeHB(encHdr, body), c38Bytes(nil, 2, body)...) // body repeated (last wins)
		}())
		addNC("non-minimal varint for the algorithm", func() []byte {
			h := ref
			h.alg = 0
			return c38EncodeHB(append([]byte{0x08, byte(ref.alg) | 0x80, 0x00}, h.encode()...), body)
		}())
		addNC("explicit zero AD length / split header", func() []byte {
			if ref.adLen == 0 {
				return c38EncodeHB(append(append([]byte{}, encHdr...), 0x28, 0x00), body)
			}
			// header field given twice in two halves is not equivalent for bytes fields; repeat the AD length
			return c38EncodeHB(c38Int(append([]byte{}, encHdr...), 5, ref.adLen), body)
		}())
		for _, nc := range nonCanon {
			if bytes.Equal(nc.hb, hb0) {
				evals++
				continue
			}
			expectReject(oNonCanon, "noncanonical-reencoding-accepted", nc.what,
				&cryptopb.SignedMessage{HeaderAndBody: nc.hb, Signature: sg0}, pub, ad)
		}

		// 8. associated data edits (message untouched).
		adEdit := func(what string, a [][]byte) {
			if bytes.Equal(c38Concat(a), adCat) {
				evals++
				return
			}
			expectReject(oAD, "associated-data-edit-accepted", what, m, pub, a)
		}
		for i := range adCat {
			for mi, mask := range masks {
				if n > 32 && mi > 0 && mi < len(masks)-1 {
					continue // long AD: lowest and highest bit of every byte only
				}
				c := append([]byte{}, adCat...)
				c[i] ^= mask
				// keep the original part boundaries
				var parts [][]byte
				off := 0
				for _, p := range ad {
					parts = append(parts, c[off:off+len(p)])
					off += len(p)
				}
				adEdit(fmt.Sprintf("AD byte %d ^= %#x", i, mask), parts)
			}
		}
		for i := range ad {
			dropped := append(append([][]byte{}, ad[:i]...), ad[i+1:]...)
			adEdit(fmt.Sprintf("AD part %d dropped", i), dropped)
			dup := append(append(append([][]byte{}, ad[:i+1]...), ad[i]), ad[i+1:]...)
			adEdit(fmt.Sprintf("AD part %d duplicated", i), dup)
			if i+1 < len(ad) {
				sw := append([][]byte{}, ad...)
				sw[i], sw[i+1] = sw[i+1], sw[i]
				adEdit(fmt.Sprintf("AD parts %d,%d swapped", i, i+1), sw)
			}
		}
		adEdit("AD part appended", append(append([][]byte{}, ad...), []byte("Z")))
		adEdit("AD part prepended", append([][]byte{[]byte("Z")}, ad...))
		adEdit("AD removed", nil)
		if n > 1 {
			adEdit("AD rotated by one byte", [][]byte{adCat[1:], adCat[:1]})
			adEdit("AD reversed", [][]byte{func() []byte {
				c := append([]byte{}, adCat...)
				for i, j := 0, len(c)-1; i < j; i, j = i+1, j-1 {
					c[i], c[j] = c[j], c[i]
				}
				return c
			}()})
		}
		adEdit("AD replaced by the body", [][]byte{body})
		adEdit("AD replaced by zero bytes of the same length", [][]byte{make([]byte, n)})

		// 8b. the boundary between header_and_body and the associated data moved (the concatenation that is hashed stays
		// byte-identical; only the signed AD length pins the boundary): every prefix of the AD appended to
		// header_and_body, and up to 8 trailing bytes of header_and_body moved to the front of the AD.
		for k := 1; k <= n; k++ {
			hb := append(append([]byte{}, hb0...), adCat[:k]...)
			for _, rest := range [][][]byte{{adCat[k:]}, {adCat[k:], {}}, nil} {
				if rest == nil && k < n {
					continue
				}
				expectReject(oBoundary, "body-ad-boundary-moved-accepted", fmt.Sprintf("first %d AD byte(s) %x appended to HeaderAndBody, rest passed as AD", k, adCat[:k]),
					&cryptopb.SignedMessage{HeaderAndBody: hb, Signature: sg0}, pub, rest)
			}
		}
		for j := 1; j <= 8 && j < len(hb0); j++ {
			hb := hb0[:len(hb0)-j]
			expectReject(oBoundary, "body-ad-boundary-moved-accepted", fmt.Sprintf("last %d byte(s) of HeaderAndBody moved to the front of the AD", j),
				&cryptopb.SignedMessage{HeaderAndBody: hb, Signature: sg0}, pub, append([][]byte{hb0[len(hb0)-j:]}, ad...))
		}

		// 9. other keys and inconsistent key types.
		for ki, k := range keys {
			if ki == bc.key {
				continue
			}
			expectReject(oKey, "other-key-accepted", "verification with key "+k.name, m, &k.priv.PublicKey, ad)
		}
		negY := new(big.Int).Sub(pub.Curve.Params().P, pub.Y)
		expectReject(oKey, "other-key-accepted", "verification with the negated public point", m,
			&ecdsa.PublicKey{Curve: pub.Curve, X: pub.X, Y: negY}, ad)
		expectReject(oAlg, "inconsistent-key-type-accepted", "ed25519 public key", m, edPub, ad)
		expectReject(oAlg, "inconsistent-key-type-accepted", "RSA public key", m, &rsaKey.PublicKey, ad)
		expectReject(oAlg, "inconsistent-key-type-accepted", "nil key", m, nil, ad)
		expectReject(oAlg, "inconsistent-key-type-accepted", "ECDSA public key by value", m, *pub, ad)
		expectReject(oAlg, "inconsistent-key-type-accepted", "private key object", m, key.priv, ad)

		// 10. unknown/unspecified algorithm in a message that is otherwise correctly signed, for each way a verifier
		// could interpret it (each hash, or the raw concatenation as the digest).
		for _, alg := range []int64{0, 4, 1 << 20} {
			h := ref
			h.alg = alg
			hb := c38EncodeHB(h.encode(), body)
			raw := append(append([]byte{}, hb...), adCat...)
			digests := [][]byte{c38Digest(1, hb, ad), c38Digest(2, hb, ad), c38Digest(3, hb, ad), raw}
			for di, d := range digests {
				sg, err := ecdsa.SignASN1(nil, key.priv, d)
				if err != nil {
					r.HarnessError("reference signer: %v", err)
					continue
				}
				expectReject(oAlg, "unknown-algorithm-accepted", fmt.Sprintf("algorithm %d signed over digest kind %d", alg, di),
					&cryptopb.SignedMessage{HeaderAndBody: hb, Signature: sg}, pub, ad)
			}
		}
		// algorithm named in the header differs from the hash actually used for the signature
		for alg := int64(1); alg <= 3; alg++ {
			if alg == ref.alg {
				continue
			}
			sg, _ := ecdsa.SignASN1(nil, key.priv, c38Digest(alg, refHB, ad))
			expectReject(oAlg, "wrong-hash-accepted", fmt.Sprintf("header algorithm %d, signature over hash of algorithm %d", ref.alg, alg),
				&cryptopb.SignedMessage{HeaderAndBody: refHB, Signature: sg}, pub, ad)
		}
		// signature that covers only header_and_body although AD is declared (and vice versa)
		if n > 0 {
			sg, _ := ecdsa.SignASN1(nil, key.priv, c38Digest(ref.alg, refHB, nil))
			expectReject(oAD, "signature-without-ad-accepted", "signature computed without the associated data",
				&cryptopb.SignedMessage{HeaderAndBody: refHB, Signature: sg}, pub, ad)
			sg, _ = ecdsa.SignASN1(nil, key.priv, c38Digest(ref.alg, nil, [][]byte{adCat, refHB}))
			expectReject(oAD, "signature-ad-first-accepted", "signature computed over AD || header_and_body",
				&cryptopb.SignedMessage{HeaderAndBody: refHB, Signature: sg}, pub, ad)
		}

		// 11. signature of another message by the same key.
		other, err := signed.Sign(hdr, append(append([]byte{}, body...), 0x55), key.priv, ad...)
		if err == nil {
			expectReject(oForeign, "foreign-signature-accepted", "signature taken from another message of the same key",
				&cryptopb.SignedMessage{HeaderAndBody: hb0, Signature: other.Signature}, pub, ad)
		}

		// 12. Sign with an inconsistent algorithm / key / AD length: if it returns a message at all, that message must
		// not verify (weak reading: the statement only speaks about verification).
		signRefuse := func(what string, h signed.Header, s crypto.Signer, a [][]byte, vk crypto.PublicKey) {
			evals++
			distinct++
			var sm *cryptopb.SignedMessage
			var err error
			if p := mc.Safely(func() { sm, err = signed.Sign(h, body, s, a...) }); p != nil {
				viol("panic-in-sign", fmt.Sprintf("%s: %v", what, p))
				return
			}
			if err != nil {
				outcomes[oSignRefused].Add(1)
				return
			}
			expectReject(oAlg, "inconsistent-sign-verifies", what+" (Sign succeeded)", sm, vk, ad)
		}
		for _, alg := range []signed.SignatureAlgorithm{signed.UnknownSignatureAlgorithm, 4, -1} {
			h := hdr
			h.SignatureAlgorithm = alg
			signRefuse(fmt.Sprintf("Sign with algorithm %d", int(alg)), h, key.priv, ad, pub)
		}
		signRefuse("Sign with ed25519 key", hdr, edPriv, ad, edPub)
		{
			h := hdr
			h.AssociatedDataLength++
			signRefuse("Sign with AD length + 1", h, key.priv, ad, pub)
		}

		// Observation only (outside the alphabet of single mutations, see Assumptions): the ECDSA twin (r, n-s).
		if bc.hdr == 0 && bc.ad == 0 {
			var sig struct{ R, S *big.Int }
			if _, err := asn1.Unmarshal(sg0, &sig); err == nil {
				sig.S = new(big.Int).Sub(pub.Curve.Params().N, sig.S)
				if tw, err := asn1.Marshal(sig); err == nil {
					twinTried.Add(1)
					if _, err := signed.Verify(&cryptopb.SignedMessage{HeaderAndBody: hb0, Signature: tw}, pub, ad...); err == nil {
						twinAccepted.Add(1)
					}
				}
			}
		}
		if oi%97 == 0 {
			r.Sample(map[string]any{"base": name, "header_and_body": fmt.Sprintf("%x", hb0), "signature_len": len(sg0),
				"ad_parts": len(ad), "cases_on_this_base": evals})
		}
		r.CaseBulk(evals, distinct)
		basesDone.Add(1)
	})
	r.Extra["base_messages_completed"] = basesDone.Load()
	if capped.Load() {
		r.Capped("internal budget reached before all base messages were explored")
	}
	for i, nm := range outNames {
		if c := outcomes[i].Load(); c > 0 {
			r.Outcome(nm)
			r.Extra["n_"+nm] = c
		}
	}
	r.Extra["base_messages"] = len(bases)
	r.Extra["byte_masks"] = fmt.Sprintf("%x (P-256 key), 0180 (P-384/P-521 keys)", allMasks)
	r.Extra["mutants_rejected"] = nReject.Load()
	r.Extra["mutants_accepted"] = nAccept.Load()
	r.Extra["observation_ecdsa_twin_r_n_minus_s"] = fmt.Sprintf("accepted %d of %d (algebraic malleability of ECDSA, outside the alphabet)",
		twinAccepted.Load(), twinTried.Load())
	r.Assumptions = []string{
		"'algorithm inconsistent with the key' is read as: unknown/unspecified algorithm, or a key that is not an ECDSA key; " +
			"any of the three ECDSA/SHA-2 algorithms with any of the three curves counts as consistent (all 9 pairs must round-trip)",
		"the ECDSA twin signature (r, n-s) is an algebraic transformation, not a single mutation of the alphabet; it is tried and " +
			"recorded as an observation only",
		"'returns exactly the signed header' compares timestamps as instants and treats nil and empty byte strings as equal",
		"keys are fixed scalars; signatures of the real Sign are randomised, so the exact number of signature bytes (and cases) " +
			"may differ by a few between runs; no verdict depends on signature bytes",
		"Sign with an inconsistent algorithm/key/AD length is only required not to yield a verifiable message",
	}
	r.Finish(11)
}
