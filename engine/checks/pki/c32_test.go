package pki

import (
	"crypto/sha256"
	"fmt"
	"sort"
	"strings"
	"sync"
	"sync/atomic"
	"testing"
	"time"

	"github.com/scionproto/scion/pkg/addr"
	"github.com/scionproto/scion/pkg/scrypto/cms/protocol"
	"github.com/scionproto/scion/pkg/scrypto/cppki"

	"verif/mc"
	"verif/pkigen"
)

// C32: TRC updates are accepted only with the required votes and signatures.
//
// The successor space is generated from a predecessor with 3 sensitive voters, 3 regular voters and 2 roots. Every
// successor is described symbolically (header edit, policy edit, certificate-set edits, vote list, signer set); the
// clean-room oracle c32Spec decides from that description alone (statement + trc.rst "TRC Update"), the real
// SignedTRC.Verify decides on the DER-decoded signed TRC built from it.

var (
	c32T0       = time.Date(2000, 1, 1, 0, 0, 0, 0, time.UTC)
	c32CertVal  = pkigen.Val(c32T0, 2000*time.Hour)
	c32RenewVal = pkigen.Val(c32T0.Add(time.Hour), 2100*time.Hour)
	c32PredVal  = pkigen.Val(c32T0.Add(time.Hour), 1000*time.Hour)
	c32SuccVal  = pkigen.Val(c32T0.Add(2*time.Hour), 1000*time.Hour)
)

type c32Class int

const (
	c32S c32Class = iota
	c32R
	c32Rt
)

func (c c32Class) String() string { return [...]string{"S", "R", "Rt"}[c] }

func (c c32Class) certType() cppki.CertType {
	return [...]cppki.CertType{cppki.Sensitive, cppki.Regular, cppki.Root}[c]
}

// c32Ref names one certificate of the universe: the predecessor's certificate of class/idx (gen 0), its renewal
// with the same subject (gen 1: new key, gen 2: same key), a "twin" (gen 3: ANOTHER certificate of the same class with
// the same subject distinguished name, its own key and serial number, same validity as the original; meant to sit in a
// certificate list NEXT to a certificate of that subject), or a certificate with a fresh subject (idx >= 3).
type c32Ref struct {
	class c32Class
	idx   int
	gen   int
	isd   addr.ISD
}

func (r c32Ref) String() string { return fmt.Sprintf("%v%d.%d/%d", r.class, r.idx, r.gen, r.isd) }

var (
	c32CertMu sync.Mutex
	c32CertM  = map[c32Ref]*pkigen.Cert{}
)

func c32Cert(r c32Ref) *pkigen.Cert {
	if r.isd == 0 {
		r.isd = 1
	}
	c32CertMu.Lock()
	defer c32CertMu.Unlock()
	if c, ok := c32CertM[r]; ok {
		return c
	}
	v := c32CertVal
	key := fmt.Sprintf("c32/%v%d/%d", r.class, r.idx, r.isd)
	if r.gen > 0 {
		v = c32RenewVal
	}
	if r.gen == 1 {
		key += "/new"
	}
	if r.gen == 3 {
		v = c32CertVal
		key += "/twin"
	}
	c := pkigen.Must(pkigen.Spec{Type: r.class.certType(), IA: addr.MustIAFrom(r.isd, addr.AS(0xff00_0000_0200+uint64(r.class)*0x10+uint64(r.idx))),
		CN: fmt.Sprintf("c32 %v%d", r.class, r.idx), NotBefore: v.NotBefore, NotAfter: v.NotAfter, KeyName: key})
	c32CertM[r] = c
	return c
}

// ---- predecessor

type c32Pred struct {
	name   string
	layout int
	slots  []c32Ref // certificate at each index
	quorum int
	signed cppki.SignedTRC
	cores  []addr.AS
	auths  []addr.AS
}

func (p *c32Pred) pos(class c32Class, idx int) int {
	for i, s := range p.slots {
		if s.class == class && s.idx == idx {
			return i
		}
	}
	return -1
}

func c32MakePred(layout, quorum int) (*c32Pred, error) {
	p := &c32Pred{name: fmt.Sprintf("layout%d-q%d", layout, quorum), layout: layout, quorum: quorum}
	s := func(c c32Class, i int) c32Ref { return c32Ref{class: c, idx: i, isd: 1} }
	if layout == 0 {
		p.slots = []c32Ref{s(c32S, 0), s(c32S, 1), s(c32S, 2), s(c32R, 0), s(c32R, 1), s(c32R, 2), s(c32Rt, 0), s(c32Rt, 1)}
	} else {
		p.slots = []c32Ref{s(c32Rt, 0), s(c32R, 2), s(c32S, 0), s(c32R, 1), s(c32S, 1), s(c32R, 0), s(c32S, 2), s(c32Rt, 1)}
	}
	p.cores = []addr.AS{0xff00_0000_0110, 0xff00_0000_0111, 0xff00_0000_0112}
	p.auths = []addr.AS{0xff00_0000_0110, 0xff00_0000_0111, 0xff00_0000_0112}
	t := cppki.TRC{Version: 1, ID: cppki.TRCID{ISD: 1, Base: 1, Serial: 2}, Validity: c32PredVal, GracePeriod: time.Hour,
		Votes: []int{p.pos(c32S, 0), p.pos(c32S, 1)}, Quorum: quorum, CoreASes: p.cores, AuthoritativeASes: p.auths, Description: "pred"}
	var signers []*pkigen.Cert
	for _, r := range p.slots {
		t.Certificates = append(t.Certificates, c32Cert(r).X)
	}
	signers = append(signers, c32Cert(s(c32S, 0)), c32Cert(s(c32S, 1)))
	var err error
	p.signed, err = pkigen.Sign(t, signers...)
	return p, err
}

// ---- successor description

type c32EditKind int

const (
	c32Repl    c32EditKind = iota // same subject, new certificate, new key
	c32ReplKey                    // same subject, new certificate, same key
	c32Swap                       // replaced by a certificate with a fresh subject (count unchanged)
	c32Add                        // certificate with a fresh subject appended
	c32Del                        // removed
	c32Twin                       // a twin of certificate idx (same class, same subject DN, other key) appended
	c32TwinSwap                   // the NEXT certificate of the class (idx+1 mod n) replaced by a twin of certificate idx (count unchanged)
)

func (k c32EditKind) String() string { return [...]string{"repl", "replsamekey", "swap", "add", "del", "twin", "twinswap"}[k] }

type c32Edit struct {
	kind  c32EditKind
	class c32Class
	idx   int // which certificate of the class (ignored for add)
}

func (e c32Edit) String() string { return fmt.Sprintf("%v:%v%d", e.kind, e.class, e.idx) }

const (
	c32HdrOK = iota
	c32HdrSameSerial
	c32HdrSerialPlus2
	c32HdrBaseChanged
	c32HdrIsBase
	c32HdrNTR
	c32HdrISD
	c32HdrInvalidPayload
	c32HdrNilPred
	c32NHdr
)

var c32HdrName = [...]string{"ok", "serial-unchanged", "serial+2", "base-changed", "base-trc-with-predecessor", "notrustreset-flipped",
	"isd-changed", "payload-invalid", "nil-predecessor"}

const (
	c32PolNone = iota
	c32PolQuorum
	c32PolCore
	c32PolAuth
	c32PolCoreOrder
	c32NPol
)

// c32Policy is one edit of the policy fields. The first c32NPol entries are the ones crossed with the full vote-list
// exploration; the remaining ones (every removal / insertion / replacement position of the core and authoritative AS
// lists, more reorderings) are crossed with every certificate edit and every acceptable vote list in their own block.
type c32Policy struct {
	name  string // with position, for display
	key   string // stable class for finding keys
	class string // none | quorum | core | auth | reorder
	apply func(t *cppki.TRC)
}

const c32FreshAS = addr.AS(0xff00_0000_01ff)

func c32ListEdits(list string) []c32Policy {
	sel := func(t *cppki.TRC) *[]addr.AS {
		if list == "core" {
			return &t.CoreASes
		}
		return &t.AuthoritativeASes
	}
	var out []c32Policy
	posName := func(i, n int) string {
		switch {
		case i == 0:
			return "first"
		case i >= n-1:
			return "last"
		}
		return "middle"
	}
	for i := 0; i < 3; i++ {
		out = append(out, c32Policy{fmt.Sprintf("%s-del@%d", list, i), list + "-as-removed-" + posName(i, 3), list, func(t *cppki.TRC) {
			l := *sel(t)
			*sel(t) = append(append([]addr.AS{}, l[:i]...), l[i+1:]...)
		}})
		out = append(out, c32Policy{fmt.Sprintf("%s-repl@%d", list, i), list + "-as-replaced-" + posName(i, 3), list, func(t *cppki.TRC) {
			l := append([]addr.AS{}, *sel(t)...)
			l[i] = c32FreshAS
			*sel(t) = l
		}})
	}
	for i := 0; i <= 3; i++ {
		out = append(out, c32Policy{fmt.Sprintf("%s-ins@%d", list, i), list + "-as-inserted-" + posName(i, 4), list, func(t *cppki.TRC) {
			l := *sel(t)
			*sel(t) = append(append(append([]addr.AS{}, l[:i]...), c32FreshAS), l[i:]...)
		}})
	}
	out = append(out, c32Policy{list + "-del@1,2", list + "-as-removed-two-trailing", list, func(t *cppki.TRC) { *sel(t) = append([]addr.AS{}, (*sel(t))[:1]...) }})
	out = append(out, c32Policy{list + "-swap@0,2", list + "-ases-reordered", "reorder", func(t *cppki.TRC) {
		l := append([]addr.AS{}, *sel(t)...)
		l[0], l[2] = l[2], l[0]
		*sel(t) = l
	}})
	out = append(out, c32Policy{list + "-rot1", list + "-ases-reordered", "reorder", func(t *cppki.TRC) {
		l := *sel(t)
		*sel(t) = append(append([]addr.AS{}, l[1:]...), l[0])
	}})
	return out
}

var c32Policies = func() []c32Policy {
	out := []c32Policy{
		{"none", "none", "none", func(*cppki.TRC) {}},
		{"quorum", "quorum", "quorum", func(*cppki.TRC) {}}, // applied through newQuorum
		{"core", "core", "core", func(t *cppki.TRC) { t.CoreASes = append(append([]addr.AS{}, t.CoreASes...), c32FreshAS) }},
		{"auth", "auth", "auth", func(t *cppki.TRC) {
			t.AuthoritativeASes = append([]addr.AS{c32FreshAS}, t.AuthoritativeASes[1:]...)
		}},
		{"core-reordered", "core-ases-reordered", "reorder", func(t *cppki.TRC) {
			l := append([]addr.AS{}, t.CoreASes...)
			l[0], l[1] = l[1], l[0]
			t.CoreASes = l
		}},
	}
	out = append(out, c32ListEdits("core")...)
	out = append(out, c32ListEdits("auth")...)
	return out
}()

func c32PolNameOf(i int) string { return c32Policies[i].name }

const (
	c32SigGood = iota
	c32SigWrongKey
	c32SigOtherPayload
)

type c32Sig struct {
	who  c32Ref
	mode int
}

// c32Order permutes the successor's certificate list (the predecessor's order is the identity). Nothing in the
// statement depends on the order of the successor's certificates; votes are indices into the PREDECESSOR.
type c32Order struct {
	kind int // 0 identity, 1 reversed, 2 rotated left by a, 3 positions a and b exchanged
	a, b int
}

func (o c32Order) String() string {
	switch o.kind {
	case 1:
		return "reversed"
	case 2:
		return fmt.Sprintf("rot%d", o.a)
	case 3:
		return fmt.Sprintf("swap%d-%d", o.a, o.b)
	}
	return "pred-order"
}

// applies reports whether the order is a real permutation of a list of length n.
func (o c32Order) applies(n int) bool {
	switch o.kind {
	case 1:
		return n > 1
	case 2:
		return o.a%n != 0
	case 3:
		return o.a < n && o.b < n
	}
	return true
}

func (o c32Order) apply(l []c32Ref) []c32Ref {
	n := len(l)
	out := append([]c32Ref{}, l...)
	switch o.kind {
	case 1:
		for i := range l {
			out[i] = l[n-1-i]
		}
	case 2:
		for i := range l {
			out[i] = l[(i+o.a)%n]
		}
	case 3:
		if o.a < n && o.b < n {
			out[o.a], out[o.b] = out[o.b], out[o.a]
		}
	}
	return out
}

func c32Orders(maxLen int, all bool) []c32Order {
	out := []c32Order{{kind: 1}}
	for k := 1; k < maxLen; k++ {
		if all || k == 1 || k == maxLen/2 {
			out = append(out, c32Order{kind: 2, a: k})
		}
	}
	for a := 0; a < maxLen; a++ {
		for b := a + 1; b < maxLen; b++ {
			out = append(out, c32Order{kind: 3, a: a, b: b})
		}
	}
	return out
}

type c32Succ struct {
	pred   *c32Pred
	hdr    int
	policy int
	order  c32Order
	edits  []c32Edit
	votes  []int
	sigs   []c32Sig
}

func (s *c32Succ) String() string {
	var sg []string
	for _, x := range s.sigs {
		sg = append(sg, fmt.Sprintf("%v:%d", x.who, x.mode))
	}
	return fmt.Sprintf("%s hdr=%s pol=%s edits=%v order=%v votes=%v sigs=%v", s.pred.name, c32HdrName[s.hdr], c32PolNameOf(s.policy), s.edits, s.order, s.votes, sg)
}

// certs returns the successor's certificate list (by reference) after the edits.
func (s *c32Succ) certs() []c32Ref {
	out := append([]c32Ref{}, s.pred.slots...)
	if s.hdr == c32HdrISD {
		// a complete new certificate set in ISD 2 (same shape)
		for i := range out {
			out[i] = c32Ref{class: out[i].class, idx: out[i].idx, gen: 0, isd: 2}
		}
		return s.order.apply(out)
	}
	for _, e := range s.edits {
		switch e.kind {
		case c32Repl, c32ReplKey, c32Swap, c32Del:
			for i := range out {
				if out[i].class == e.class && out[i].idx == e.idx && out[i].gen == 0 {
					switch e.kind {
					case c32Repl:
						out[i].gen = 1
					case c32ReplKey:
						out[i].gen = 2
					case c32Swap:
						out[i] = c32Ref{class: e.class, idx: 5 + e.idx, isd: 1}
					case c32Del:
						out = append(out[:i], out[i+1:]...)
					}
					break
				}
			}
		case c32Add:
			out = append(out, c32Ref{class: e.class, idx: 3, isd: 1})
		case c32Twin:
			out = append(out, c32Ref{class: e.class, idx: e.idx, gen: 3, isd: 1})
		case c32TwinSwap:
			n := 3
			if e.class == c32Rt {
				n = 2
			}
			for i := range out {
				if out[i].class == e.class && out[i].idx == (e.idx+1)%n { // whatever generation sits there
					out[i] = c32Ref{class: e.class, idx: e.idx, gen: 3, isd: 1}
					break
				}
			}
		}
	}
	return s.order.apply(out)
}

func (s *c32Succ) newQuorum() int {
	if s.policy == c32PolQuorum {
		return 3 - s.pred.quorum // 1 <-> 2
	}
	return s.pred.quorum
}

// ---- clean-room oracle

type c32Verdict int

const (
	c32Reject c32Verdict = iota
	c32Accept
	c32Either
)

// c32Spec: verdict and the name of the first necessary condition that fails (or the reason for Either).
func c32Spec(s *c32Succ) (c32Verdict, string) {
	if s.hdr != c32HdrOK {
		return c32Reject, "header:" + c32HdrName[s.hdr]
	}
	p := s.pred
	// payload validity (by construction everything but the voter counts is fine)
	cnt := map[c32Class]int{}
	for _, c := range s.certs() {
		cnt[c.class]++
	}
	if cnt[c32S] < s.newQuorum() || cnt[c32R] < s.newQuorum() {
		return c32Reject, "payload-invalid:quorum-exceeds-voters"
	}
	// trc.rst, certificates field: "Per certificate category, every certificate distinguished name MUST be unique."
	// The subject of a reference is (class, idx, isd); the generation only changes key / serial / validity.
	type subj struct {
		class c32Class
		idx   int
		isd   addr.ISD
	}
	subjects := map[subj]bool{}
	for _, c := range s.certs() {
		k := subj{c.class, c.idx, c.isd}
		if subjects[k] {
			return c32Reject, "payload-invalid:duplicate-subject-" + c.class.String()
		}
		subjects[k] = true
	}
	// votes
	if len(s.votes) == 0 {
		return c32Reject, "votes:none"
	}
	seen := map[int]bool{}
	dup := false
	nS, nR := 0, 0
	for _, v := range s.votes {
		if v < 0 || v >= len(p.slots) {
			return c32Reject, "votes:index-out-of-range"
		}
		switch p.slots[v].class {
		case c32S:
			nS++
		case c32R:
			nR++
		default:
			return c32Reject, "votes:root-certificate"
		}
		if seen[v] {
			dup = true
		}
		seen[v] = true
	}
	if nS > 0 && nR > 0 {
		return c32Reject, "votes:mixed-classes"
	}
	regular := nR > 0
	mode := "sensitive"
	if regular {
		mode = "regular"
	}
	if len(seen) < p.quorum {
		return c32Reject, mode + ":distinct-votes-below-quorum"
	}
	// what the update changes
	var required []c32Ref
	for v := range seen {
		required = append(required, p.slots[v])
	}
	for _, e := range s.edits {
		if regular {
			switch {
			case e.kind == c32Add || e.kind == c32Del || e.kind == c32Swap || e.kind == c32Twin || e.kind == c32TwinSwap:
				// (a twin edit that got here had no effect on the certificate list because its target was removed or
				// swapped by another edit of the set, which a regular update does not allow either)
				return c32Reject, fmt.Sprintf("regular:%v-%v", e.kind, e.class)
			case e.class == c32S:
				return c32Reject, "regular:sensitive-certificate-changed"
			case e.class == c32R:
				if !seen[p.pos(c32R, e.idx)] {
					return c32Reject, "regular:replaced-voter-did-not-vote"
				}
			case e.class == c32Rt:
				required = append(required, c32Ref{class: c32Rt, idx: e.idx, isd: 1}) // acknowledgment by the old root
			}
		}
	}
	if pc := c32Policies[s.policy]; regular && (pc.class == "quorum" || pc.class == "core" || pc.class == "auth") {
		return c32Reject, "regular:policy-changed:" + pc.key
	}
	// newly introduced voting certificates
	for _, c := range s.certs() {
		if c.class != c32Rt && (c.gen != 0 || c.idx >= 3) {
			required = append(required, c)
		}
	}
	good := map[c32Ref]bool{}
	bad := map[c32Ref]bool{}
	for _, sg := range s.sigs {
		if sg.mode == c32SigGood {
			good[sg.who] = true
		} else {
			bad[sg.who] = true
		}
	}
	for _, q := range required {
		if !good[q] {
			kind := "vote"
			switch {
			case q.class == c32Rt:
				kind = "root-acknowledgment"
			case q.gen != 0 || q.idx >= 3:
				kind = "new-voter"
			}
			why := "missing"
			if bad[q] {
				why = "invalid"
			}
			return c32Reject, fmt.Sprintf("%s:%s-signature-%s", mode, kind, why)
		}
	}
	// all necessary conditions of the statement hold
	if dup {
		return c32Either, "duplicate-votes-but-quorum-of-distinct"
	}
	if pc := c32Policies[s.policy]; regular && pc.class == "reorder" {
		return c32Either, "regular:" + pc.key
	}
	req := map[c32Ref]bool{}
	for _, q := range required {
		req[q] = true
	}
	for _, sg := range s.sigs {
		if !req[sg.who] || sg.mode != c32SigGood {
			return c32Either, "superfluous-signature"
		}
	}
	return c32Accept, mode
}

// ---- building and judging

type c32Sigkey struct {
	payload [32]byte
	who     c32Ref
	mode    int
}

var (
	c32SigMu    sync.Mutex
	c32SigCache = map[c32Sigkey]protocol.SignerInfo{}
)

func c32SignerInfo(raw []byte, who c32Ref, mode int) (protocol.SignerInfo, error) {
	k := c32Sigkey{sha256.Sum256(raw), who, mode}
	c32SigMu.Lock()
	si, ok := c32SigCache[k]
	c32SigMu.Unlock()
	if ok {
		return si, nil
	}
	c := c32Cert(who)
	var err error
	switch mode {
	case c32SigGood:
		si, err = pkigen.SignerInfo(raw, c.X, c.Key)
	case c32SigWrongKey:
		si, err = pkigen.SignerInfo(raw, c.X, pkigen.Key("c32/attacker"))
	case c32SigOtherPayload:
		other := append(append([]byte{}, raw...), 0)
		si, err = pkigen.SignerInfo(other, c.X, c.Key)
	}
	if err != nil {
		return si, err
	}
	c32SigMu.Lock()
	if len(c32SigCache) > 200000 {
		c32SigCache = map[c32Sigkey]protocol.SignerInfo{}
	}
	c32SigCache[k] = si
	c32SigMu.Unlock()
	return si, nil
}

func (s *c32Succ) payload() cppki.TRC {
	p := s.pred
	t := cppki.TRC{Version: 1, ID: cppki.TRCID{ISD: 1, Base: 1, Serial: 3}, Validity: c32SuccVal, GracePeriod: 30 * time.Minute,
		Votes: append([]int{}, s.votes...), Quorum: s.newQuorum(), CoreASes: append([]addr.AS{}, p.cores...),
		AuthoritativeASes: append([]addr.AS{}, p.auths...), Description: "succ"}
	switch s.hdr {
	case c32HdrSameSerial:
		t.ID.Serial = 2
	case c32HdrSerialPlus2:
		t.ID.Serial = 4
	case c32HdrBaseChanged:
		t.ID.Base = 2
	case c32HdrIsBase:
		t.ID.Base, t.ID.Serial = 3, 3
		t.GracePeriod, t.Votes = 0, nil
	case c32HdrNTR:
		t.NoTrustReset = true
	case c32HdrISD:
		t.ID.ISD = 2
	case c32HdrInvalidPayload:
		t.Description = "invalid: empty authoritative AS list"
		t.AuthoritativeASes = nil
	}
	c32Policies[s.policy].apply(&t)
	for _, r := range s.certs() {
		t.Certificates = append(t.Certificates, c32Cert(r).X)
	}
	return t
}

type c32Runner struct {
	r         *mc.Run
	evals     atomic.Int64
	either    sync.Map // reason -> *[2]int64 (accepted, rejected)
	reasonsMu sync.Mutex
	reasons   map[string]int64
}

func (cr *c32Runner) judge(s *c32Succ, inMemory bool) {
	r := cr.r
	verdict, reason := c32Spec(s)
	t := s.payload()
	raw, err := pkigen.EncodePayload(t)
	if err != nil {
		r.HarnessError("encoding payload: %v", err)
		return
	}
	infos := make([]protocol.SignerInfo, 0, len(s.sigs))
	for _, sg := range s.sigs {
		si, err := c32SignerInfo(raw, sg.who, sg.mode)
		if err != nil {
			r.HarnessError("signing: %v (%v)", err, s)
			return
		}
		infos = append(infos, si)
	}
	var pred *cppki.TRC
	if s.hdr != c32HdrNilPred {
		pred = &s.pred.signed.TRC
	}
	var verr error
	var signed cppki.SignedTRC
	var der []byte
	var derr error
	if inMemory {
		// the bulk of vote lists: Verify on the in-memory form (payload fields + Raw + signer infos), which is what
		// DecodeSignedTRC yields for it (C33 checks that decoding an encoding is the identity)
		t.Raw = raw
		signed = cppki.SignedTRC{TRC: t, SignerInfos: infos}
	} else {
		if der, err = pkigen.Assemble(raw, infos); err != nil {
			r.HarnessError("assembling: %v", err)
			return
		}
		signed, derr = cppki.DecodeSignedTRC(der)
	}
	payloadInvalid := s.hdr == c32HdrInvalidPayload || strings.HasPrefix(reason, "payload-invalid")
	if derr != nil {
		if !payloadInvalid {
			r.HarnessError("generated signed TRC does not decode: %v (%v)", derr, s)
			return
		}
		// the receiver cannot even parse it; additionally make sure Verify on the in-memory form refuses it
		t.Raw = raw
		signed = cppki.SignedTRC{Raw: der, TRC: t, SignerInfos: infos}
	} else if payloadInvalid && !inMemory {
		if strings.HasPrefix(reason, "payload-invalid:duplicate-subject") {
			// DecodeSignedTRC does not refuse it; what matters is whether Verify accepts it as (successor) TRC
			var verr error
			if pn := mc.Safely(func() { verr = signed.Verify(pred) }); pn != nil {
				r.Violation("panic:"+reason, map[string]any{"case": s.String(), "panic": fmt.Sprint(pn)})
				return
			}
			if verr == nil {
				r.Violation("accepted:"+reason, map[string]any{"case": s.String(), "edits": c32EditClass(s), "spec": "must be rejected: " + reason + " (decoded and verified)"})
			} else {
				r.Violation("decoded:"+reason, map[string]any{"case": s.String(), "edits": c32EditClass(s), "spec": "DecodeSignedTRC yields a TRC whose payload is invalid: " + reason})
			}
			return
		}
		r.Violation("accepted:invalid-payload-decoded", map[string]any{"case": s.String()})
		return
	}
	if pn := mc.Safely(func() { verr = signed.Verify(pred) }); pn != nil {
		r.Violation("panic:"+reason, map[string]any{"case": s.String(), "panic": fmt.Sprint(pn)})
		return
	}
	accepted := verr == nil
	cr.evals.Add(1)
	cr.reasonsMu.Lock()
	cr.reasons[[...]string{"reject:", "accept:", "either:"}[verdict]+reason]++
	cr.reasonsMu.Unlock()
	switch verdict {
	case c32Reject:
		if accepted {
			r.Violation("accepted:"+reason, map[string]any{"case": s.String(), "spec": "must be rejected: " + reason})
		}
		r.Outcome("rejected-as-required")
	case c32Accept:
		if !accepted {
			r.Violation("rejected-legitimate:"+reason+":policy-"+c32Policies[s.policy].key, map[string]any{"case": s.String(), "edits": c32EditClass(s), "error": verr.Error()})
		}
		r.Outcome("accepted:" + reason)
	case c32Either:
		if accepted {
			r.Outcome("unconstrained-accepted:" + reason)
		} else {
			r.Outcome("unconstrained-rejected:" + reason)
		}
	}
}

func c32EditClass(s *c32Succ) string {
	var k []string
	for _, e := range s.edits {
		k = append(k, fmt.Sprintf("%v-%v", e.kind, e.class))
	}
	sort.Strings(k)
	return strings.Join(k, "+") + "/" + c32PolNameOf(s.policy)
}

// everyone: every certificate that could conceivably be asked for signs correctly.
func c32Everyone(s *c32Succ) []c32Sig {
	var out []c32Sig
	seen := map[c32Ref]bool{}
	add := func(r c32Ref) {
		if !seen[r] {
			seen[r] = true
			out = append(out, c32Sig{r, c32SigGood})
		}
	}
	for _, r := range s.pred.slots {
		add(r)
	}
	for _, r := range s.certs() {
		add(r)
	}
	return out
}

// required signer set per the oracle's reading (votes + new voters + root acks for regular updates).
func c32Required(s *c32Succ) []c32Sig {
	var out []c32Sig
	seen := map[c32Ref]bool{}
	add := func(r c32Ref) {
		if !seen[r] {
			seen[r] = true
			out = append(out, c32Sig{r, c32SigGood})
		}
	}
	regular := false
	for _, v := range s.votes {
		if v >= 0 && v < len(s.pred.slots) {
			add(s.pred.slots[v])
			if s.pred.slots[v].class == c32R {
				regular = true
			}
		}
	}
	for _, c := range s.certs() {
		if c.class != c32Rt && (c.gen != 0 || c.idx >= 3) {
			add(c)
		}
	}
	if regular {
		for _, e := range s.edits {
			if e.class == c32Rt && (e.kind == c32Repl || e.kind == c32ReplKey || e.kind == c32Twin || e.kind == c32TwinSwap) {
				add(c32Ref{class: c32Rt, idx: e.idx, isd: 1})
			}
		}
	}
	return out
}

func c32VoteLists(n, maxLen int, selected bool) [][]int {
	alphabet := []int{-1}
	for i := 0; i <= n; i++ { // n itself = first out-of-range index
		alphabet = append(alphabet, i)
	}
	out := [][]int{{}}
	var rec func(cur []int)
	rec = func(cur []int) {
		if len(cur) > 0 {
			out = append(out, append([]int{}, cur...))
		}
		if len(cur) == maxLen {
			return
		}
		for _, a := range alphabet {
			rec(append(cur, a))
		}
	}
	rec(nil)
	return out
}

func c32EditSets(thorough bool) [][]c32Edit {
	var atoms []c32Edit
	for _, cl := range []c32Class{c32S, c32R, c32Rt} {
		n := 3
		if cl == c32Rt {
			n = 2
		}
		for i := 0; i < n; i++ {
			if !thorough && cl != c32R && i > 0 {
				continue
			}
			atoms = append(atoms, c32Edit{c32Repl, cl, i}, c32Edit{c32Swap, cl, i}, c32Edit{c32Del, cl, i})
			if i == 0 || cl == c32R {
				atoms = append(atoms, c32Edit{c32ReplKey, cl, i})
			}
		}
		atoms = append(atoms, c32Edit{c32Add, cl, 0})
	}
	sets := [][]c32Edit{{}}
	for _, a := range atoms {
		sets = append(sets, []c32Edit{a})
	}
	// two certificates of one class with the same subject distinguished name (each class in turn): a twin appended
	// next to the original, the neighbour replaced by a twin (count unchanged), both holders of the subject new
	// (original renewed + twin), twin appended while the neighbour is removed, and twins next to unrelated edits.
	// Kept out of the generic pair product (the verdict is decided by the duplicate alone).
	for _, cl := range []c32Class{c32S, c32R, c32Rt} {
		n := 3
		if cl == c32Rt {
			n = 2
		}
		for i := 0; i < n; i++ {
			if !thorough && i > 0 {
				continue
			}
			sets = append(sets,
				[]c32Edit{{c32Twin, cl, i}},
				[]c32Edit{{c32TwinSwap, cl, i}},
				[]c32Edit{{c32Repl, cl, i}, {c32TwinSwap, cl, i}},
				[]c32Edit{{c32ReplKey, cl, i}, {c32Twin, cl, i}},
				[]c32Edit{{c32Twin, cl, i}, {c32Del, cl, (i + 1) % n}},
			)
		}
	}
	sets = append(sets,
		[]c32Edit{{c32Repl, c32R, 1}, {c32TwinSwap, c32Rt, 0}},
		[]c32Edit{{c32TwinSwap, c32Rt, 1}, {c32Repl, c32R, 0}},
		[]c32Edit{{c32Add, c32S, 0}, {c32TwinSwap, c32R, 1}},
	)
	pairOK := func(a, b c32Edit) bool {
		return !(a.class == b.class && a.idx == b.idx && a.kind != c32Add && b.kind != c32Add)
	}
	if thorough {
		for i, a := range atoms {
			for _, b := range atoms[i+1:] {
				if pairOK(a, b) {
					sets = append(sets, []c32Edit{a, b})
				}
			}
		}
	} else {
		// partially replaced sets that matter most for regular updates
		sets = append(sets,
			[]c32Edit{{c32Repl, c32R, 0}, {c32Repl, c32R, 1}},
			[]c32Edit{{c32Repl, c32R, 0}, {c32Repl, c32R, 2}},
			[]c32Edit{{c32Repl, c32R, 1}, {c32Repl, c32Rt, 0}},
			[]c32Edit{{c32Repl, c32Rt, 0}, {c32Repl, c32Rt, 1}},
			[]c32Edit{{c32Repl, c32R, 0}, {c32Add, c32S, 0}},
			[]c32Edit{{c32Repl, c32R, 2}, {c32Swap, c32Rt, 0}},
		)
	}
	return sets
}

func TestC32(t *testing.T) {
	r := mc.NewRun(t, "C32", mc.Exploration)
	r.Rule = "predecessor = 3 sensitive + 3 regular voters + 2 roots in 2 index layouts x quorum {1,2}; successor = certificate-set edit " +
		"(none; per certificate: replaced with new key / same key, swapped for a fresh subject, removed; per class: added; quick: selected pairs, " +
		"thorough: all pairs in the first layout with vote lists up to length 2) x policy edit {none, quorum, core, auth, core reordered} x every vote list over {-1, 0..7, 8} up to length 2 (thorough 3) " +
		"plus all duplicate-free single-class lists of length 3, signed by every predecessor and successor certificate; every vote list the spec " +
		"could accept is additionally run with exactly the required signer set, each required signature missing, made with a foreign key, or made " +
		"over another payload, and with one superfluous signer; header edits (serial, base, ISD with a full ISD-2 certificate set, noTrustReset, " +
		"invalid payload, nil predecessor, base TRC with predecessor) x representative updates; successors whose certificate ORDER differs from the " +
		"predecessor's (reversed, rotations, every exchange of two positions) x every certificate-set edit x every duplicate-free single-class vote list; " +
		"core and authoritative AS lists (3 entries each) with an entry removed / replaced / inserted at every position, two trailing entries removed, " +
		"reordered, x every certificate-set edit x every duplicate-free single-class vote list; " +
		" base TRCs with each voter signature missing/forged. " +
		"distinct key = the full symbolic description; non-trivial = anything but the unedited full-signer case"
	cr := &c32Runner{r: r, reasons: map[string]int64{}}
	var preds []*c32Pred
	for layout := 0; layout < 2; layout++ {
		for q := 1; q <= 2; q++ {
			p, err := c32MakePred(layout, q)
			if err != nil {
				t.Fatalf("HARNESS-ERROR building predecessor: %v", err)
			}
			if err := p.signed.Verify(nil); err == nil {
				t.Fatalf("HARNESS-ERROR predecessor (a non-base TRC) verified without predecessor")
			}
			preds = append(preds, p)
		}
	}
	editSets := c32EditSets(mc.Thorough())
	voteLists := c32VoteLists(8, mc.Pick(2, 3), true)
	voteLists2 := c32VoteLists(8, 2, true)
	// all duplicate-free single-class vote lists of length 3 (needed for quorum 2 with a spare vote)
	perm3 := [][]int{{0, 1, 2}, {0, 2, 1}, {1, 0, 2}, {1, 2, 0}, {2, 0, 1}, {2, 1, 0}}

	type job struct {
		pred   *c32Pred
		edits  []c32Edit
		policy int
	}
	var jobs []job
	for _, p := range preds {
		for _, es := range editSets {
			for pol := 0; pol < c32NPol; pol++ {
				if !mc.Thorough() {
					// quick: second layout only with quorum 2, regular-voter edits, policy {none, quorum};
					// first layout: auth / core-reordered policy edits only without certificate edits
					if p.layout == 1 && (p.quorum != 2 || len(es) > 1 || (len(es) == 1 && es[0].class != c32R) || pol > c32PolQuorum) {
						continue
					}
					if p.layout == 0 && len(es) > 0 && pol > c32PolCore {
						continue
					}
				}
				if mc.Thorough() && len(es) > 1 && p.layout == 1 {
					continue // thorough: pairs of certificate edits in the first layout only
				}
				jobs = append(jobs, job{p, es, pol})
			}
		}
	}
	var capped atomic.Bool
	mc.ParallelFor(len(jobs), func(ji int) {
		if r.OutOfBudget() {
			capped.Store(true)
			return
		}
		j := jobs[ji]
		lists := voteLists
		if mc.Thorough() && len(j.edits) > 1 {
			lists = voteLists2 // pairs of edits: vote lists up to length 2 plus the duplicate-free triples
		}
		if !mc.Thorough() || len(j.edits) > 1 {
			lists = append([][]int{}, lists...)
			for _, cl := range []c32Class{c32S, c32R} {
				for _, pm := range perm3 {
					lists = append(lists, []int{j.pred.pos(cl, pm[0]), j.pred.pos(cl, pm[1]), j.pred.pos(cl, pm[2])})
				}
			}
		}
		for _, votes := range lists {
			s := &c32Succ{pred: j.pred, edits: j.edits, policy: j.policy, votes: votes}
			s.sigs = c32Everyone(s)
			cr.judge(s, true)
			r.Case(s.String(), len(j.edits) > 0 || j.policy != 0 || len(votes) > 0)
			// would the spec accept it with the right signatures? then explore the signer sets
			req := c32Required(s)
			s2 := *s
			s2.sigs = req
			if v, _ := c32Spec(&s2); v == c32Reject {
				continue
			}
			if !mc.Thorough() && !sort.IntsAreSorted(votes) {
				// quick: signer-set variants only for ascending vote lists; the other orders run with the exact required set
				cr.judge(&s2, false)
				r.Case(s2.String(), true)
				continue
			}
			variants := [][]c32Sig{req}
			for i := range req {
				miss := append(append([]c32Sig{}, req[:i]...), req[i+1:]...)
				variants = append(variants, miss)
				for _, mode := range []int{c32SigWrongKey, c32SigOtherPayload} {
					w := append([]c32Sig{}, req...)
					w[i].mode = mode
					variants = append(variants, w)
				}
			}
			// superfluous signers: an unrelated root, and a sensitive voter that did not vote
			variants = append(variants, append(append([]c32Sig{}, req...), c32Sig{c32Ref{class: c32Rt, idx: 1, isd: 1}, c32SigGood}))
			variants = append(variants, append(append([]c32Sig{}, req...), c32Sig{c32Ref{class: c32S, idx: 2, isd: 1}, c32SigWrongKey}))
			// reversed signer order
			rev := append([]c32Sig{}, req...)
			for a, b := 0, len(rev)-1; a < b; a, b = a+1, b-1 {
				rev[a], rev[b] = rev[b], rev[a]
			}
			variants = append(variants, rev)
			for _, sg := range variants {
				sv := *s
				sv.sigs = sg
				cr.judge(&sv, false)
				r.Case(sv.String(), true)
			}
		}
	})
	if capped.Load() {
		r.Capped("budget reached before all (predecessor, edit set, policy) blocks were evaluated")
	}
	// reordered successors: the successor lists its certificates in another order than the predecessor (reversed,
	// rotated, any two positions exchanged), combined with every certificate-set edit. Only the index space of the
	// votes (predecessor) must matter. Vote lists: every duplicate-free single-class list (the only ones that can be
	// accepted), with exactly the required signer set and with every certificate signing.
	{
		type ojob struct {
			pred   *c32Pred
			edits  []c32Edit
			policy int
			order  c32Order
		}
		var ojobs []ojob
		orders := c32Orders(10, mc.Thorough())
		for _, p := range preds {
			if !mc.Thorough() && p.layout == 1 {
				continue
			}
			for _, es := range editSets {
				if mc.Thorough() && len(es) > 1 && p.layout == 1 {
					continue
				}
				for _, pol := range []int{c32PolNone, c32PolQuorum} {
					if !mc.Thorough() && pol != c32PolNone {
						continue
					}
					if len(es) > 1 && pol != c32PolNone {
						continue
					}
					for _, o := range orders {
						s := &c32Succ{pred: p, edits: es}
						if o.applies(len(s.certs())) {
							ojobs = append(ojobs, ojob{p, es, pol, o})
						}
					}
				}
			}
		}
		r.Extra["reordered_blocks"] = len(ojobs)
		// core / authoritative AS list edits at every position (removal, replacement, insertion, two trailing entries
		// removed, reorderings) x every certificate-set edit, successor in predecessor order
		nOrder := len(ojobs)
		for _, p := range preds {
			if !mc.Thorough() && p.layout == 1 {
				continue
			}
			for _, es := range editSets {
				if len(es) > 1 && (!mc.Thorough() || p.layout == 1) {
					continue
				}
				for pol := c32PolCore; pol < len(c32Policies); pol++ {
					ojobs = append(ojobs, ojob{p, es, pol, c32Order{}})
				}
			}
		}
		r.Extra["as_list_policy_blocks"] = len(ojobs) - nOrder
		r.Extra["policies"] = len(c32Policies)
		r.Extra["orders"] = len(orders)
		mc.ParallelFor(len(ojobs), func(ji int) {
			if r.OutOfBudget() {
				capped.Store(true)
				return
			}
			j := ojobs[ji]
			for _, cl := range []c32Class{c32S, c32R} {
				var lists [][]int
				for a := 0; a < 3; a++ {
					lists = append(lists, []int{a})
					for b := 0; b < 3; b++ {
						if b == a {
							continue
						}
						lists = append(lists, []int{a, b})
						for c := 0; c < 3; c++ {
							if c != a && c != b {
								lists = append(lists, []int{a, b, c})
							}
						}
					}
				}
				for _, l := range lists {
					votes := make([]int, len(l))
					for i, x := range l {
						votes[i] = j.pred.pos(cl, x)
					}
					if (!mc.Thorough() || len(j.edits) > 1) && !sort.IntsAreSorted(l) {
						continue // quick (and pairs of edits): one vote order per set of voters
					}
					s := &c32Succ{pred: j.pred, edits: j.edits, policy: j.policy, order: j.order, votes: votes}
					s.sigs = c32Required(s)
					cr.judge(s, false)
					r.Case(s.String(), true)
					if mc.Thorough() && len(j.edits) <= 1 {
						s2 := *s
						s2.sigs = c32Everyone(&s2)
						cr.judge(&s2, true)
						r.Case(s2.String(), true)
					}
				}
			}
		})
		if capped.Load() {
			r.Capped("budget reached before all reordered blocks were evaluated")
		}
	}
	// header edits x representative updates
	for _, p := range preds {
		reps := []c32Succ{
			{pred: p, votes: []int{p.pos(c32R, 0), p.pos(c32R, 1)}},
			{pred: p, votes: []int{p.pos(c32S, 0), p.pos(c32S, 2)}},
			{pred: p, votes: []int{p.pos(c32R, 0), p.pos(c32R, 1), p.pos(c32R, 2)}, edits: []c32Edit{{c32Repl, c32R, 1}, {c32Repl, c32Rt, 0}}},
			{pred: p, votes: []int{p.pos(c32S, 0), p.pos(c32S, 1), p.pos(c32S, 2)}, edits: []c32Edit{{c32Add, c32R, 0}}, policy: c32PolQuorum},
		}
		for _, rep := range reps {
			for hdr := 0; hdr < c32NHdr; hdr++ {
				for _, full := range []bool{false, true} {
					s := rep
					s.hdr = hdr
					if full {
						s.sigs = c32Everyone(&s)
					} else {
						s.sigs = c32Required(&s)
					}
					cr.judge(&s, false)
					r.Case(s.String(), true)
				}
			}
		}
	}
	c32Base(cr)

	reasons := map[string]int64{}
	for k, v := range cr.reasons {
		reasons[k] = v
	}
	r.Extra["cases_per_spec_reason"] = reasons
	r.Extra["blocks"] = len(jobs)
	r.Extra["vote_lists_per_block"] = len(voteLists)
	r.Extra["edit_sets"] = len(editSets)
	r.Sample(map[string]any{"case": "layout0-q2 edits=[repl:R1 repl:Rt0] votes=[3 4] sigs=required minus old Rt0", "spec": "reject: regular:root-acknowledgment-signature-missing"})
	r.Sample(map[string]any{"case": "layout1-q2 pol=quorum votes=[2] (one sensitive vote, new quorum 1)", "spec": "reject: sensitive:distinct-votes-below-quorum"})
	r.Sample(map[string]any{"case": "layout0-q1 edits=[swap:R2] votes=[5]", "spec": "reject: regular:swap-R (count unchanged, subject new)"})
	r.Assumptions = []string{
		"the statement is a necessary condition; acceptance is demanded only for updates that satisfy every condition, have duplicate-free votes and carry exactly the required signatures",
		"unconstrained (either verdict): duplicate votes whose distinct voters still reach the quorum, superfluous signer infos, core ASes merely reordered in a regular update",
		"'newly introduced voting certificate' = a sensitive/regular certificate of the successor that is not byte-identical to a predecessor certificate",
		"an ISD change is exercised with a complete ISD-2 certificate set so that the payload itself stays valid",
	}
	r.Finish(6)
}

// c32Base: a base TRC is accepted only if valid and signed by all its voting certificates.
func c32Base(cr *c32Runner) {
	r := cr.r
	for _, n := range []int{1, 2, 3} {
		var voters []c32Ref
		for i := 0; i < n; i++ {
			voters = append(voters, c32Ref{class: c32S, idx: i, isd: 1})
		}
		for i := 0; i < n; i++ {
			voters = append(voters, c32Ref{class: c32R, idx: i, isd: 1})
		}
		all := append(append([]c32Ref{}, voters...), c32Ref{class: c32Rt, idx: 0, isd: 1})
		mk := func(valid bool, extra ...c32Ref) cppki.TRC {
			t := cppki.TRC{Version: 1, ID: cppki.TRCID{ISD: 1, Base: 1, Serial: 1}, Validity: c32PredVal, Quorum: n,
				CoreASes: []addr.AS{0xff00_0000_0110}, AuthoritativeASes: []addr.AS{0xff00_0000_0110}, Description: "base"}
			if !valid {
				t.Quorum = n + 1
			}
			certs := append([]c32Ref{}, all...)
			for _, x := range extra {
				if x.idx < 0 { // marker: drop the last certificate of that class before appending the rest
					for i := len(certs) - 1; i >= 0; i-- {
						if certs[i].class == x.class {
							certs = append(certs[:i], certs[i+1:]...)
							break
						}
					}
					continue
				}
				certs = append(certs, x)
			}
			for _, c := range certs {
				t.Certificates = append(t.Certificates, c32Cert(c).X)
			}
			return t
		}
		type variant struct {
			name   string
			sigs   []c32Sig
			valid  bool
			pred   bool
			accept bool
			extra  []c32Ref
		}
		full := func() []c32Sig {
			var s []c32Sig
			for _, v := range voters {
				s = append(s, c32Sig{v, c32SigGood})
			}
			return s
		}
		vs := []variant{{"all-voters", full(), true, false, true, nil}, {"all-voters-with-predecessor", full(), true, true, false, nil},
			{"all-voters-invalid-payload", full(), false, false, false, nil}, {"no-signatures", nil, true, false, false, nil}}
		// two certificates of one class with the same subject distinguished name (trc.rst: per category every
		// distinguished name MUST be unique): a twin next to the first certificate of the class, appended or in place of
		// the last certificate of the class; every voting certificate of the list (twin included) signs
		for _, cl := range []c32Class{c32S, c32R, c32Rt} {
			twin := c32Ref{class: cl, idx: 0, gen: 3, isd: 1}
			for _, inPlace := range []bool{false, true} {
				if inPlace && (cl == c32Rt || n < 2) {
					continue
				}
				var sg []c32Sig
				for _, v := range voters {
					if inPlace && v.class == cl && v.idx == n-1 {
						continue // the dropped certificate does not sign
					}
					sg = append(sg, c32Sig{v, c32SigGood})
				}
				if cl != c32Rt {
					sg = append(sg, c32Sig{twin, c32SigGood})
				}
				ex := []c32Ref{twin}
				if inPlace {
					ex = []c32Ref{{class: cl, idx: -1}, twin}
				}
				vs = append(vs, variant{"duplicate-subject-" + cl.String(), sg, false, false, false, ex})
			}
		}
		for i := range voters {
			m := full()
			vs = append(vs, variant{"missing-voter-signature", append(m[:i:i], m[i+1:]...), true, false, false, nil})
			for _, mode := range []int{c32SigWrongKey, c32SigOtherPayload} {
				w := full()
				w[i].mode = mode
				vs = append(vs, variant{"forged-voter-signature", w, true, false, false, nil})
			}
		}
		for _, v := range vs {
			t := mk(v.valid || v.extra != nil, v.extra...)
			raw, _ := pkigen.EncodePayload(t)
			var infos []protocol.SignerInfo
			for _, sg := range v.sigs {
				si, err := c32SignerInfo(raw, sg.who, sg.mode)
				if err != nil {
					r.HarnessError("base signing: %v", err)
					return
				}
				infos = append(infos, si)
			}
			der, _ := pkigen.Assemble(raw, infos)
			signed, err := cppki.DecodeSignedTRC(der)
			if err != nil {
				if v.valid {
					r.HarnessError("base TRC does not decode: %v", err)
					return
				}
				t.Raw = raw
				signed = cppki.SignedTRC{Raw: der, TRC: t, SignerInfos: infos}
			}
			var pred *cppki.TRC
			if v.pred {
				pred = &signed.TRC
			}
			var verr error
			if pn := mc.Safely(func() { verr = signed.Verify(pred) }); pn != nil {
				r.Violation("panic:base:"+v.name, fmt.Sprint(pn))
				continue
			}
			r.Case(fmt.Sprintf("base n=%d %s %v", n, v.name, v.sigs), true)
			if (verr == nil) != v.accept {
				k := "accepted:base:" + v.name
				if v.accept {
					k = "rejected-legitimate:base:" + v.name
				}
				r.Violation(k, map[string]any{"voters_per_class": n, "variant": v.name, "verify_error": fmt.Sprint(verr)})
			}
			if verr == nil {
				r.Outcome("accepted:base")
			} else {
				r.Outcome("rejected-as-required")
			}
		}
	}
}
