package pki

import (
	"bytes"
	"context"
	"crypto"
	"crypto/elliptic"
	"crypto/x509"
	"fmt"
	"net"
	"sort"
	"sync/atomic"
	"testing"
	"testing/synctest"
	"time"

	"github.com/patrickmn/go-cache"
	"google.golang.org/protobuf/proto"

	"github.com/scionproto/scion/pkg/addr"
	cppb "github.com/scionproto/scion/pkg/proto/control_plane"
	cryptopb "github.com/scionproto/scion/pkg/proto/crypto"
	"github.com/scionproto/scion/pkg/scrypto/cppki"
	"github.com/scionproto/scion/private/storage/db"
	"github.com/scionproto/scion/private/storage/trust/sqlite"
	"github.com/scionproto/scion/private/trust"

	"verif/mc"
	"verif/pkigen"
)

// C36: signers are backed by a currently verifiable chain and expire in time.
//
// Per case a fresh real sqlite trust DB is filled with a TRC timeline (base TRC, optionally a sensitive update that
// swaps one root certificate, with a grace period) and a set of certificate chains for the keys of a key ring; the real
// SignerGen.Generate runs against it inside its own synctest bubble (clock frozen at 2000-01-01T00:00:00Z = T0, all
// windows are placed relative to T0), the signers are compared with a reference selection written from the statement,
// messages are signed and verified through the real trust.Verifier + FetchingProvider on the same DB, then the bubble
// clock is advanced past each signer's expiry and Sign must fail.
//
// Roots: "keep" is in both TRCs, "old" only in the predecessor, "new" only in the update, "rogue" in none.

var c36T0 = time.Date(2000, 1, 1, 0, 0, 0, 0, time.UTC)

type c36Timeline struct {
	name    string
	base    [2]time.Duration // validity of TRC serial 1 relative to T0
	update  *[2]time.Duration
	grace   time.Duration
	built   []cppki.SignedTRC
	comment string
}

type c36Chain struct {
	name   string
	ca     string
	nb, na time.Duration
	key    string
	cert   *pkigen.Cert
	chain  []*x509.Certificate
}

type c36Signed struct {
	msg  *cryptopb.SignedMessage
	ok   bool
	skid string
}

type c36Ring []crypto.Signer

func (r c36Ring) PrivateKeys(context.Context) ([]crypto.Signer, error) { return r, nil }

var c36DBCtr atomic.Int64

func TestC36(t *testing.T) {
	r := mc.NewRun(t, "C36", mc.Exploration)
	r.Rule = "TRC timelines (base only; base expired; update in grace / grace over / predecessor expired in grace / predecessor " +
		"ending before the grace end / grace end beyond the update's own validity / update expired / update not yet valid) x key " +
		"rings (one key; two keys, the second with no / a kept-root / an old-root chain) x every set of <=2 (quick) or <=3 " +
		"(thorough) chains for the first key drawn from {kept, old, new, rogue root} x NotAfter {+30m, +3d(, +30d)}, per root an old " +
		"long-lived chain [-100d,+2h] and a renewed one [-1h,+1d] (NotBefore varies independently of NotAfter), plus an expired " +
		"and a not-yet-valid one; one case = one Generate call (plus Sign/Verify/expiry probes of every signer it returns, the " +
		"verification key id of every signature, and a second verifier that starts one TRC behind and must catch up) on a " +
		"fresh DB; non-trivial = all (pairwise different configurations)"
	ia := addr.MustIAFrom(1, 0xff0000000110)
	core := addr.MustIAFrom(1, 0xff0000000001)
	T0 := c36T0
	long := cppki.Validity{NotBefore: T0.Add(-400 * 24 * time.Hour), NotAfter: T0.Add(400 * 24 * time.Hour)}
	caVal := cppki.Validity{NotBefore: T0.Add(-300 * 24 * time.Hour), NotAfter: T0.Add(300 * 24 * time.Hour)}
	roots := map[string]*pkigen.Cert{}
	cas := map[string]*pkigen.Cert{}
	for _, n := range []string{"keep", "old", "new", "rogue"} {
		roots[n] = pkigen.Root(core, "c36-root-"+n, long)
		cas[n] = pkigen.CA(roots[n], core, "c36-ca-"+n, caVal)
	}
	sens := pkigen.Sensitive(core, "c36-sensitive", long)
	reg := pkigen.Regular(core, "c36-regular", long)
	inTRC := map[int]map[string]bool{1: {"keep": true, "old": true}, 2: {"keep": true, "new": true}}

	d, h, m := 24*time.Hour, time.Hour, time.Minute
	upd := func(a, b time.Duration) *[2]time.Duration { return &[2]time.Duration{a, b} }
	timelines := []*c36Timeline{
		{name: "base-only", base: [2]time.Duration{-10 * d, 10 * d}},
		{name: "base-expired", base: [2]time.Duration{-10 * d, -h}},
		{name: "base-ends-soon", base: [2]time.Duration{-10 * d, 2 * h}},
		{name: "update-in-grace", base: [2]time.Duration{-10 * d, 10 * d}, update: upd(-h, 5*d), grace: 2 * h},
		{name: "update-grace-over", base: [2]time.Duration{-10 * d, 10 * d}, update: upd(-h, 5*d), grace: 30 * m},
		{name: "update-no-grace", base: [2]time.Duration{-10 * d, 10 * d}, update: upd(-h, 5*d), grace: 0},
		{name: "grace-predecessor-expired", base: [2]time.Duration{-10 * d, -30 * m}, update: upd(-h, 5*d), grace: 2 * h},
		{name: "grace-predecessor-ends-first", base: [2]time.Duration{-10 * d, 20 * m}, update: upd(-h, 5*d), grace: 2 * h},
		{name: "grace-outlasts-update", base: [2]time.Duration{-10 * d, 10 * d}, update: upd(-h, 20*m), grace: 2 * h,
			comment: "grace end (+1h) lies after the update's own NotAfter (+20m)"},
		{name: "update-ends-soon", base: [2]time.Duration{-10 * d, 10 * d}, update: upd(-3*h, 2*h), grace: h},
		{name: "update-expired", base: [2]time.Duration{-10 * d, 10 * d}, update: upd(-2*h, -m), grace: 3 * h},
		{name: "update-not-yet-valid", base: [2]time.Duration{-10 * d, 10 * d}, update: upd(h, 5*d), grace: 2 * h},
	}
	for _, tl := range timelines {
		base := cppki.TRC{Version: 1, ID: cppki.TRCID{ISD: 1, Base: 1, Serial: 1},
			Validity: cppki.Validity{NotBefore: T0.Add(tl.base[0]), NotAfter: T0.Add(tl.base[1])}, Quorum: 1,
			CoreASes: []addr.AS{core.AS()}, AuthoritativeASes: []addr.AS{core.AS()}, Description: "c36 base",
			Certificates: pkigen.Certs(sens, reg, roots["keep"], roots["old"])}
		sb, err := pkigen.Sign(base, sens, reg)
		if err != nil {
			t.Fatalf("HARNESS-ERROR base TRC: %v", err)
		}
		if err := sb.Verify(nil); err != nil {
			t.Fatalf("HARNESS-ERROR base TRC %s does not verify: %v", tl.name, err)
		}
		tl.built = []cppki.SignedTRC{sb}
		if tl.update != nil {
			u := base
			u.ID.Serial = 2
			u.Validity = cppki.Validity{NotBefore: T0.Add(tl.update[0]), NotAfter: T0.Add(tl.update[1])}
			u.GracePeriod = tl.grace
			u.Votes = []int{0}
			u.Description = "c36 sensitive update: root old -> new"
			u.Certificates = pkigen.Certs(sens, reg, roots["keep"], roots["new"])
			su, err := pkigen.Sign(u, sens, roots["new"])
			if err != nil {
				t.Fatalf("HARNESS-ERROR update TRC: %v", err)
			}
			if err := su.Verify(&sb.TRC); err != nil {
				// fall back: also let the regular voter sign
				if su, err = pkigen.Sign(u, sens, reg, roots["new"]); err != nil || su.Verify(&sb.TRC) != nil {
					t.Fatalf("HARNESS-ERROR update TRC %s does not verify against the base: %v", tl.name, err)
				}
			}
			tl.built = append(tl.built, su)
		}
	}

	// chain alphabet of key 1
	nas := mc.Pick([]time.Duration{30 * m, 3 * d}, []time.Duration{30 * m, 3 * d, 30 * d})
	var alphabet []*c36Chain
	mkChain := func(name, ca, key string, curve elliptic.Curve, nb, na time.Duration) *c36Chain {
		c := pkigen.Must(pkigen.Spec{Type: cppki.AS, IA: ia, CN: "c36-" + name, KeyName: "c36-" + key, Curve: curve,
			NotBefore: T0.Add(nb), NotAfter: T0.Add(na), Issuer: cas[ca]})
		return &c36Chain{name: name, ca: ca, nb: nb, na: na, key: key, cert: c, chain: pkigen.Chain(c, cas[ca])}
	}
	for _, ca := range []string{"keep", "old", "new", "rogue"} {
		for _, na := range nas {
			alphabet = append(alphabet, mkChain(fmt.Sprintf("%s%+v", ca, na), ca, "k1", elliptic.P256(), -d, na))
		}
	}
	// NotBefore varies independently of NotAfter: an old long-lived certificate that is about to expire and a freshly
	// renewed short-lived one (the validity LENGTH is not what makes a chain the latest-expiring one).
	for _, ca := range mc.Pick([]string{"keep", "old"}, []string{"keep", "old", "new"}) {
		alphabet = append(alphabet,
			mkChain(ca+"-old-long-lived-ends+2h", ca, "k1", elliptic.P256(), -100*d, 2*h),
			mkChain(ca+"-renewed-1h-ago-ends+1d", ca, "k1", elliptic.P256(), -h, d))
	}
	alphabet = append(alphabet,
		mkChain("keep-expired", "keep", "k1", elliptic.P256(), -d, -m),
		mkChain("keep-future", "keep", "k1", elliptic.P256(), m, 30*d))
	k2Chains := map[string]*c36Chain{
		"keep": mkChain("k2-keep+2d", "keep", "k2", elliptic.P384(), -d, 2*d),
		"old":  mkChain("k2-old+30m", "old", "k2", elliptic.P384(), -d, 30*m),
	}
	k1 := pkigen.Key("c36-k1")
	k2 := pkigen.KeyOn(elliptic.P384(), "c36-k2")
	kNone := pkigen.Key("c36-k-without-chain")
	var sets [][]*c36Chain
	maxSet := mc.Pick(2, 3)
	var rec func(start int, cur []*c36Chain)
	rec = func(start int, cur []*c36Chain) {
		sets = append(sets, append([]*c36Chain{}, cur...))
		if len(cur) == maxSet {
			return
		}
		for i := start; i < len(alphabet); i++ {
			rec(i+1, append(cur, alphabet[i]))
		}
	}
	rec(0, nil)
	type ringCfg struct {
		name string
		keys c36Ring
		k2   *c36Chain
	}
	rings := []ringCfg{
		{"k1", c36Ring{k1}, nil},
		{"k1+key-without-chain", c36Ring{kNone, k1}, nil},
		{"k1+k2(kept root)", c36Ring{k1, k2}, k2Chains["keep"]},
		{"k2(old root)+k1", c36Ring{k2, k1}, k2Chains["old"]},
	}

	nCase := 0
	for _, tl := range timelines {
		for _, ring := range rings {
			for _, set := range sets {
				if r.OutOfBudget() {
					r.Capped("internal budget reached")
					goto done
				}
				if !mc.Thorough() && ring.name == "k1+key-without-chain" && len(set) > 1 {
					continue // quick: the ring with an extra chain-less key only with chain sets of size <= 1
				}
				nCase++
				chains := append([]*c36Chain{}, set...)
				if ring.k2 != nil {
					chains = append(chains, ring.k2)
				}
				sample := nCase%1499 == 0
				synctest.Test(t, func(t *testing.T) { c36Case(r, ia, tl, ring.name, ring.keys, chains, inTRC, sample) })
			}
		}
	}
done:
	r.Extra["timelines"] = len(timelines)
	r.Extra["chain_sets_for_first_key"] = len(sets)
	r.Extra["key_rings"] = len(rings)
	r.Assumptions = []string{
		"'active TRC' = the TRC with the highest serial in the DB, provided its validity contains now; when it does not (expired / not yet valid) no signer may be produced from it: for 'expired' Generate must fail, for 'not yet valid' either failing or using nothing but verifiable material is accepted (recorded)",
		"in grace = update TRC present and now within [update.NotBefore, update.NotBefore+GracePeriod]",
		"among equally late-expiring admissible chains any may be used",
		"a signer whose expiry instant equals now is a boundary instant: Sign may succeed or fail; strictly after the expiry it must fail, strictly before it must succeed",
		"one signer per key of the ring that has an admissible chain; keys without one are skipped; Generate fails iff no key has one",
	}
	r.Finish(5)
}

func c36Case(r *mc.Run, ia addr.IA, tl *c36Timeline, ringName string, ring c36Ring, chains []*c36Chain,
	inTRC map[int]map[string]bool, sample bool) {

	ctx := context.Background()
	now := time.Now()
	var names []string
	for _, c := range chains {
		names = append(names, c.name)
	}
	name := fmt.Sprintf("timeline=%s ring=%s chains=%v", tl.name, ringName, names)
	if !now.Equal(c36T0) {
		r.HarnessError("bubble clock %v != T0", now)
		return
	}
	store, err := sqlite.New(fmt.Sprintf("c36-%d", c36DBCtr.Add(1)), &db.SqliteConfig{InMemory: true, MaxOpenReadConns: 2})
	if err != nil {
		r.HarnessError("db: %v", err)
		return
	}
	defer store.Close()
	for _, trc := range tl.built {
		if _, err := store.InsertTRC(ctx, trc); err != nil {
			r.HarnessError("insert TRC: %v", err)
			return
		}
	}
	for _, c := range chains {
		if _, err := store.InsertChain(ctx, c.chain); err != nil {
			r.HarnessError("insert chain: %v", err)
			return
		}
	}
	r.CaseBulk(1, 1)
	viol := func(key, detail string) { r.Violation(key, map[string]any{"case": name, "detail": detail}) }

	// ---- reference ----
	active := tl.built[len(tl.built)-1].TRC
	activeSerial := len(tl.built)
	activeValid := active.Validity.Contains(now)
	notYet := now.Before(active.Validity.NotBefore)
	inGrace := activeSerial == 2 && !now.Before(active.Validity.NotBefore) && !now.After(active.Validity.NotBefore.Add(active.GracePeriod))
	type want struct {
		maxNA   time.Time
		expiry  time.Time
		inGrace bool
		ok      map[*c36Chain]bool
	}
	expect := map[crypto.Signer]*want{}
	if activeValid {
		for _, key := range ring {
			var mine []*c36Chain
			for _, c := range chains {
				if c.cert.Key == key && !now.Before(c.cert.X.NotBefore) && !now.After(c.cert.X.NotAfter) {
					mine = append(mine, c)
				}
			}
			pick := func(serial int) *want {
				w := &want{ok: map[*c36Chain]bool{}}
				for _, c := range mine {
					if inTRC[serial][c.ca] && c.cert.X.NotAfter.After(w.maxNA) {
						w.maxNA = c.cert.X.NotAfter
					}
				}
				if w.maxNA.IsZero() {
					return nil
				}
				for _, c := range mine {
					if inTRC[serial][c.ca] && c.cert.X.NotAfter.Equal(w.maxNA) {
						w.ok[c] = true
					}
				}
				return w
			}
			earliest := func(ts ...time.Time) time.Time {
				e := ts[0]
				for _, x := range ts[1:] {
					if x.Before(e) {
						e = x
					}
				}
				return e
			}
			if w := pick(activeSerial); w != nil {
				w.expiry = earliest(w.maxNA, active.Validity.NotAfter)
				expect[key] = w
			} else if inGrace {
				if w := pick(1); w != nil {
					pred := tl.built[0].TRC
					w.inGrace = true
					w.expiry = earliest(w.maxNA, active.Validity.NotAfter, active.Validity.NotBefore.Add(active.GracePeriod), pred.Validity.NotAfter)
					expect[key] = w
				}
			}
		}
	}

	// ---- implementation ----
	gen := trust.SignerGen{IA: ia, KeyRing: ring, DB: store}
	var signers []trust.Signer
	var gerr error
	if p := mc.Safely(func() { signers, gerr = gen.Generate(ctx) }); p != nil {
		viol("panic-in-generate", fmt.Sprint(p))
		return
	}
	if notYet {
		// weak reading: nothing demanded except that whatever comes out is not backed by unverifiable material
		if gerr != nil {
			r.Outcome("latest-trc-not-yet-valid:refused")
		} else {
			r.Outcome("latest-trc-not-yet-valid:generated")
		}
		return
	}
	if gerr != nil {
		if len(expect) > 0 {
			viol("generate-failed", fmt.Sprintf("Generate failed (%v) although %d key(s) have an admissible chain", gerr, len(expect)))
			return
		}
		if !activeValid {
			r.Outcome("refused:no-active-trc")
		} else {
			r.Outcome("refused:no-admissible-chain")
		}
		return
	}
	if len(expect) == 0 {
		viol("signer-without-admissible-chain", fmt.Sprintf("Generate returned %d signer(s) although no key has a chain verifiable against the active TRC (or the predecessor in grace); active TRC valid now: %v",
			len(signers), activeValid))
		return
	}
	if len(signers) != len(expect) {
		viol("signer-count", fmt.Sprintf("%d signers for %d keys with admissible chains", len(signers), len(expect)))
	}
	seen := map[crypto.Signer]bool{}
	type probe struct {
		s   trust.Signer
		exp time.Time
	}
	var probes []probe
	ver := trust.Verifier{BoundIA: ia, Engine: trust.FetchingProvider{DB: store, Recurser: trust.NeverRecurser{}}}
	verOther := trust.Verifier{BoundIA: addr.MustIAFrom(1, 0xff0000000111), Engine: trust.FetchingProvider{DB: store, Recurser: trust.NeverRecurser{}}}
	for _, s := range signers {
		w := expect[s.PrivateKey]
		if w == nil || seen[s.PrivateKey] {
			viol("signer-for-key-without-admissible-chain", fmt.Sprintf("signer with subject key id %x", s.SubjectKeyID))
			continue
		}
		seen[s.PrivateKey] = true
		var used *c36Chain
		for _, c := range chains {
			if len(s.Chain) == 2 && s.Chain[0].Equal(c.cert.X) && s.Chain[1].Equal(c.chain[1]) {
				used = c
			}
		}
		if used == nil {
			viol("signer-chain-unknown", "the signer's chain is none of the chains in the DB")
			continue
		}
		if used.cert.Key != s.PrivateKey {
			viol("chain-does-not-authenticate-key", "chain "+used.name)
			continue
		}
		if !w.ok[used] {
			k := "not-latest-expiring-chain"
			if w.inGrace != (!inTRC[activeSerial][used.ca]) || !(inTRC[activeSerial][used.ca] || (inGrace && inTRC[1][used.ca])) {
				k = "chain-not-admissible"
			}
			viol(k, fmt.Sprintf("signer uses chain %s (NotAfter %v); reference admits %v", used.name, used.cert.X.NotAfter, c36Names(w.ok)))
			continue
		}
		if !s.Expiration.Equal(w.expiry) {
			k := "expiry-wrong"
			if s.Expiration.After(w.expiry) {
				// name the first bound that is exceeded, so that different causes have different finding keys
				graceEnd := active.Validity.NotBefore.Add(active.GracePeriod)
				switch {
				case s.Expiration.After(used.cert.X.NotAfter):
					k = "expiry-exceeds-chain"
				case !w.inGrace:
					k = "expiry-exceeds-active-trc"
				case s.Expiration.After(graceEnd):
					k = "expiry-exceeds-grace-end"
				case s.Expiration.After(tl.built[0].TRC.Validity.NotAfter):
					k = "expiry-exceeds-predecessor-validity"
				default:
					k = "expiry-exceeds-active-trc-in-grace"
				}
			}
			viol(k, fmt.Sprintf("signer (chain %s, in grace %v) expires %v, reference %v (chain NotAfter %v, active TRC NotAfter %v, grace end %v, predecessor NotAfter %v)",
				used.name, w.inGrace, s.Expiration, w.expiry, used.cert.X.NotAfter, active.Validity.NotAfter,
				active.Validity.NotBefore.Add(active.GracePeriod), tl.built[0].TRC.Validity.NotAfter))
		}
		if s.InGrace != w.inGrace {
			viol("in-grace-flag-wrong", fmt.Sprintf("InGrace=%v, reference %v", s.InGrace, w.inGrace))
		}
		if !s.IA.Equal(ia) {
			viol("signer-ia-wrong", s.IA.String())
		}
		probes = append(probes, probe{s, s.Expiration})
		if w.inGrace {
			r.Outcome("signer:grace-chain")
		} else if s.Expiration.Before(used.cert.X.NotAfter) {
			r.Outcome("signer:expiry-cut-by-trc")
		} else {
			r.Outcome("signer:active-chain")
		}
	}
	// ---- sign / verify now ----
	var signedNow []c36Signed
	var lagDB *sqlite.DB
	var lagFetcher *c36Fetcher
	body := []byte("c36 message")
	ad := [][]byte{[]byte("associated"), []byte("data")}
	for _, p := range probes {
		msg, err := p.s.Sign(ctx, body, ad...)
		r.CaseBulk(1, 1)
		switch {
		case p.exp.Before(now):
			if err == nil {
				viol("expired-signer-signs", fmt.Sprintf("signer expired at %v signs at %v", p.exp, now))
			} else {
				r.Outcome("sign:refused-already-expired")
			}
			continue
		case p.exp.Equal(now):
			r.Outcome("sign:boundary-instant")
			continue
		case err != nil:
			viol("unexpired-signer-refuses", fmt.Sprintf("expiry %v now %v: %v", p.exp, now, err))
			continue
		}
		got, verr := ver.Verify(ctx, msg, ad...)
		signedNow = append(signedNow, c36Signed{msg, verr == nil, fmt.Sprintf("%x", p.s.SubjectKeyID[:4])})
		if verr != nil {
			viol("signature-does-not-verify", fmt.Sprintf("message of signer (expiry %v, in grace %v) does not verify with a verifier bound to %v: %v", p.exp, p.s.InGrace, ia, verr))
		} else if string(got.Body) != string(body) {
			viol("verified-body-differs", string(got.Body))
		} else {
			r.Outcome("verify:ok")
		}
		if _, verr := verOther.Verify(ctx, msg, ad...); verr == nil {
			viol("verifies-for-other-ia", "message verifies with a verifier bound to another ISD-AS")
		}
		// the verification key id carried by the signature (decoded with the clean-room envelope parser of C38): it
		// has to name the signer's ISD-AS, the key of its chain and the TRC the signer was generated from; verifiers
		// that are behind learn from it that a TRC update exists.
		hdr, _, derr := c38DecodeHB(msg.HeaderAndBody)
		var kid cppb.VerificationKeyID
		if derr != nil || proto.Unmarshal(hdr.keyID, &kid) != nil {
			viol("key-id-undecodable", fmt.Sprint(derr))
		} else {
			if addr.IA(kid.IsdAs) != ia || !bytes.Equal(kid.SubjectKeyId, p.s.Chain[0].SubjectKeyId) {
				viol("key-id-names-wrong-key", fmt.Sprintf("isd_as %v subject key id %x", addr.IA(kid.IsdAs), kid.SubjectKeyId))
			}
			if kid.TrcBase != uint64(active.ID.Base) || kid.TrcSerial != uint64(active.ID.Serial) {
				viol("key-id-names-wrong-trc", fmt.Sprintf("signature announces TRC base %d serial %d, the signer was generated from the active TRC base %d serial %d",
					kid.TrcBase, kid.TrcSerial, active.ID.Base, active.ID.Serial))
			}
		}
		// end to end with a verifier that is one TRC behind: its DB has the predecessor TRC and the chains only, the
		// update can be fetched from the server. It must come to the same verdict as the up-to-date verifier.
		if len(tl.built) == 2 {
			r.CaseBulk(1, 1)
			// one lagging trust DB per case: the first probed signature finds it one TRC behind
			if lagDB == nil {
				l, err := sqlite.New(fmt.Sprintf("c36-lag-%d", c36DBCtr.Add(1)), &db.SqliteConfig{InMemory: true, MaxOpenReadConns: 2})
				if err != nil {
					r.HarnessError("db: %v", err)
					return
				}
				defer l.Close()
				l.InsertTRC(ctx, tl.built[0])
				for _, c := range chains {
					l.InsertChain(ctx, c.chain)
				}
				lagDB = &l
				lagFetcher = &c36Fetcher{trc: tl.built[1]}
			}
			lag, f := *lagDB, lagFetcher
			lagVer := trust.Verifier{BoundIA: ia, BoundServer: c24Server,
				Engine: trust.FetchingProvider{DB: lag, Recurser: trust.LocalOnlyRecurser{}, Fetcher: f}}
			_, lerr := lagVer.Verify(ctx, msg, ad...)
			switch {
			case (lerr == nil) != (verr == nil):
				viol("lagging-verifier-disagrees", fmt.Sprintf("verifier with the latest TRC: %v; verifier that starts one TRC behind (update fetchable, fetched %d time(s)): %v",
					verr, f.calls, lerr))
			case lerr == nil:
				r.Outcome("verify:ok-after-catching-up")
			}
		}
	}
	// ---- the same messages through ONE verifier with the chain cache (production configuration), in every order of
	// the signers (and each message twice): the cache must never change a verdict ----
	if len(signedNow) > 0 {
		orders := [][]int{}
		idx := make([]int, len(signedNow))
		for i := range idx {
			idx[i] = i
		}
		orders = append(orders, append(append([]int{}, idx...), idx...))
		if len(idx) > 1 {
			rev := []int{}
			for i := len(idx) - 1; i >= 0; i-- {
				rev = append(rev, i)
			}
			orders = append(orders, append(append([]int{}, rev...), rev...))
		}
		for _, ord := range orders {
			cv := trust.Verifier{BoundIA: ia, Engine: trust.FetchingProvider{DB: store, Recurser: trust.NeverRecurser{}}, Cache: cache.New(time.Minute, 0)}
			for step, i := range ord {
				_, cerr := cv.Verify(ctx, signedNow[i].msg, ad...)
				r.CaseBulk(1, 1)
				if (cerr == nil) != signedNow[i].ok {
					viol("caching-verifier-disagrees", fmt.Sprintf("order %v step %d: message of signer with subject key id %s..: verifier without cache ok=%v, one caching verifier: %v",
						ord, step, signedNow[i].skid, signedNow[i].ok, cerr))
				} else if cerr == nil {
					r.Outcome("verify:ok-with-cache")
				}
			}
		}
	}
	// ---- expiry: advance the bubble clock just past each expiry ----
	sort.Slice(probes, func(i, j int) bool { return probes[i].exp.Before(probes[j].exp) })
	for _, p := range probes {
		if !p.exp.After(time.Now()) {
			continue
		}
		// around the expiry instant with sub-second resolution: strictly before it the signer still signs, at the
		// instant itself either answer is accepted, strictly after it signing must fail
		for _, off := range []time.Duration{-time.Second, -time.Millisecond, -time.Nanosecond, 0, time.Nanosecond, time.Millisecond,
			500 * time.Millisecond, 999 * time.Millisecond, time.Second, time.Second + time.Nanosecond, 1500 * time.Millisecond} {
			at := p.exp.Add(off)
			if at.Before(time.Now()) {
				continue
			}
			time.Sleep(time.Until(at))
			_, err := p.s.Sign(ctx, body)
			r.CaseBulk(1, 1)
			switch {
			case off < 0 && err != nil:
				viol("unexpired-signer-refuses", fmt.Sprintf("%v before expiry %v: %v", -off, p.exp, err))
			case off < 0:
				r.Outcome("sign:ok-before-expiry")
			case off == 0:
				r.Outcome("sign:boundary-instant")
			case err == nil:
				viol("expired-signer-signs", fmt.Sprintf("signer with expiry %v signs at %v (%v after it)", p.exp, time.Now(), off))
			default:
				r.Outcome("sign:refused-after-expiry")
			}
		}
	}
	if sample {
		r.Sample(map[string]any{"case": name, "signers": len(signers)})
	}
}

// c36Fetcher is the remote trust-material server of the lagging verifier: it has the TRC update, no chains.
type c36Fetcher struct {
	trc   cppki.SignedTRC
	calls int
}

func (f *c36Fetcher) Chains(context.Context, trust.ChainQuery, net.Addr) ([][]*x509.Certificate, error) {
	return nil, nil
}

func (f *c36Fetcher) TRC(_ context.Context, id cppki.TRCID, _ net.Addr) (cppki.SignedTRC, error) {
	f.calls++
	if id != f.trc.TRC.ID {
		return cppki.SignedTRC{}, fmt.Errorf("c36: server has no TRC %v", id)
	}
	return f.trc, nil
}

func c36Names(m map[*c36Chain]bool) []string {
	var out []string
	for c := range m {
		out = append(out, c.name)
	}
	sort.Strings(out)
	return out
}
