package pki

import (
	"bytes"
	"crypto/elliptic"
	"crypto/x509"
	"errors"
	"fmt"
	"sort"
	"strings"
	"sync"
	"testing"
	"time"

	"github.com/scionproto/scion/pkg/addr"
	"github.com/scionproto/scion/pkg/scrypto"
	"github.com/scionproto/scion/pkg/scrypto/cppki"

	"verif/mc"
	"verif/pkigen"
)

// C33: TRC payloads are validated and encoded faithfully.
//
// Clean-room rule set (property statement + doc/cryptography/trc.rst "TRC Payload Fields", certificates.rst):
// a payload is valid iff none of the rule labels below is violated. The generator starts from payloads that satisfy
// every rule ("shapes") and applies labelled edits; the oracle is only the set of labels the edits carry - it never
// looks at the payload through scion code.
//
//	version      format version is v1
//	id           ISD in 1..65535, 1 <= base <= serial
//	validity     notAfter later than notBefore
//	base-grace   base TRC: grace period 0            base-votes   base TRC: no votes
//	quorum-range 1 <= quorum <= 255                   quorum-voters quorum <= #sensitive and <= #regular
//	core / auth  AS list non-empty, no wildcard, no duplicate
//	classify     every certificate is a sensitive voting, regular voting or CP root certificate per its profile
//	isd          a certificate naming an ISD-AS names this ISD
//	cover        every certificate validity contains the TRC validity
//	dup-serial   issuer/serial pairs unique            dup-subject  subjects unique within a class

var (
	c33T0      = time.Date(2000, 1, 1, 0, 0, 0, 0, time.UTC)
	c33TRCVal  = pkigen.Val(c33T0.Add(time.Hour), 1000*time.Hour)
	c33CertVal = pkigen.Val(c33T0, 2000*time.Hour)

	c33CertMu sync.Mutex
	c33Certs  = map[string]*c33CertEntry{}
)

type c33CertEntry struct {
	once sync.Once
	c    *pkigen.Cert
}

func c33Cached(key string, mk func() *pkigen.Cert) *pkigen.Cert {
	c33CertMu.Lock()
	e, ok := c33Certs[key]
	if !ok {
		e = &c33CertEntry{}
		c33Certs[key] = e
	}
	c33CertMu.Unlock()
	e.once.Do(func() { e.c = mk() })
	return e.c
}

func c33IA(isd addr.ISD, class cppki.CertType, idx int) addr.IA {
	return addr.MustIAFrom(isd, addr.AS(0xff00_0000_0100+uint64(class)*0x10+uint64(idx)))
}

func c33Curve(i int) elliptic.Curve {
	switch i % 3 {
	case 1:
		return elliptic.P384()
	case 2:
		return elliptic.P521()
	}
	return elliptic.P256()
}

// c33Variant describes how a TRC certificate deviates from the plain correct one.
type c33Variant struct {
	name   string
	noIA   bool
	rawIA  string
	isd    addr.ISD // 0: the TRC's ISD
	val    *cppki.Validity
	mutate func(*x509.Certificate)
	// dnOf: take the distinguished name (class/idx) of another slot; serialOf: reuse that certificate's serial too
	dnClass  cppki.CertType
	dnIdx    int
	dnSet    bool
	serial   int64 // != 0: use this serial number
	otherKey string
}

// c33Cert returns the certificate of class/idx for the ISD with the given deviation (cached).
func c33Cert(isd addr.ISD, class cppki.CertType, idx, curve int, v c33Variant) *pkigen.Cert {
	key := fmt.Sprintf("%d/%v/%d/%d/%s", isd, class, idx, curve, v.name)
	return c33Cached(key, func() *pkigen.Cert {
		certISD := isd
		if v.isd != 0 {
			certISD = v.isd
		}
		dnClass, dnIdx := class, idx
		if v.dnSet {
			dnClass, dnIdx = v.dnClass, v.dnIdx
		}
		s := pkigen.Spec{
			Type: class, IA: c33IA(certISD, dnClass, dnIdx), CN: fmt.Sprintf("%s-%d", c33ClassName(dnClass), dnIdx),
			NoIA: v.noIA, RawIA: v.rawIA, NotBefore: c33CertVal.NotBefore, NotAfter: c33CertVal.NotAfter,
			KeyName: fmt.Sprintf("c33/%d/%v/%d/%s", isd, class, idx, v.otherKey), Curve: c33Curve(curve), Mutate: v.mutate,
		}
		if v.val != nil {
			s.NotBefore, s.NotAfter = v.val.NotBefore, v.val.NotAfter
		}
		s.Serial = v.serial
		return pkigen.Must(s)
	})
}

func c33ClassName(c cppki.CertType) string {
	switch c {
	case cppki.Sensitive:
		return "sensitive"
	case cppki.Regular:
		return "regular"
	case cppki.Root:
		return "root"
	case cppki.CA:
		return "ca"
	case cppki.AS:
		return "as"
	}
	return "x"
}

type c33Slot struct {
	class cppki.CertType
	idx   int
}

type c33Shape struct {
	base         bool
	nS, nR, nRt  int
	quorum       int
	order        int
	votingIA     bool
	curve        int // curve offset for the certificates
	nCore, nAuth int
	descr        int
	noTrustReset bool
	isd          addr.ISD
}

func (s c33Shape) String() string {
	return fmt.Sprintf("base=%v S%d R%d Rt%d q%d ord%d via=%v crv%d core%d auth%d d%d ntr=%v isd%d", s.base, s.nS, s.nR, s.nRt,
		s.quorum, s.order, s.votingIA, s.curve, s.nCore, s.nAuth, s.descr, s.noTrustReset, s.isd)
}

// c33P is a payload under construction together with what the generator knows about it.
type c33P struct {
	shape c33Shape
	t     cppki.TRC
	slots []c33Slot
}

var c33Descr = []string{"", "ISD one", "Vertrauensanker für ISD 1 — 信任根 — доверие " + strings.Repeat("x", 900)}

func c33ASList(n int, salt uint64) []addr.AS {
	// mixes BGP-style (decimal) and SCION-style (hex) AS numbers and the largest AS number
	pool := []addr.AS{0xff00_0000_0110 + addr.AS(salt), 64512 + addr.AS(salt), addr.MaxAS - addr.AS(salt), 1 + addr.AS(salt), 0x1_0000_0000}
	return append([]addr.AS{}, pool[:n]...)
}

func c33Plain(sh c33Shape) c33Variant {
	if !sh.votingIA {
		return c33Variant{name: "plain-noia", noIA: true}
	}
	return c33Variant{name: "plain"}
}

func (sh c33Shape) certFor(sl c33Slot, v c33Variant) *x509.Certificate {
	return c33Cert(sh.isd, sl.class, sl.idx, sh.curve+sl.idx, v).X
}

func (sh c33Shape) plainFor(sl c33Slot) c33Variant {
	if sl.class == cppki.Root {
		return c33Variant{name: "plain"}
	}
	return c33Plain(sh)
}

func c33Build(sh c33Shape) *c33P {
	p := &c33P{shape: sh}
	var s, r, rt []c33Slot
	for i := 0; i < sh.nS; i++ {
		s = append(s, c33Slot{cppki.Sensitive, i})
	}
	for i := 0; i < sh.nR; i++ {
		r = append(r, c33Slot{cppki.Regular, i})
	}
	for i := 0; i < sh.nRt; i++ {
		rt = append(rt, c33Slot{cppki.Root, i})
	}
	if sh.order == 0 {
		p.slots = append(append(append(p.slots, s...), r...), rt...)
	} else {
		p.slots = append(p.slots, rt...)
		for i := 0; i < len(s) || i < len(r); i++ {
			if i < len(r) {
				p.slots = append(p.slots, r[len(r)-1-i])
			}
			if i < len(s) {
				p.slots = append(p.slots, s[i])
			}
		}
	}
	p.t = cppki.TRC{
		Version: 1, ID: cppki.TRCID{ISD: sh.isd, Base: 1, Serial: 1}, Validity: c33TRCVal,
		NoTrustReset: sh.noTrustReset, Quorum: sh.quorum,
		CoreASes: c33ASList(sh.nCore, 0), AuthoritativeASes: c33ASList(sh.nAuth, 0), Description: c33Descr[sh.descr],
	}
	if !sh.base {
		p.t.ID = cppki.TRCID{ISD: sh.isd, Base: 3, Serial: scrypto.Version(4 + uint64(sh.descr)*(1<<40))}
		p.t.GracePeriod = time.Duration(1+sh.nAuth*3600) * time.Second
		p.t.Votes = [][]int{{0}, {2, 0, 1}, {300, 1}}[sh.nCore-1]
	} else if sh.descr == 1 {
		p.t.ID = cppki.TRCID{ISD: sh.isd, Base: 7, Serial: 7}
	}
	for _, sl := range p.slots {
		p.t.Certificates = append(p.t.Certificates, sh.certFor(sl, sh.plainFor(sl)))
	}
	return p
}

func (p *c33P) clone() *c33P {
	q := *p
	q.t.Votes = append([]int(nil), p.t.Votes...)
	q.t.CoreASes = append([]addr.AS(nil), p.t.CoreASes...)
	q.t.AuthoritativeASes = append([]addr.AS(nil), p.t.AuthoritativeASes...)
	q.t.Certificates = append([]*x509.Certificate(nil), p.t.Certificates...)
	q.slots = append([]c33Slot(nil), p.slots...)
	return &q
}

// c33Mut is one labelled edit. rule == "" means the payload stays valid (a legal variant).
type c33Mut struct {
	label string // name of the edit
	class string // stable class of the edit for finding keys (default: label)
	// observe: the statement does not clearly cover this edit; an unexpected acceptance is recorded, not reported
	observe bool
	group string // field group; pairs are only formed across groups
	rule  string
	apply func(*c33P)
	// raw, if set, edits the schema-level form instead (only the decoder is exercised); trail appends bytes
	raw   func(*pkigen.RawPayload)
	trail []byte
}

func c33BadVoting(class cppki.CertType) []c33Variant {
	other := pkigen.OIDRegular
	if class == cppki.Regular {
		other = pkigen.OIDSensitive
	}
	return []c33Variant{
		{name: "ku-digsig", mutate: func(c *x509.Certificate) { c.KeyUsage = x509.KeyUsageDigitalSignature }},
		{name: "ku-certsign", mutate: func(c *x509.Certificate) { c.KeyUsage = x509.KeyUsageCertSign }},
		{name: "eku-serverauth", mutate: func(c *x509.Certificate) { c.ExtKeyUsage = append(c.ExtKeyUsage, x509.ExtKeyUsageServerAuth) }},
		{name: "eku-clientauth", mutate: func(c *x509.Certificate) { c.ExtKeyUsage = append(c.ExtKeyUsage, x509.ExtKeyUsageClientAuth) }},
		{name: "eku-no-timestamping", mutate: func(c *x509.Certificate) { c.ExtKeyUsage = nil }},
		{name: "eku-both-voting", mutate: func(c *x509.Certificate) { c.UnknownExtKeyUsage = append(c.UnknownExtKeyUsage, other) }},
		{name: "eku-no-scion", mutate: func(c *x509.Certificate) { c.UnknownExtKeyUsage = nil }},
		{name: "bc-ca-true", mutate: func(c *x509.Certificate) { c.BasicConstraintsValid, c.IsCA = true, true }},
		{name: "no-skid", mutate: func(c *x509.Certificate) { c.SubjectKeyId = nil }},
		{name: "ia-wildcard-as", rawIA: "1-0"},
		{name: "ia-wildcard-isd", rawIA: "0-ff00:0:110"},
		{name: "ia-garbage", rawIA: "one-two"},
		{name: "ia-noncanonical", rawIA: "1-ff00:0:0110"},
	}
}

func c33BadRoot() []c33Variant {
	return []c33Variant{
		{name: "ku-digsig", mutate: func(c *x509.Certificate) { c.KeyUsage |= x509.KeyUsageDigitalSignature }},
		{name: "ku-no-certsign", mutate: func(c *x509.Certificate) { c.KeyUsage = 0 }},
		{name: "eku-serverauth", mutate: func(c *x509.Certificate) { c.ExtKeyUsage = append(c.ExtKeyUsage, x509.ExtKeyUsageServerAuth) }},
		{name: "eku-clientauth", mutate: func(c *x509.Certificate) { c.ExtKeyUsage = append(c.ExtKeyUsage, x509.ExtKeyUsageClientAuth) }},
		{name: "eku-no-root", mutate: func(c *x509.Certificate) { c.UnknownExtKeyUsage = nil }}, // = a self-signed CA certificate
		{name: "bc-missing", mutate: func(c *x509.Certificate) { c.BasicConstraintsValid, c.IsCA, c.MaxPathLen = false, false, 0 }},
		{name: "no-ia", noIA: true},
		{name: "ia-wildcard-as", rawIA: "1-0"},
		{name: "ia-noncanonical", rawIA: "1-ff00:0:0110"},
	}
}

// legal deviations of a voting certificate (must stay classifiable)
func c33GoodVoting() []c33Variant {
	return []c33Variant{
		{name: "ok-bc-ca-false", mutate: func(c *x509.Certificate) { c.BasicConstraintsValid, c.IsCA = true, false }},
		{name: "ok-akid-eq-skid", mutate: func(c *x509.Certificate) { c.AuthorityKeyId = c.SubjectKeyId }},
		{name: "ok-ku-contentcommitment", mutate: func(c *x509.Certificate) { c.KeyUsage = x509.KeyUsageContentCommitment }},
		{name: "ok-toggle-ia"}, // filled in by the caller: IA present <-> absent
	}
}

// c33Muts lists every edit applicable to p.
func c33Muts(p *c33P) []c33Mut {
	sh := p.shape
	var ms []c33Mut
	add := func(label, group, rule string, f func(*c33P)) {
		ms = append(ms, c33Mut{label: label, group: group, rule: rule, apply: f})
	}
	// --- version
	for _, v := range []int{0, 2, -1, 256} {
		add(fmt.Sprintf("version=%d", v), "version", "version", func(q *c33P) { q.t.Version = v })
	}
	// --- id
	add("isd=0", "id", "id", func(q *c33P) { q.t.ID.ISD = 0 })
	add("base=0", "id", "id", func(q *c33P) { q.t.ID.Base = 0 })
	add("base=serial=0", "id", "id", func(q *c33P) { q.t.ID.Base, q.t.ID.Serial = 0, 0 })
	add("base=serial+1", "id", "id", func(q *c33P) { q.t.ID.Base = q.t.ID.Serial + 1 })
	add("serial=0", "id", "id", func(q *c33P) { q.t.ID.Serial = 0 })
	// --- validity
	add("notafter=notbefore", "validity", "validity", func(q *c33P) { q.t.Validity.NotAfter = q.t.Validity.NotBefore })
	add("notafter<notbefore", "validity", "validity", func(q *c33P) { q.t.Validity.NotAfter = q.t.Validity.NotBefore.Add(-time.Second) })
	add("validity-swapped", "validity", "validity", func(q *c33P) {
		q.t.Validity.NotAfter, q.t.Validity.NotBefore = q.t.Validity.NotBefore, q.t.Validity.NotAfter
	})
	add("ok-validity-1s", "validity", "", func(q *c33P) { q.t.Validity.NotAfter = q.t.Validity.NotBefore.Add(time.Second) })
	add("ok-validity-eq-cert", "validity", "", func(q *c33P) { q.t.Validity = c33CertVal })
	add("trc-notbefore-before-certs", "validity", "cover", func(q *c33P) { q.t.Validity.NotBefore = c33CertVal.NotBefore.Add(-time.Second) })
	add("trc-notafter-after-certs", "validity", "cover", func(q *c33P) { q.t.Validity.NotAfter = c33CertVal.NotAfter.Add(time.Second) })
	// --- base-only fields
	if sh.base {
		add("base-grace=1s", "basefields", "base-grace", func(q *c33P) { q.t.GracePeriod = time.Second })
		add("base-grace=1h", "basefields", "base-grace", func(q *c33P) { q.t.GracePeriod = time.Hour })
		add("base-grace=-1s", "basefields", "base-grace", func(q *c33P) { q.t.GracePeriod = -time.Second })
		add("base-votes=[0]", "basefields", "base-votes", func(q *c33P) { q.t.Votes = []int{0} })
		add("base-votes=[1,0]", "basefields", "base-votes", func(q *c33P) { q.t.Votes = []int{1, 0} })
	} else {
		add("ok-update-grace=0", "basefields", "", func(q *c33P) { q.t.GracePeriod = 0 })
	}
	// --- quorum
	for _, v := range []int{0, -1, -255} {
		add(fmt.Sprintf("quorum=%d", v), "quorum", "quorum-range", func(q *c33P) { q.t.Quorum = v })
		if v < 0 {
			ms[len(ms)-1].class = "quorum-negative"
		}
	}
	if sh.nS < sh.nR {
		add("quorum=nS+1<=nR", "quorum", "quorum-voters", func(q *c33P) { q.t.Quorum = sh.nS + 1 })
	}
	if sh.nR < sh.nS {
		add("quorum=nR+1<=nS", "quorum", "quorum-voters", func(q *c33P) { q.t.Quorum = sh.nR + 1 })
	}
	if sh.nR == sh.nS {
		add("quorum=n+1", "quorum", "quorum-voters", func(q *c33P) { q.t.Quorum = sh.nS + 1 })
	}
	for v := 1; v <= sh.nS && v <= sh.nR; v++ {
		if v != sh.quorum {
			add("ok-quorum-other", "quorum", "", func(q *c33P) { q.t.Quorum = v })
		}
	}
	// --- AS lists
	for _, which := range []string{"core", "auth"} {
		sel := func(q *c33P) *[]addr.AS {
			if which == "core" {
				return &q.t.CoreASes
			}
			return &q.t.AuthoritativeASes
		}
		n := len(*sel(p))
		add(which+"-empty", which, which, func(q *c33P) { *sel(q) = nil })
		add(which+"-empty-nonnil", which, which, func(q *c33P) { *sel(q) = []addr.AS{} })
		for i := 0; i <= n; i++ {
			add(which+"-wildcard-inserted", which, which, func(q *c33P) {
				l := *sel(q)
				*sel(q) = append(append(append([]addr.AS{}, l[:i]...), 0), l[i:]...)
			})
		}
		for i := 0; i < n; i++ {
			add(which+"-wildcard-replaces", which, which, func(q *c33P) { (*sel(q))[i] = 0 })
			for j := 0; j <= n; j++ {
				add(which+"-duplicate", which, which, func(q *c33P) {
					l := *sel(q)
					*sel(q) = append(append(append([]addr.AS{}, l[:j]...), l[i]), l[j:]...)
				})
			}
		}
		add("ok-"+which+"-other-ases", which, "", func(q *c33P) { *sel(q) = c33ASList(3, 7) })
	}
	// --- certificates
	for pos, sl := range p.slots {
		plain := sh.plainFor(sl)
		setv := func(label, rule string, v c33Variant) {
			add(label, "certs", rule, func(q *c33P) { q.t.Certificates[pos] = sh.certFor(sl, v) })
		}
		var bad []c33Variant
		if sl.class == cppki.Root {
			bad = c33BadRoot()
		} else {
			bad = c33BadVoting(sl.class)
		}
		for _, v := range bad {
			setv(fmt.Sprintf("cert-%s-%s", c33ClassName(sl.class), v.name), "classify", v)
		}
		if sl.class != cppki.Root {
			for _, v := range c33GoodVoting() {
				if v.name == "ok-toggle-ia" {
					v.noIA = !plain.noIA
					v.name = fmt.Sprintf("ok-ia-%v", !v.noIA)
				}
				setv("cert-voting-"+v.name, "", v)
			}
		}
		// foreign ISD (only meaningful when the certificate names an ISD-AS)
		foreign := addr.ISD(2)
		if sh.isd == 2 {
			foreign = 1
		}
		setv("cert-foreign-isd", "isd", c33Variant{name: "foreign", isd: foreign})
		// validity not covering / exactly covering
		nb := pkigen.Val(c33TRCVal.NotBefore.Add(time.Second), c33CertVal.NotAfter.Sub(c33TRCVal.NotBefore)-time.Second)
		na := cppki.Validity{NotBefore: c33CertVal.NotBefore, NotAfter: c33TRCVal.NotAfter.Add(-time.Second)}
		eq := c33TRCVal
		setv("cert-notbefore-1s-late", "cover", c33Variant{name: plain.name + "-nb-late", noIA: plain.noIA, val: &nb})
		setv("cert-notafter-1s-early", "cover", c33Variant{name: plain.name + "-na-early", noIA: plain.noIA, val: &na})
		setv("ok-cert-validity-eq-trc", "", c33Variant{name: plain.name + "-val-eq", noIA: plain.noIA, val: &eq})
		// duplicates
		add("cert-exact-duplicate-appended", "certs", "dup-serial+dup-subject", func(q *c33P) {
			q.t.Certificates = append(q.t.Certificates, q.t.Certificates[pos])
		})
		add("cert-exact-duplicate-prepended", "certs", "dup-serial+dup-subject", func(q *c33P) {
			q.t.Certificates = append([]*x509.Certificate{q.t.Certificates[pos]}, q.t.Certificates...)
		})
		add("cert-same-subject-new-key-appended", "certs", "dup-subject", func(q *c33P) {
			q.t.Certificates = append(q.t.Certificates, sh.certFor(sl, c33Variant{name: plain.name + "-renewed", noIA: plain.noIA, otherKey: "k2"}))
		})
		// a certificate of ANOTHER class carrying this slot's distinguished name
		for _, oc := range []cppki.CertType{cppki.Sensitive, cppki.Regular, cppki.Root} {
			if oc == sl.class || (oc == cppki.Root && plain.noIA) {
				continue
			}
			extra := c33Slot{oc, 7}
			add("cert-other-class-same-dn-same-serial", "certs", "dup-serial", func(q *c33P) {
				q.t.Certificates = append(q.t.Certificates, sh.certFor(extra, c33Variant{
					name: fmt.Sprintf("%s-dn-%v-%d-ser", plain.name, sl.class, sl.idx), noIA: plain.noIA,
					dnSet: true, dnClass: sl.class, dnIdx: sl.idx, serial: q.t.Certificates[pos].SerialNumber.Int64()}))
			})
			add("ok-cert-other-class-same-dn", "certs", "", func(q *c33P) {
				q.t.Certificates = append(q.t.Certificates, sh.certFor(extra, c33Variant{
					name: fmt.Sprintf("%s-dn-%v-%d", plain.name, sl.class, sl.idx), noIA: plain.noIA,
					dnSet: true, dnClass: sl.class, dnIdx: sl.idx}))
			})
		}
	}
	// CA and AS certificates do not belong into a TRC
	add("cert-ca-appended", "certs", "classify", func(q *c33P) { q.t.Certificates = append(q.t.Certificates, c33CAAS(sh.isd)[0].X) })
	add("cert-as-appended", "certs", "classify", func(q *c33P) { q.t.Certificates = append(q.t.Certificates, c33CAAS(sh.isd)[1].X) })
	add("ok-extra-root-appended", "certs", "", func(q *c33P) {
		q.t.Certificates = append(q.t.Certificates, sh.certFor(c33Slot{cppki.Root, 5}, c33Variant{name: "plain"}))
	})
	// --- schema-level edits (decoder only)
	rawm := func(label, group, rule string, f func(*pkigen.RawPayload)) {
		ms = append(ms, c33Mut{label: label, group: group, rule: rule, raw: f})
	}
	rawm("raw-version=1", "version", "version", func(a *pkigen.RawPayload) { a.Version = 1 })
	rawm("raw-isd=65536", "id", "id", func(a *pkigen.RawPayload) { a.ID.ISD = 65536 })
	rawm("raw-isd=65536+isd", "id", "id", func(a *pkigen.RawPayload) { a.ID.ISD += 65536 })
	// ISD-65536 is a negative number that wraps to the ISD when cut to 16 bits. The statement only says "non-wildcard
	// ISD"; the 1..65535 range is in trc.rst. Recorded as an observation, not demanded.
	rawm("raw-isd-negative", "id", "id", func(a *pkigen.RawPayload) { a.ID.ISD -= 65536 })
	ms[len(ms)-1].observe = true
	rawm("raw-base-negative", "id", "id", func(a *pkigen.RawPayload) { a.ID.Base = -a.ID.Base })
	rawm("raw-serial-base-negative", "id", "id", func(a *pkigen.RawPayload) { a.ID.Base, a.ID.Serial = -a.ID.Serial-1, -a.ID.Base })
	rawm("raw-quorum=256+q", "quorum", "quorum-range", func(a *pkigen.RawPayload) { a.Quorum += 256 })
	rawm("raw-quorum=2^32+q", "quorum", "quorum-range", func(a *pkigen.RawPayload) { a.Quorum += 1 << 32 })
	rawm("raw-core-as-wildcard-text", "core", "core", func(a *pkigen.RawPayload) { a.CoreASes[0] = "0" })
	rawm("raw-auth-as-wildcard-text", "auth", "auth", func(a *pkigen.RawPayload) { a.AuthoritativeASes[0] = "0:0:0" })
	rawm("raw-core-as-same-number-other-text", "core", "core", func(a *pkigen.RawPayload) {
		// the same AS number twice, written once canonically and once with leading zeros
		a.CoreASes = append(a.CoreASes, "0"+a.CoreASes[0])
	})
	ms = append(ms, c33Mut{label: "raw-trailing-byte", group: "trail", rule: "encoding", raw: func(*pkigen.RawPayload) {}, trail: []byte{0}})
	return ms
}

var (
	c33CAASMu sync.Mutex
	c33CAASm  = map[addr.ISD][2]*pkigen.Cert{}
)

func c33CAAS(isd addr.ISD) [2]*pkigen.Cert {
	c33CAASMu.Lock()
	defer c33CAASMu.Unlock()
	if v, ok := c33CAASm[isd]; ok {
		return v
	}
	root := c33Cert(isd, cppki.Root, 0, 0, c33Variant{name: "plain"})
	ia := c33IA(isd, cppki.Root, 0)
	ca := pkigen.CA(root, ia, fmt.Sprintf("c33-ca-%d", isd), c33CertVal)
	as := pkigen.AS(ca, ia, fmt.Sprintf("c33-as-%d", isd), c33CertVal)
	c33CAASm[isd] = [2]*pkigen.Cert{ca, as}
	return c33CAASm[isd]
}

var c33Sentinels = []struct {
	name string
	err  error
}{
	{"version", cppki.ErrInvalidTRCVersion}, {"id", cppki.ErrInvalidID}, {"validity", cppki.ErrInvalidValidityPeriod},
	{"grace", cppki.ErrGracePeriodNonZero}, {"votes-on-base", cppki.ErrVotesOnBaseTRC}, {"quorum-size", cppki.ErrInvalidQuorumSize},
	{"no-ases", cppki.ErrNoASes}, {"wildcard-as", cppki.ErrWildcardAS}, {"duplicate-as", cppki.ErrDuplicateAS},
	{"unclassified", cppki.ErrUnclassifiedCertificate}, {"cert-type", cppki.ErrInvalidCertType},
	{"not-enough-voters", cppki.ErrNotEnoughVoters}, {"other-isd", cppki.ErrCertForOtherISD}, {"duplicate-cert", cppki.ErrDuplicate},
	{"not-covered", cppki.ErrTRCValidityNotCovered},
}

func c33ErrClass(err error) string {
	for _, s := range c33Sentinels {
		if errors.Is(err, s.err) {
			return s.name
		}
	}
	return "other"
}

type c33Eval struct {
	r *mc.Run
}

// eval judges one payload: rules = labels of the violated rules (empty: valid); class = stable name of the case class
// (finding keys are built from it), label = the concrete edit(s). suppress: do not report an unexpected acceptance
// (used for pairs of edits of which one is already reported on its own). Returns whether an invalid payload was accepted.
func (e c33Eval) eval(p *c33P, class, label string, rules []string, raw func(*pkigen.RawPayload), trail []byte, full, suppress bool) bool {
	r := e.r
	valid := len(rules) == 0
	var wrong []string // entry points whose verdict differs from the spec
	detail := func(extra any) map[string]any {
		return map[string]any{"shape": p.shape.String(), "edit": label, "violated_rules": rules, "observed": extra,
			"id": p.t.ID.String(), "quorum": p.t.Quorum, "n_certs": len(p.t.Certificates)}
	}
	report := func() bool {
		if len(wrong) == 0 {
			return false
		}
		if valid {
			r.Violation("rejected-valid:"+class, detail(wrong))
			return false
		}
		if !suppress {
			r.Violation("accepted-invalid:"+class, detail(wrong))
		}
		return true
	}
	t := p.t // copy
	if raw == nil {
		// 1. struct-level validation
		var verr error
		if pn := mc.Safely(func() { verr = t.Validate() }); pn != nil {
			r.Violation("panic:validate:"+class, detail(fmt.Sprint(pn)))
			return false
		}
		if (verr == nil) != valid {
			wrong = append(wrong, fmt.Sprintf("Validate() = %v, spec valid = %v", verr, valid))
		}
		if verr == nil {
			r.Outcome("validate-accepted")
		} else {
			r.Outcome("validate-rejected:" + c33ErrClass(verr))
		}
	}
	// 2. decoder on an independently produced encoding
	a, err := pkigen.ToRaw(t)
	if err != nil {
		r.HarnessError("ToRaw: %v", err)
		return false
	}
	if raw != nil {
		raw(&a)
	}
	der, err := a.DER()
	if err != nil {
		r.HarnessError("DER: %v (%s)", err, label)
		return false
	}
	der = append(der, trail...)
	var dec cppki.TRC
	var derr error
	if pn := mc.Safely(func() { dec, derr = cppki.DecodeTRC(der) }); pn != nil {
		r.Violation("panic:decode:"+class, detail(fmt.Sprint(pn)))
		return false
	}
	if (derr == nil) != valid {
		obs := fmt.Sprintf("DecodeTRC = %v, spec valid = %v", derr, valid)
		if derr == nil {
			obs += fmt.Sprintf("; encoded id=%+v quorum=%d, decoded id=%v quorum=%d", a.ID, a.Quorum, dec.ID, dec.Quorum)
		}
		wrong = append(wrong, obs)
	}
	if derr == nil {
		r.Outcome("decode-accepted")
	} else {
		r.Outcome("decode-rejected")
	}
	if raw != nil || !full {
		return report()
	}
	// 3. scion's encoder
	var enc []byte
	var eerr error
	if pn := mc.Safely(func() { enc, eerr = t.Encode() }); pn != nil {
		r.Violation("panic:encode:"+class, detail(fmt.Sprint(pn)))
		return false
	}
	if (eerr == nil) != valid {
		wrong = append(wrong, fmt.Sprintf("Encode() err = %v, spec valid = %v", eerr, valid))
	}
	acc := report()
	if !valid || eerr != nil || derr != nil {
		return acc
	}
	// 4. faithful encoding and round trip
	if !bytes.Equal(enc, der) {
		r.Violation("encode-differs-from-schema-encoding", detail(fmt.Sprintf("scion %x.. vs schema encoder %x..", enc[:min(40, len(enc))], der[:min(40, len(der))])))
		return false
	}
	if diff := c33Diff(&t, &dec); diff != "" {
		r.Violation("roundtrip:"+diff, detail("Decode(Encode(t)) differs in "+diff))
		return false
	}
	if !bytes.Equal(dec.Raw, enc) {
		r.Violation("roundtrip:raw", detail("decoded Raw is not the input"))
	}
	re, err := dec.Encode()
	if err != nil || !bytes.Equal(re, enc) {
		r.Violation("roundtrip:re-encode", detail(fmt.Sprintf("re-encoding the decoded TRC: err=%v equal=%v", err, bytes.Equal(re, enc))))
	}
	r.Outcome("roundtrip-ok")
	return false
}

// c33Diff names the first field in which the decoded TRC differs from the original ("" if none).
func c33Diff(a, b *cppki.TRC) string {
	eqInts := func(x, y []int) bool {
		if len(x) != len(y) {
			return false
		}
		for i := range x {
			if x[i] != y[i] {
				return false
			}
		}
		return true
	}
	eqAS := func(x, y []addr.AS) bool {
		if len(x) != len(y) {
			return false
		}
		for i := range x {
			if x[i] != y[i] {
				return false
			}
		}
		return true
	}
	switch {
	case a.Version != b.Version:
		return "version"
	case a.ID != b.ID:
		return "id"
	case !a.Validity.NotBefore.Equal(b.Validity.NotBefore) || !a.Validity.NotAfter.Equal(b.Validity.NotAfter):
		return "validity"
	case a.GracePeriod != b.GracePeriod:
		return "grace"
	case a.NoTrustReset != b.NoTrustReset:
		return "notrustreset"
	case !eqInts(a.Votes, b.Votes):
		return "votes"
	case a.Quorum != b.Quorum:
		return "quorum"
	case !eqAS(a.CoreASes, b.CoreASes):
		return "core"
	case !eqAS(a.AuthoritativeASes, b.AuthoritativeASes):
		return "auth"
	case a.Description != b.Description:
		return "description"
	case len(a.Certificates) != len(b.Certificates):
		return "certificates"
	}
	for i := range a.Certificates {
		if !bytes.Equal(a.Certificates[i].Raw, b.Certificates[i].Raw) {
			return "certificates"
		}
	}
	return ""
}

func c33Shapes(full bool) []c33Shape {
	var out []c33Shape
	k := 0
	for _, base := range []bool{true, false} {
		for nS := 1; nS <= 3; nS++ {
			for nR := 1; nR <= 3; nR++ {
				for q := 1; q <= nS && q <= nR; q++ {
					for nRt := 1; nRt <= 2; nRt++ {
						for order := 0; order < 2; order++ {
							for _, via := range []bool{true, false} {
								sh := c33Shape{base: base, nS: nS, nR: nR, nRt: nRt, quorum: q, order: order, votingIA: via}
								if !full {
									// the remaining parameters follow a fixed rotation
									k++
									sh.curve, sh.nCore, sh.nAuth, sh.descr, sh.noTrustReset = k%3, 1+k%3, 1+(k/3)%3, (k/2)%3, k%4 == 1
									sh.isd = []addr.ISD{1, 1, 65535}[k%3]
									out = append(out, sh)
									continue
								}
								for curve := 0; curve < 3; curve++ {
									for nAS := 0; nAS < 3; nAS++ {
										for descr := 0; descr < 3; descr++ {
											for _, ntr := range []bool{false, true} {
												sh2 := sh
												sh2.curve, sh2.nCore, sh2.nAuth, sh2.descr, sh2.noTrustReset = curve, 1+nAS, 1+(nAS+descr)%3, descr, ntr
												sh2.isd = []addr.ISD{1, 65535}[(curve+descr)%2]
												out = append(out, sh2)
											}
										}
									}
								}
							}
						}
					}
				}
			}
		}
	}
	return out
}

func TestC33(t *testing.T) {
	r := mc.NewRun(t, "C33", mc.Exploration)
	r.Rule = "shapes = {base,update} x #sensitive 1..3 x #regular 1..3 x every admissible quorum x #roots 1..2 x 2 certificate orders x " +
		"voting certs with/without ISD-AS (thorough: x 3 curves x 3 AS-list sizes x 3 descriptions x noTrustReset x 2 ISDs; quick: these follow a " +
		"fixed rotation); per shape the unedited payload, every single labelled edit (every rule x every position x 2-13 variants, plus legal " +
		"variants that must stay valid), and all pairs of violating edits from different field groups (quick: first shapes only); " +
		"plus quorum 255/256 payloads with 255/256 voters per class. Each case is judged through Validate, DecodeTRC of an independently " +
		"produced DER encoding, and Encode; valid cases are round-tripped. distinct key = shape + edit labels + position; non-trivial = " +
		"at least one edit applied"
	ev := c33Eval{r}
	start := time.Now()
	shapes := c33Shapes(mc.Thorough())
	pairShapes := mc.Pick(12, 448)
	var mu sync.Mutex
	rulesSeen := map[string]int{}
	var nSingles, nPairs, nValidVariants, nSubsumed int64
	observedAll := map[string]int{}
	mc.ParallelFor(len(shapes), func(si int) {
		if r.OutOfBudget() {
			return
		}
		sh := shapes[si]
		p := c33Build(sh)
		ev.eval(p, "unedited", "unedited", nil, nil, nil, true, false)
		r.Case(sh.String(), false)
		muts := c33Muts(p)
		localRules := map[string]int{}
		var singles, pairs, validVariants, subsumed int64
		acceptedAlone := map[int]bool{}
		observed := map[string]int{}
		for mi, m := range muts {
			q := p.clone()
			if m.apply != nil {
				m.apply(q)
			}
			var rules []string
			if m.rule != "" {
				rules = strings.Split(m.rule, "+")
				singles++
			} else {
				validVariants++
			}
			for _, x := range rules {
				localRules[x]++
			}
			class := m.class
			if class == "" {
				class = m.label
			}
			if ev.eval(q, class, m.label, rules, m.raw, m.trail, true, m.observe) {
				acceptedAlone[mi] = true
				if m.observe {
					observed[class]++
				}
			}
			r.Case(fmt.Sprintf("%s|%d:%s", sh, mi, m.label), true)
		}
		if si < pairShapes || (mc.Thorough() && si%18 == 0 && si/18 < pairShapes) {
			for i, m1 := range muts {
				if m1.rule == "" || m1.raw != nil {
					continue
				}
				for j := i + 1; j < len(muts); j++ {
					m2 := muts[j]
					if m2.rule == "" || m2.group == m1.group {
						continue
					}
					q := p.clone()
					m1.apply(q)
					if m2.apply != nil {
						m2.apply(q)
					}
					rules := append(strings.Split(m1.rule, "+"), strings.Split(m2.rule, "+")...)
					sort.Strings(rules)
					sub := acceptedAlone[i] || acceptedAlone[j]
					if ev.eval(q, "pair:"+m1.label+" & "+m2.label, m1.label+" & "+m2.label, rules, m2.raw, m2.trail, false, sub) && sub {
						subsumed++
					}
					pairs++
					r.Case(fmt.Sprintf("%s|%d,%d", sh, i, j), true)
				}
			}
		}
		mu.Lock()
		for k, v := range localRules {
			rulesSeen[k] += v
		}
		nSingles += singles
		nPairs += pairs
		nValidVariants += validVariants
		nSubsumed += subsumed
		for k, v := range observed {
			observedAll[k] += v
		}
		mu.Unlock()
	})
	if r.OutOfBudget() {
		r.Capped("budget reached before all shapes were evaluated")
	}
	r.Extra["phase1_wall_s"] = time.Since(start).Seconds()
	// --- quorum at the upper bound: needs 255 / 256 voters per class
	c33BigQuorum(ev)

	r.Extra["shapes"] = len(shapes)
	r.Extra["single_violations"] = nSingles
	r.Extra["valid_variants"] = nValidVariants
	r.Extra["violation_pairs"] = nPairs
	r.Extra["cases_per_rule"] = rulesSeen
	r.Extra["pairs_subsumed_by_a_reported_single_edit"] = nSubsumed
	r.Extra["observed_not_demanded_acceptances"] = observedAll
	r.Sample(map[string]any{"shape": shapes[0].String(), "edit": "quorum=nS+1<=nR", "expect": "rejected"})
	r.Sample(map[string]any{"shape": shapes[len(shapes)/2].String(), "edit": "cert-other-class-same-dn-same-serial", "expect": "rejected (issuer/serial pair not unique)"})
	r.Sample(map[string]any{"shape": shapes[len(shapes)-1].String(), "edit": "ok-cert-validity-eq-trc", "expect": "accepted, round trip identical"})
	r.Assumptions = []string{
		"times have whole seconds (the encoding has second resolution); grace periods are whole seconds",
		"\"classifiable\" is judged by construction: certificates issued from the profile templates of certificates.rst/trc.rst are classifiable, " +
			"each listed MUST-violation (key usage, extended key usage, basic constraints, subject key id, ISD-AS text) makes them unclassifiable; " +
			"SHOULD-level deviations (root pathLen != 1, root without id-kp-timeStamping) are not part of the alphabet",
		"rules the statement does not list are not demanded (votes unique, description length, authoritative subset of core, 9999 end date)",
		"schema-level edits (values a cppki.TRC cannot hold: ISD >= 65536, negative numbers, AS text variants, trailing bytes) are judged through DecodeTRC only",
	}
	r.Finish(6)
}

// c33BigQuorum: quorum 255 with 255 voters per class is valid; quorum 256 with 256 voters per class violates only
// the range rule; quorum 255 with 254 voters of one class violates only the voter-count rule.
func c33BigQuorum(ev c33Eval) {
	sh := c33Shape{base: true, nRt: 1, votingIA: true, nCore: 1, nAuth: 1, isd: 1}
	voters := func(class cppki.CertType, n int) []*x509.Certificate {
		out := make([]*x509.Certificate, n)
		mc.ParallelFor(n, func(i int) {
			c := pkigen.Must(pkigen.Spec{Type: class, IA: addr.MustIAFrom(1, addr.AS(0xff00_0001_0000+uint64(class)*0x1000+uint64(i))),
				CN: fmt.Sprintf("big-%s-%d", c33ClassName(class), i), NotBefore: c33CertVal.NotBefore, NotAfter: c33CertVal.NotAfter,
				KeyName: fmt.Sprintf("c33/big/%d", i%8)})
			out[i] = c.X
		})
		return out
	}
	sens, reg := voters(cppki.Sensitive, 256), voters(cppki.Regular, 256)
	root := c33Cert(1, cppki.Root, 0, 0, c33Variant{name: "plain"}).X
	cases := []struct {
		label        string
		nS, nR, q    int
		rules        []string
	}{
		{"ok-quorum=255-voters=255", 255, 255, 255, nil},
		{"ok-quorum=255-voters=256", 256, 256, 255, nil},
		{"quorum=256-voters=256", 256, 256, 256, []string{"quorum-range"}},
		{"quorum=255-sensitive=254", 254, 255, 255, []string{"quorum-voters"}},
		{"quorum=255-regular=254", 255, 254, 255, []string{"quorum-voters"}},
	}
	mc.ParallelFor(len(cases), func(i int) {
		c := cases[i]
		s := sh
		s.nS, s.nR, s.quorum = c.nS, c.nR, c.q
		p := &c33P{shape: s}
		p.t = cppki.TRC{Version: 1, ID: cppki.TRCID{ISD: 1, Base: 1, Serial: 1}, Validity: c33TRCVal, Quorum: c.q,
			CoreASes: c33ASList(1, 0), AuthoritativeASes: c33ASList(1, 0), Description: "big"}
		p.t.Certificates = append(append(append([]*x509.Certificate{}, sens[:c.nS]...), reg[:c.nR]...), root)
		ev.eval(p, c.label, c.label, c.rules, nil, nil, true, false)
		ev.r.Case("big|"+c.label, true)
	})
}
