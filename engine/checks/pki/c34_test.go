package pki

import (
	"context"
	"crypto/elliptic"
	"crypto/x509"
	"encoding/pem"
	"fmt"
	"net"
	"os"
	"path/filepath"
	"sort"
	"strings"
	"sync/atomic"
	"testing"
	"testing/synctest"
	"time"

	"github.com/scionproto/scion/pkg/addr"
	"github.com/scionproto/scion/pkg/scrypto/cppki"
	"github.com/scionproto/scion/private/storage/db"
	"github.com/scionproto/scion/private/storage/trust/sqlite"
	"github.com/scionproto/scion/private/trust"

	"verif/mc"
	"verif/pkigen"
)

// C34: only properly formed chains rooted in an active TRC are trusted.
//
// Part A drives cppki.VerifyChain with chains assembled from a pool of roots (in / not in the TRC), CAs and AS
// certificates (correct and mis-issued) under every TRC option list and verification time of the alphabet.
// Part B drives the real trust.FetchingProvider.GetChains over a real sqlite trust DB inside a synctest bubble
// whose clock is moved to each instant of interest of a TRC history (base; base + update with grace period).
// The oracle never calls scion: every certificate of the pool carries, by construction, its issuer, its validity
// window and its defect (if any).

func c34H(h float64) time.Time { return c33T0.Add(time.Duration(h * float64(time.Hour))) }

func c34V(from, to float64) cppki.Validity {
	return cppki.Validity{NotBefore: c34H(from), NotAfter: c34H(to)}
}

// ---- certificate universe

type c34Node struct {
	c      *pkigen.Cert
	name   string
	issuer *c34Node // nil: self-signed
	defect string   // "" = issued per profile and really signed by issuer
}

func (n *c34Node) val() cppki.Validity {
	return cppki.Validity{NotBefore: n.c.X.NotBefore, NotAfter: n.c.X.NotAfter}
}

type c34Pool struct {
	ia1, ia2             addr.IA
	rtA, rtA2, rtB, rtX  *c34Node // rtA2: same subject as rtA, new key (renewed root); rtX: in no TRC
	rtShort              *c34Node // root expiring early (in the TRCs of part A only)
	rtImp                *c34Node // impostor: subject of rtA, other key, in no TRC
	caA, caA2, caB, caX  *c34Node
	caShort, caImp       *c34Node
	sens, reg            []*pkigen.Cert
}

func c34Root(ia addr.IA, name, keyName string, v cppki.Validity, curve elliptic.Curve) *c34Node {
	return &c34Node{name: name, c: pkigen.Must(pkigen.Spec{Type: cppki.Root, IA: ia, CN: name, KeyName: keyName, Curve: curve,
		NotBefore: v.NotBefore, NotAfter: v.NotAfter})}
}

func c34Issue(t cppki.CertType, iss *c34Node, ia addr.IA, name string, v cppki.Validity, defect string, mod func(*pkigen.Spec)) *c34Node {
	s := pkigen.Spec{Type: t, IA: ia, CN: name, NotBefore: v.NotBefore, NotAfter: v.NotAfter, Issuer: iss.c}
	if mod != nil {
		mod(&s)
	}
	return &c34Node{name: name, c: pkigen.Must(s), issuer: iss, defect: defect}
}

func c34MakePool() *c34Pool {
	p := &c34Pool{ia1: addr.MustParseIA("1-ff00:0:110"), ia2: addr.MustParseIA("2-ff00:0:210")}
	rv := c34V(0, 1000)
	p.rtA = c34Root(p.ia1, "c34 root A", "c34/rtA", rv, elliptic.P384())
	p.rtA2 = c34Root(p.ia1, "c34 root A", "c34/rtA2", c34V(90, 1000), elliptic.P256())
	p.rtB = c34Root(p.ia1, "c34 root B", "c34/rtB", rv, elliptic.P256())
	p.rtX = c34Root(p.ia1, "c34 root X", "c34/rtX", rv, elliptic.P256())
	p.rtImp = c34Root(p.ia1, "c34 root A", "c34/rtImp", rv, elliptic.P384())
	p.rtShort = c34Root(p.ia1, "c34 root short", "c34/rtShort", c34V(0, 50), elliptic.P256())
	cv := c34V(5, 900)
	p.caA = c34Issue(cppki.CA, p.rtA, p.ia1, "c34 ca A", cv, "", nil)
	p.caA2 = c34Issue(cppki.CA, p.rtA2, p.ia1, "c34 ca A2", c34V(95, 900), "", nil)
	p.caB = c34Issue(cppki.CA, p.rtB, p.ia1, "c34 ca B", cv, "", func(s *pkigen.Spec) { s.Curve = elliptic.P521() })
	p.caX = c34Issue(cppki.CA, p.rtX, p.ia1, "c34 ca X", cv, "", nil)
	p.caImp = c34Issue(cppki.CA, p.rtImp, p.ia1, "c34 ca imp", cv, "", nil)
	p.caShort = c34Issue(cppki.CA, p.rtShort, p.ia1, "c34 ca short", c34V(5, 100), "", nil)
	for i := 0; i < 2; i++ {
		p.sens = append(p.sens, pkigen.Sensitive(p.ia1, fmt.Sprintf("c34 sens %d", i), rv))
		p.reg = append(p.reg, pkigen.Regular(p.ia1, fmt.Sprintf("c34 reg %d", i), rv))
	}
	return p
}

// c34Chain is a candidate chain with what the generator knows about it.
type c34Chain struct {
	name  string
	certs []*c34Node
	// shape: "" if the list is {AS certificate, the CA certificate that issued it}; otherwise why not
	shape string
	// either: the statement does not decide this chain (reason)
	either string
}

func (c *c34Chain) x509() []*x509.Certificate {
	var out []*x509.Certificate
	for _, n := range c.certs {
		out = append(out, n.c.X)
	}
	return out
}

// defect returns the first reason why the chain cannot be accepted against any TRC at any time ("" if none).
func (c *c34Chain) defect() string {
	if c.shape != "" {
		return c.shape
	}
	for _, n := range c.certs {
		if n.defect != "" {
			return n.name + ":" + n.defect
		}
	}
	as, ca := c.certs[0], c.certs[1]
	if as.c.X.NotBefore.Before(ca.c.X.NotBefore) || as.c.X.NotAfter.After(ca.c.X.NotAfter) {
		return "ca-validity-does-not-cover-as"
	}
	return ""
}

func c34Chains(p *c34Pool) []*c34Chain {
	av := c34V(6, 800)
	good := func(name string, ca *c34Node, v cppki.Validity) *c34Chain {
		as := c34Issue(cppki.AS, ca, addr.MustParseIA("1-ff00:0:111"), "c34 as "+name, v, "", nil)
		return &c34Chain{name: name, certs: []*c34Node{as, ca}}
	}
	var out []*c34Chain
	gA, gB, gX, gA2 := good("good-A", p.caA, av), good("good-B", p.caB, av), good("good-X", p.caX, av), good("good-A2", p.caA2, c34V(96, 800))
	out = append(out, gA, gB, gX, gA2,
		good("good-imp", p.caImp, av), // CA issued by an impostor root carrying root A's subject
		good("good-short", p.caShort, c34V(6, 100)),
		good("as-eq-ca-validity", p.caB, c34V(5, 900)),
		good("as-expires-105", p.caB, c34V(6, 105)),
		good("as-starts-115", p.caB, c34V(115, 800)),
		good("as-notafter-after-ca", p.caB, c34V(6, 901)),
		good("as-notbefore-before-ca", p.caB, c34V(4, 800)),
	)
	asDefect := func(name, defect string, ca *c34Node, mod func(*pkigen.Spec)) {
		as := c34Issue(cppki.AS, ca, addr.MustParseIA("1-ff00:0:111"), "c34 as "+name, av, defect, mod)
		out = append(out, &c34Chain{name: name, certs: []*c34Node{as, ca}})
	}
	asDefect("as-no-digsig", "key usage digitalSignature missing", p.caB, func(s *pkigen.Spec) {
		s.Mutate = func(c *x509.Certificate) { c.KeyUsage = x509.KeyUsageContentCommitment }
	})
	asDefect("as-certsign", "key usage keyCertSign set", p.caB, func(s *pkigen.Spec) {
		s.Mutate = func(c *x509.Certificate) { c.KeyUsage |= x509.KeyUsageCertSign }
	})
	asDefect("as-no-timestamping", "id-kp-timeStamping missing", p.caB, func(s *pkigen.Spec) {
		s.Mutate = func(c *x509.Certificate) {
			c.ExtKeyUsage = []x509.ExtKeyUsage{x509.ExtKeyUsageServerAuth, x509.ExtKeyUsageClientAuth}
		}
	})
	asDefect("as-is-ca", "basic constraints cA true", p.caB, func(s *pkigen.Spec) {
		s.Mutate = func(c *x509.Certificate) { c.BasicConstraintsValid, c.IsCA = true, true }
	})
	asDefect("as-no-ia", "subject without ISD-AS", p.caB, func(s *pkigen.Spec) { s.NoIA = true })
	asDefect("as-wildcard-ia", "subject ISD-AS wildcard", p.caB, func(s *pkigen.Spec) { s.RawIA = "1-0" })
	asDefect("as-no-skid", "subject key id missing", p.caB, func(s *pkigen.Spec) {
		s.Mutate = func(c *x509.Certificate) { c.SubjectKeyId = nil }
	})
	asDefect("as-no-akid", "authority key id missing", p.caB, func(s *pkigen.Spec) { s.NoAuthorityKeyID = true })
	asDefect("as-forged-signature", "names ca B as issuer but is signed with another key", p.caB, func(s *pkigen.Spec) {
		s.SignKey = pkigen.Key("c34/forger")
	})
	// AS certificate of another ISD issued by this ISD's CA: not decided by the statement
	{
		as := c34Issue(cppki.AS, p.caB, addr.MustParseIA("2-ff00:0:211"), "c34 as foreign", av, "", nil)
		out = append(out, &c34Chain{name: "as-foreign-isd", certs: []*c34Node{as, p.caB}, either: "AS certificate names another ISD than the TRC"})
	}
	caDefect := func(name, defect string, root *c34Node, mod func(*pkigen.Spec)) {
		ca := c34Issue(cppki.CA, root, p.ia1, "c34 ca "+name, c34V(5, 900), defect, mod)
		as := c34Issue(cppki.AS, ca, addr.MustParseIA("1-ff00:0:111"), "c34 as under "+name, av, "", nil)
		out = append(out, &c34Chain{name: name, certs: []*c34Node{as, ca}})
	}
	caDefect("ca-digsig", "key usage digitalSignature set", p.rtB, func(s *pkigen.Spec) {
		s.Mutate = func(c *x509.Certificate) { c.KeyUsage |= x509.KeyUsageDigitalSignature }
	})
	caDefect("ca-no-ia", "subject without ISD-AS", p.rtB, func(s *pkigen.Spec) { s.NoIA = true })
	caDefect("ca-serverauth", "id-kp-serverAuth set", p.rtB, func(s *pkigen.Spec) {
		s.Mutate = func(c *x509.Certificate) { c.ExtKeyUsage = []x509.ExtKeyUsage{x509.ExtKeyUsageServerAuth} }
	})
	caDefect("ca-no-akid", "authority key id missing", p.rtB, func(s *pkigen.Spec) { s.NoAuthorityKeyID = true })
	caDefect("ca-forged-signature", "names root B as issuer but is signed with another key", p.rtB, func(s *pkigen.Spec) {
		s.SignKey = pkigen.Key("c34/forger")
	})
	// list shapes
	asB, asA := gB.certs[0], gA.certs[0]
	out = append(out,
		&c34Chain{name: "three-certs", certs: []*c34Node{asB, p.caB, p.rtB}, shape: "three certificates"},
		&c34Chain{name: "as-only", certs: []*c34Node{asB}, shape: "one certificate"},
		&c34Chain{name: "empty", certs: nil, shape: "no certificate"},
		&c34Chain{name: "swapped", certs: []*c34Node{p.caB, asB}, shape: "CA first"},
		&c34Chain{name: "ca-ca", certs: []*c34Node{p.caB, p.caB}, shape: "CA in place of the AS certificate"},
		&c34Chain{name: "as-as", certs: []*c34Node{asB, asB}, shape: "AS certificate in place of the CA"},
		&c34Chain{name: "ca-root", certs: []*c34Node{p.caB, p.rtB}, shape: "CA and root"},
		&c34Chain{name: "as-root", certs: []*c34Node{asB, p.rtB}, shape: "root in place of the CA"},
		&c34Chain{name: "as-A-with-ca-B", certs: []*c34Node{asA, p.caB}, shape: "CA certificate is not the issuer of the AS certificate"},
		&c34Chain{name: "as-B-with-ca-A", certs: []*c34Node{asB, p.caA}, shape: "CA certificate is not the issuer of the AS certificate"},
	)
	// an AS certificate issued by an AS certificate
	{
		sub := c34Issue(cppki.AS, asB, addr.MustParseIA("1-ff00:0:112"), "c34 as under as", av, "", nil)
		out = append(out, &c34Chain{name: "as-issued-by-as", certs: []*c34Node{sub, asB}, shape: "issuer is an AS certificate"})
	}
	return out
}

// ---- the oracle

const (
	c34Reject = iota
	c34Accept
	c34EitherV
)

func c34In(v cppki.Validity, t time.Time) (inside, boundary bool) {
	if t.Equal(v.NotBefore) || t.Equal(v.NotAfter) {
		return false, true
	}
	return t.After(v.NotBefore) && t.Before(v.NotAfter), false
}

// c34Spec: is the chain acceptable at time t against trust anchors `roots`?
func c34Spec(c *c34Chain, roots []*c34Node, t time.Time) (int, string) {
	if d := c.defect(); d != "" {
		return c34Reject, "malformed:" + c.name
	}
	ca := c.certs[1]
	anchored := false
	for _, r := range roots {
		if r == ca.issuer {
			anchored = true
		}
	}
	if !anchored {
		return c34Reject, "root-not-in-trc"
	}
	boundary := false
	for _, n := range []*c34Node{c.certs[0], ca, ca.issuer} {
		in, b := c34In(n.val(), t)
		if b {
			boundary = true
		} else if !in {
			return c34Reject, "outside-validity-of-" + strings.Fields(n.name)[1]
		}
	}
	if boundary {
		return c34EitherV, "exact-validity-boundary"
	}
	if c.either != "" {
		return c34EitherV, c.either
	}
	return c34Accept, "ok"
}

// ---- part A

type c34TRCOpt struct {
	name  string
	trcs  []*cppki.TRC
	roots []*c34Node
}

func c34BaseTRC(p *c34Pool, serial uint64, v cppki.Validity, grace time.Duration, roots []*c34Node, votes []int) cppki.TRC {
	t := cppki.TRC{Version: 1, ID: cppki.TRCID{ISD: 1, Base: 1, Serial: 1}, Validity: v, Quorum: 2,
		CoreASes: []addr.AS{p.ia1.AS()}, AuthoritativeASes: []addr.AS{p.ia1.AS()}, Description: "c34"}
	if serial > 1 {
		t.ID.Serial = 2
		t.GracePeriod = grace
		t.Votes = votes
	}
	t.Certificates = pkigen.Certs(p.sens[0], p.sens[1], p.reg[0], p.reg[1])
	for _, r := range roots {
		t.Certificates = append(t.Certificates, r.c.X)
	}
	return t
}

func TestC34(t *testing.T) {
	r := mc.NewRun(t, "C34", mc.Exploration)
	r.Rule = "part A: every chain of the pool (11 well-formed chains under roots in/not in the TRC incl. a renewed root, an impostor root with " +
		"the same subject and an early-expiring root; 9 mis-issued AS certificates; 5 mis-issued CA certificates; 11 malformed certificate lists) x " +
		"every TRC option list {none, zero, T1, T2, T3(short-lived root), T1+T2, T2+T1, zero+T1, T3+T2, T-without-roots(+T2)} x verification times at -1s/exact/+1s around every " +
		"notBefore/notAfter of the chain and its root plus interior points; part B: TRC histories {base; base+update(grace); base expiring inside " +
		"the grace period} x clock instants around every TRC/grace boundary x every chain placed in the DB or offered by the fetcher (single, all in " +
		"DB, all fetched) through the real FetchingProvider + sqlite DB in a synctest bubble; part C: trust.LoadChains from directories holding several " +
		"chain files (every ordered pair and triple of representative good/bad chains - thorough: every ordered pair of all chains - and all chains " +
		"forwards/backwards) under the same histories and instants, judging the DB content and what GetChains hands out afterwards. distinct key = chain, TRC list / history, time, placement; " +
		"non-trivial = chain well-formed or time inside some window"
	pool := c34MakePool()
	chains := c34Chains(pool)
	c34PartA(r, pool, chains)
	c34PartB(t, r, pool, chains)
	r.Assumptions = []string{
		"exact boundary instants (t == notBefore / notAfter of a certificate, TRC or grace period) accept either verdict",
		"an AS certificate naming another ISD than the TRC is not decided by the statement (either verdict)",
		"a predecessor TRC that itself expired inside the successor's grace period: either verdict (statement: 'during the grace period'; trc.rst additionally ends it at the predecessor's expiry)",
		"GetChains is exercised with default options (AllowInactive is an explicit opt-out of verification); besides soundness (nothing handed out that the spec rejects) completeness is demanded for chains the spec accepts, following the TRC selection algorithm of trc.rst",
		"SHOULD-level profile deviations (path length) are not in the alphabet",
	}
	r.Finish(6)
}

func c34PartA(r *mc.Run, p *c34Pool, chains []*c34Chain) {
	signT := func(t cppki.TRC, pred *cppki.TRC) *cppki.TRC {
		s, err := pkigen.Sign(t, p.sens[0], p.sens[1], p.reg[0], p.reg[1])
		if err != nil {
			r.HarnessError("signing TRC: %v", err)
			return &cppki.TRC{}
		}
		if err := s.Verify(pred); err != nil {
			r.HarnessError("own TRC does not verify: %v", err)
		}
		return &s.TRC
	}
	t1 := signT(c34BaseTRC(p, 1, c34V(10, 300), 0, []*c34Node{p.rtA, p.rtB}, nil), nil)
	t2 := signT(c34BaseTRC(p, 2, c34V(100, 400), 20*time.Hour, []*c34Node{p.rtA2, p.rtB}, []int{0, 1}), t1)
	t3 := signT(c34BaseTRC(p, 1, c34V(10, 40), 0, []*c34Node{p.rtShort}, nil), nil) // its root expires at hour 50
	t0roots := signT(c34BaseTRC(p, 1, c34V(10, 300), 0, nil, nil), nil)
	r1, r2, r3 := []*c34Node{p.rtA, p.rtB}, []*c34Node{p.rtA2, p.rtB}, []*c34Node{p.rtShort}
	opts := []c34TRCOpt{
		{"none", nil, nil}, {"zero", []*cppki.TRC{{}}, nil},
		{"T1", []*cppki.TRC{t1}, r1}, {"T2", []*cppki.TRC{t2}, r2}, {"T3", []*cppki.TRC{t3}, r3},
		{"T1,T2", []*cppki.TRC{t1, t2}, append(append([]*c34Node{}, r1...), r2...)},
		{"T2,T1", []*cppki.TRC{t2, t1}, append(append([]*c34Node{}, r2...), r1...)},
		{"zero,T1", []*cppki.TRC{{}, t1}, r1},
		{"T3,T2", []*cppki.TRC{t3, t2}, append(append([]*c34Node{}, r3...), r2...)},
		{"T-without-roots", []*cppki.TRC{t0roots}, nil},
		{"T-without-roots,T2", []*cppki.TRC{t0roots, t2}, r2},
	}
	// a nil *TRC in the option list is caller misuse (verifyChain refuses it, VerifyChain then dereferences it while
	// building the error): recorded, not judged
	if pn := mc.Safely(func() {
		_ = cppki.VerifyChain(chains[0].x509(), cppki.VerifyOptions{TRC: []*cppki.TRC{nil}, CurrentTime: c34H(50)})
	}); pn != nil {
		r.Extra["observation_nil_trc_option"] = "VerifyChain panics on a nil *TRC in VerifyOptions.TRC (nil dereference while wrapping the error)"
	}
	for _, c := range chains {
		// times: around every window edge of the chain's certificates and their root, and interior points
		tset := map[time.Time]bool{c34H(-1): true, c34H(7): true, c34H(110): true, c34H(500): true, c34H(850): true, c34H(2000): true}
		nodes := append([]*c34Node{}, c.certs...)
		if len(c.certs) == 2 && c.certs[1].issuer != nil {
			nodes = append(nodes, c.certs[1].issuer)
		}
		for _, n := range nodes {
			for _, e := range []time.Time{n.c.X.NotBefore, n.c.X.NotAfter} {
				tset[e.Add(-time.Second)], tset[e], tset[e.Add(time.Second)] = true, true, true
			}
		}
		var times []time.Time
		for tm := range tset {
			times = append(times, tm)
		}
		sort.Slice(times, func(i, j int) bool { return times[i].Before(times[j]) })
		for _, o := range opts {
			for _, tm := range times {
				verdict, why := c34Spec(c, o.roots, tm)
				var err error
				if pn := mc.Safely(func() { err = cppki.VerifyChain(c.x509(), cppki.VerifyOptions{TRC: o.trcs, CurrentTime: tm}) }); pn != nil {
					r.Violation("verifychain-panic:"+c.name+":trc="+o.name, fmt.Sprint(pn))
					continue
				}
				in := false
				for _, n := range c.certs {
					if i, _ := c34In(n.val(), tm); i {
						in = true
					}
				}
				r.Case(fmt.Sprintf("A|%s|%s|%v", c.name, o.name, tm.Unix()), c.defect() == "" || in)
				det := map[string]any{"chain": c.name, "trc_options": o.name, "time_h": tm.Sub(c33T0).Hours(), "spec": why, "verify_error": fmt.Sprint(err)}
				switch verdict {
				case c34Reject:
					if err == nil {
						r.Violation("verifychain-accepted:"+why, det)
					}
					r.Outcome("A-rejected:" + strings.SplitN(why, ":", 2)[0])
				case c34Accept:
					if err != nil {
						r.Violation("verifychain-rejected-good-chain:"+c.name, det)
					}
					r.Outcome("A-accepted")
				default:
					r.Outcome(fmt.Sprintf("A-unconstrained(%s)-accepted=%v", why, err == nil))
				}
			}
		}
	}
}

// ---- part B: the provider

type c34Fetcher struct {
	chains [][]*x509.Certificate
	calls  int
}

func (f *c34Fetcher) Chains(context.Context, trust.ChainQuery, net.Addr) ([][]*x509.Certificate, error) {
	f.calls++
	return f.chains, nil
}

func (f *c34Fetcher) TRC(context.Context, cppki.TRCID, net.Addr) (cppki.SignedTRC, error) {
	return cppki.SignedTRC{}, fmt.Errorf("no TRC fetching in C34")
}

type c34Router struct{}

func (c34Router) ChooseServer(context.Context, addr.ISD) (net.Addr, error) {
	return &net.TCPAddr{IP: net.IPv4(127, 0, 0, 34), Port: 30252}, nil
}

type c34History struct {
	name   string
	signed []cppki.SignedTRC
	// latest/pred description for the oracle
	latestVal cppki.Validity
	grace     *cppki.Validity // nil: latest is a base TRC
	predVal   cppki.Validity
	latest    []*c34Node
	pred      []*c34Node
}

// c34Expect: may the provider (GetChains, LoadChains) trust chain c at instant now under TRC history h?
func c34Expect(h *c34History, now time.Time, c *c34Chain) (int, string) {
	if len(h.signed) == 0 {
		return c34Reject, "no-trc"
	}
	in, b := c34In(h.latestVal, now)
	if !in && !b {
		return c34Reject, "latest-trc-not-valid"
	}
	v, why := c34Spec(c, h.latest, now)
	if v == c34Accept && b {
		return c34EitherV, "exact-trc-validity-boundary"
	}
	if v != c34Reject && h.grace != nil && h.pred == nil {
		if gin, gb := c34In(*h.grace, now); gin || gb {
			return c34EitherV, "predecessor-missing-inside-grace"
		}
	}
	if v != c34Reject {
		return v, "latest:" + why
	}
	if h.grace == nil {
		return v, "latest:" + why
	}
	gin, gb := c34In(*h.grace, now)
	if !gin && !gb {
		return v, "after-grace:" + why
	}
	if h.pred == nil {
		// the predecessor is not in the DB: the provider cannot evaluate the grace period at all
		return c34EitherV, "predecessor-missing-inside-grace"
	}
	pv, pwhy := c34Spec(c, h.pred, now)
	if pv == c34Reject {
		return c34Reject, "in-grace-neither-trc:" + pwhy
	}
	if b || gb || pv == c34EitherV {
		return c34EitherV, "boundary"
	}
	if pin, _ := c34In(h.predVal, now); !pin {
		return c34EitherV, "predecessor-expired-inside-grace"
	}
	return c34Accept, "predecessor-in-grace"
}

var c34DBCtr atomic.Int64

func c34PartB(t *testing.T, r *mc.Run, p *c34Pool, all []*c34Chain) {
	sign := func(tr cppki.TRC) cppki.SignedTRC {
		s, err := pkigen.Sign(tr, p.sens[0], p.sens[1], p.reg[0], p.reg[1])
		if err != nil {
			r.HarnessError("signing TRC: %v", err)
		}
		return s
	}
	r1, r2 := []*c34Node{p.rtA, p.rtB}, []*c34Node{p.rtA2, p.rtB}
	s1 := sign(c34BaseTRC(p, 1, c34V(10, 300), 0, r1, nil))
	s1short := sign(c34BaseTRC(p, 1, c34V(10, 110), 0, r1, nil))
	s2 := sign(c34BaseTRC(p, 2, c34V(100, 400), 20*time.Hour, r2, []int{0, 1}))
	if err := s2.Verify(&s1.TRC); err != nil {
		r.HarnessError("update does not verify: %v", err)
	}
	if err := s2.Verify(&s1short.TRC); err != nil {
		r.HarnessError("update does not verify: %v", err)
	}
	g := c34V(100, 120)
	hists := []c34History{
		{name: "base", signed: []cppki.SignedTRC{s1}, latestVal: c34V(10, 300), latest: r1},
		{name: "base+update", signed: []cppki.SignedTRC{s1, s2}, latestVal: c34V(100, 400), grace: &g, predVal: c34V(10, 300), latest: r2, pred: r1},
		{name: "shortbase+update", signed: []cppki.SignedTRC{s1short, s2}, latestVal: c34V(100, 400), grace: &g, predVal: c34V(10, 110), latest: r2, pred: r1},
		{name: "update-without-predecessor", signed: []cppki.SignedTRC{s2}, latestVal: c34V(100, 400), grace: &g, predVal: c34V(10, 300), latest: r2, pred: nil},
		{name: "no-trc", signed: nil},
	}
	times := map[string][]float64{
		"base":                       {9, 10, 11, 50, 104, 106, 299, 300, 301},
		"base+update":                {50, 99, 100, 101, 104, 106, 110, 116, 119.9, 120, 120.1, 200, 399, 400, 401},
		"shortbase+update":           {99, 101, 109, 110, 111, 116, 120.1, 200},
		"update-without-predecessor": {99, 101, 110, 121, 401},
		"no-trc":                     {50},
	}
	if mc.Thorough() {
		// a regular grid over the whole timeline in addition to the boundary instants
		for name := range times {
			if name == "no-trc" {
				continue
			}
			for h := 2.5; h < 410; h += 7 {
				times[name] = append(times[name], h)
			}
		}
	}
	// chains that are storable at all (the sqlite DB needs an ISD-AS in the AS certificate and exactly two certificates)
	var chains []*c34Chain
	for _, c := range all {
		if len(c.certs) == 2 && c.certs[0].c.Spec.Type == cppki.AS && !c.certs[0].c.Spec.NoIA && c.certs[0].c.Spec.RawIA == "" &&
			c.name != "good-short" {
			chains = append(chains, c)
		}
	}
	// the chains table needs a subject key id
	storable := func(c *c34Chain) bool { return len(c.certs[0].c.X.SubjectKeyId) > 0 }
	type placement struct {
		name        string
		inDB, fetch []*c34Chain
	}
	var places []placement
	for _, c := range chains {
		places = append(places, placement{"fetch:" + c.name, nil, []*c34Chain{c}})
		if storable(c) {
			places = append(places, placement{"db:" + c.name, []*c34Chain{c}, nil})
		}
	}
	var dbChains []*c34Chain
	for _, c := range chains {
		if storable(c) {
			dbChains = append(dbChains, c)
		}
	}
	places = append(places, placement{"db:all", dbChains, nil}, placement{"fetch:all", nil, chains})
	var even, odd []*c34Chain
	for i, c := range dbChains {
		if i%2 == 0 {
			even = append(even, c)
		} else {
			odd = append(odd, c)
		}
	}
	places = append(places, placement{"db:even+fetch:odd", even, odd}, placement{"db:odd+fetch:even", odd, even})

	type job struct {
		h  *c34History
		at float64
		pl placement
	}
	var jobs []job
	for i := range hists {
		h := &hists[i]
		for _, at := range times[h.name] {
			for _, pl := range places {
				if !mc.Thorough() && h.name != "base+update" && !strings.HasSuffix(pl.name, "all") && !strings.Contains(pl.name, "good") &&
					!strings.Contains(pl.name, "+") {
					continue // quick: the side histories only with the well-formed chains and the bulk placements
				}
				jobs = append(jobs, job{h, at, pl})
			}
		}
	}
	r.Extra["provider_cases"] = len(jobs)
	var notHandedOut, eitherSeen atomic.Int64
	mc.ParallelFor(len(jobs), func(i int) {
		if r.OutOfBudget() {
			return
		}
		j := jobs[i]
		synctest.Test(t, func(t *testing.T) {
			now := c34H(j.at)
			time.Sleep(time.Until(now))
			d, err := sqlite.New(fmt.Sprintf("c34-%d", c34DBCtr.Add(1)), &db.SqliteConfig{InMemory: true, MaxOpenReadConns: 2})
			if err != nil {
				r.HarnessError("sqlite: %v", err)
				return
			}
			defer d.Close()
			ctx := context.Background()
			for _, s := range j.h.signed {
				if _, err := d.InsertTRC(ctx, s); err != nil {
					r.HarnessError("InsertTRC: %v", err)
					return
				}
			}
			for _, c := range j.pl.inDB {
				if _, err := d.InsertChain(ctx, c.x509()); err != nil {
					r.HarnessError("InsertChain %s: %v", c.name, err)
					return
				}
			}
			f := &c34Fetcher{}
			for _, c := range j.pl.fetch {
				f.chains = append(f.chains, c.x509())
			}
			prov := trust.FetchingProvider{DB: d, Recurser: trust.LocalOnlyRecurser{}, Fetcher: f, Router: c34Router{}}
			var got [][]*x509.Certificate
			var gerr error
			if pn := mc.Safely(func() { got, gerr = prov.GetChains(ctx, trust.ChainQuery{IA: addr.MustParseIA("1-ff00:0:111")}) }); pn != nil {
				r.HarnessError("GetChains panicked: %v", pn)
				return
			}
			if !time.Now().Equal(now) {
				r.HarnessError("virtual clock moved during GetChains")
			}
			handed := map[string]bool{}
			for _, g := range got {
				if len(g) == 2 {
					handed[string(g[0].Raw)+string(g[1].Raw)] = true
				}
			}
			// oracle
			expect := func(c *c34Chain) (int, string) { return c34Expect(j.h, now, c) }
			candidates := append(append([]*c34Chain{}, j.pl.inDB...), j.pl.fetch...)
			// the fetcher is only consulted when the DB has nothing verifiable; completeness for fetched chains is only
			// demanded in that situation
			dbHasAccept := false
			for _, c := range j.pl.inDB {
				if v, _ := expect(c); v != c34Reject {
					dbHasAccept = true
				}
			}
			for _, c := range candidates {
				v, why := expect(c)
				x := c.x509()
				was := handed[string(x[0].Raw)+string(x[1].Raw)]
				fetched := false
				for _, fc := range j.pl.fetch {
					if fc == c {
						fetched = true
					}
				}
				src := "db"
				if fetched {
					src = "fetched"
				}
				det := map[string]any{"history": j.h.name, "now_h": j.at, "placement": j.pl.name, "chain": c.name, "spec": why, "get_chains_error": fmt.Sprint(gerr)}
				r.Case(fmt.Sprintf("B|%s|%v|%s|%s", j.h.name, j.at, j.pl.name, c.name), true)
				switch v {
				case c34Reject:
					if was {
						k := why
						if strings.Contains(why, "malformed") {
							k = "malformed-chain"
						}
						r.Violation(fmt.Sprintf("provider-handed-out:%s:%s", src, k), det)
					}
					r.Outcome("B-withheld:" + strings.SplitN(strings.SplitN(why, ":", 2)[0], "-of-", 2)[0])
				case c34Accept:
					if !was && !(fetched && dbHasAccept) {
						notHandedOut.Add(1)
						r.Violation(fmt.Sprintf("provider-withheld-verifiable-chain:%s:%s", src, strings.SplitN(why, ":", 2)[0]), det)
					}
					if was {
						r.Outcome("B-handed-out:" + strings.SplitN(why, ":", 2)[0])
					}
				default:
					eitherSeen.Add(1)
					r.Outcome(fmt.Sprintf("B-unconstrained(%s)-handed-out=%v", strings.SplitN(why, ":", 2)[0], was))
				}
			}
			if len(handed) > len(candidates) {
				r.Violation("provider-handed-out:unknown-chain", map[string]any{"history": j.h.name, "now_h": j.at, "placement": j.pl.name})
			}
		})
	})
	if r.OutOfBudget() {
		r.Capped("budget reached in the provider part")
	}
	r.Extra["provider_unconstrained_cases"] = eitherSeen.Load()
	c34PartLoad(t, r, all, hists)
	r.Sample(map[string]any{"history": "base+update", "now_h": 110, "placement": "db:good-A", "spec": "handed out: verifies against the predecessor inside the grace period"})
	r.Sample(map[string]any{"history": "base+update", "now_h": 120.1, "placement": "fetch:good-A", "spec": "withheld: grace period over, root A replaced"})
	r.Sample(map[string]any{"chain": "good-imp", "trc_options": "T1", "spec": "rejected: CA issued by an impostor root with root A's subject"})
}

// ---- part C: trust.LoadChains from directories holding several chain files in every order

func c34PEM(c *c34Chain) []byte {
	var out []byte
	for _, x := range c.x509() {
		out = append(out, pem.EncodeToMemory(&pem.Block{Type: "CERTIFICATE", Bytes: x.Raw})...)
	}
	return out
}

func c34PartLoad(t *testing.T, r *mc.Run, all []*c34Chain, hists []c34History) {
	byName := map[string]*c34Chain{}
	var files []*c34Chain // everything that can be written as a non-empty PEM bundle
	for _, c := range all {
		byName[c.name] = c
		if len(c.certs) > 0 {
			files = append(files, c)
		}
	}
	pick := func(names ...string) []*c34Chain {
		var out []*c34Chain
		for _, n := range names {
			if byName[n] == nil {
				r.HarnessError("no chain %q", n)
				continue
			}
			out = append(out, byName[n])
		}
		return out
	}
	rep := pick("good-B", "good-A", "good-A2", "good-X", "good-imp", "as-expires-105", "as-forged-signature", "ca-forged-signature",
		"as-A-with-ca-B", "as-notafter-after-ca", "three-certs")
	rep3 := pick("good-B", "good-X", "good-A", "good-imp", "as-forged-signature")
	var seqs [][]*c34Chain
	pairsOf := rep
	if mc.Thorough() {
		pairsOf = files
	}
	for _, a := range pairsOf {
		for _, b := range pairsOf {
			if a != b {
				seqs = append(seqs, []*c34Chain{a, b})
			}
		}
	}
	triplesOf := rep3
	if mc.Thorough() {
		triplesOf = rep
	}
	for _, a := range triplesOf {
		for _, b := range triplesOf {
			for _, c := range triplesOf {
				if a != b && b != c && a != c {
					seqs = append(seqs, []*c34Chain{a, b, c})
				}
			}
		}
	}
	bulk := len(seqs)
	rev := append([]*c34Chain{}, files...)
	for i, j := 0, len(rev)-1; i < j; i, j = i+1, j-1 {
		rev[i], rev[j] = rev[j], rev[i]
	}
	seqs = append(seqs, files, rev)
	// one directory per sequence; file names sort in sequence order (LoadChains walks the sorted glob)
	root := t.TempDir()
	dirs := make([]string, len(seqs))
	for i, sq := range seqs {
		dirs[i] = filepath.Join(root, fmt.Sprintf("seq%05d", i))
		if err := os.MkdirAll(dirs[i], 0o755); err != nil {
			r.HarnessError("mkdir: %v", err)
			return
		}
		for k, c := range sq {
			if err := os.WriteFile(filepath.Join(dirs[i], fmt.Sprintf("%03d-%s.pem", k, c.name)), c34PEM(c), 0o644); err != nil {
				r.HarnessError("write: %v", err)
				return
			}
		}
	}
	times := map[string][]float64{
		"base":                       {50, 301},
		"base+update":                {99, 110, 121},
		"shortbase+update":           {115},
		"update-without-predecessor": {110, 121},
		"no-trc":                     {50},
	}
	type job struct {
		h   *c34History
		at  float64
		seq int
	}
	var jobs []job
	for i := range hists {
		h := &hists[i]
		for ti, at := range times[h.name] {
			for si := range seqs {
				if !mc.Thorough() && si < bulk && !(h.name == "base+update" && at > 100) && !(h.name == "base" && ti == 0) {
					continue // quick: the pair/triple sequences under the valid base TRC and inside/after the grace period
				}
				jobs = append(jobs, job{h, at, si})
			}
		}
	}
	r.Extra["loadchains_sequences"] = len(seqs)
	r.Extra["loadchains_cases"] = len(jobs)
	mc.ParallelFor(len(jobs), func(i int) {
		if r.OutOfBudget() {
			return
		}
		j := jobs[i]
		sq := seqs[j.seq]
		synctest.Test(t, func(t *testing.T) {
			now := c34H(j.at)
			time.Sleep(time.Until(now))
			d, err := sqlite.New(fmt.Sprintf("c34-load-%d", c34DBCtr.Add(1)), &db.SqliteConfig{InMemory: true, MaxOpenReadConns: 2})
			if err != nil {
				r.HarnessError("sqlite: %v", err)
				return
			}
			defer d.Close()
			ctx := context.Background()
			for _, s := range j.h.signed {
				if _, err := d.InsertTRC(ctx, s); err != nil {
					r.HarnessError("InsertTRC: %v", err)
					return
				}
			}
			var lerr error
			if pn := mc.Safely(func() { _, lerr = trust.LoadChains(ctx, dirs[j.seq], d) }); pn != nil {
				r.HarnessError("LoadChains panicked: %v", pn)
				return
			}
			stored := map[string]bool{}
			inDB, err := d.Chains(ctx, trust.ChainQuery{})
			if err != nil {
				r.HarnessError("Chains: %v", err)
				return
			}
			for _, g := range inDB {
				stored[string(g[0].Raw)+string(g[1].Raw)] = true
			}
			prov := trust.FetchingProvider{DB: d, Recurser: trust.LocalOnlyRecurser{}, Fetcher: &c34Fetcher{}, Router: c34Router{}}
			var got [][]*x509.Certificate
			var gerr error
			if pn := mc.Safely(func() { got, gerr = prov.GetChains(ctx, trust.ChainQuery{IA: addr.MustParseIA("1-ff00:0:111")}) }); pn != nil {
				r.HarnessError("GetChains panicked: %v", pn)
				return
			}
			handed := map[string]bool{}
			for _, g := range got {
				if len(g) == 2 {
					handed[string(g[0].Raw)+string(g[1].Raw)] = true
				}
			}
			var names []string
			for _, c := range sq {
				names = append(names, c.name)
			}
			order := strings.Join(names, " < ")
			if len(sq) > 3 {
				order = fmt.Sprintf("all %d chains, first %s", len(sq), sq[0].name)
			}
			known := 0
			for pos, c := range sq {
				v, why := c34Expect(j.h, now, c)
				x := c.x509()
				id := ""
				if len(x) == 2 {
					id = string(x[0].Raw) + string(x[1].Raw)
				}
				was, out := id != "" && stored[id], id != "" && handed[id]
				if was {
					known++
				}
				class := strings.SplitN(strings.SplitN(why, ":", 2)[0], "-of-", 2)[0]
				if strings.Contains(why, "malformed") {
					class = "malformed-chain"
				} else if strings.Contains(why, "root-not-in-trc") {
					class = "root-not-in-trc"
				}
				det := map[string]any{"history": j.h.name, "now_h": j.at, "directory_order": order, "position": pos, "chain": c.name,
					"spec": why, "load_error": fmt.Sprint(lerr), "get_chains_error": fmt.Sprint(gerr)}
				r.Case(fmt.Sprintf("C|%s|%v|%d|%d", j.h.name, j.at, j.seq, pos), true)
				switch v {
				case c34Reject:
					if was {
						r.Violation("loadchains-stored:"+class, det)
					}
					if out {
						r.Violation("provider-handed-out:loaded:"+class, det)
					}
					r.Outcome("C-not-loaded:" + class)
				case c34Accept:
					if !was {
						r.Violation("loadchains-ignored-verifiable-chain:"+class, det)
					} else if !out && c.certs[0].c.Spec.IA == addr.MustParseIA("1-ff00:0:111") {
						r.Violation("provider-withheld-verifiable-chain:loaded:"+class, det)
					}
					if was {
						r.Outcome("C-loaded:" + class)
					}
				default:
					r.Outcome(fmt.Sprintf("C-unconstrained(%s)-loaded=%v", class, was))
				}
			}
			if len(stored) > known {
				r.Violation("loadchains-stored:unknown-chain", map[string]any{"history": j.h.name, "now_h": j.at, "directory_order": order})
			}
		})
	})
	if r.OutOfBudget() {
		r.Capped("budget reached in the LoadChains part")
	}
	r.Sample(map[string]any{"history": "base+update", "now_h": 121, "directory_order": "good-B < good-X < good-A", "spec": "only good-B loaded and handed out (X: root in no TRC, A: grace period over)"})
}
