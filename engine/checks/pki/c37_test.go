package pki

import (
	"bytes"
	"context"
	"crypto/ecdsa"
	"crypto/elliptic"
	"crypto/rand"
	"crypto/sha1"
	"crypto/sha256"
	"crypto/x509"
	"crypto/x509/pkix"
	"fmt"
	"sort"
	"sync/atomic"
	"testing"
	"testing/synctest"
	"time"

	"github.com/scionproto/scion/pkg/addr"
	"github.com/scionproto/scion/pkg/scrypto/cms/oid"
	"github.com/scionproto/scion/pkg/scrypto/cms/protocol"
	"github.com/scionproto/scion/pkg/scrypto/cppki"
	"github.com/scionproto/scion/pkg/scrypto/signed"
	"github.com/scionproto/scion/private/ca/renewal"
	"github.com/scionproto/scion/private/storage/db"
	"github.com/scionproto/scion/private/storage/trust/sqlite"
	"github.com/scionproto/scion/private/trust"

	"verif/mc"
	"verif/pkigen"
)

// C37: certificate renewal is granted only to the certified AS itself.
//
// Part 1 (requests): a request is a point in the product of five independent dimensions (signer infos, included
// certificates, client chain x TRC timeline, signed payload, CSR), each with one good value and several deviations.
// It is assembled by a clean-room CMS builder (pkigen.SignerInfo: RFC 5652 signed attributes, own SID choice) and, for
// the all-good point, also by the real NewChainRenewalRequest/trust.Signer.SignCMS. The real
// RequestVerifier.VerifyCMSSignedRenewalRequest runs against real sqlite trust DBs holding real CMS-signed TRCs, under
// the frozen bubble clock T0. Reference: accepted iff every dimension has its good value (statement).
// Part 2 (issuance): CAPolicy.CreateChain over CA windows x validity x signing time x key curve x subject shape.

type c37TL struct {
	name string
	db   *sqlite.DB
	// reference facts at T0
	latestValid  bool            // latest TRC's validity contains now
	latestRoots  map[string]bool // roots of the latest TRC
	inGrace      bool            // now <= latest.NotBefore + grace and latest is an update
	predRoots    map[string]bool
	predValidNow bool
}

type c37Chain struct {
	name       string
	root       string // which root the CA hangs under ("" = n/a)
	validAt    bool   // AS certificate valid at T0
	wellFormed bool   // AS type certificate issued by the included CA
	as         *pkigen.Cert
	ca         *pkigen.Cert
}

func TestC37(t *testing.T) {
	r := mc.NewRun(t, "C37", mc.Exploration)
	r.Rule = "part 1: product of signer-info variants (9) x certificate-set variants (6) x client chains (10, incl. chains whose CA certificate carries the AS's own ISD-AS) x TRC timelines (14: latest only / update with the grace period running, ending now, over x predecessor validity ending before, 1 s before, at, 1 s after, long after now) x " +
		"signed-payload variants (3) x CSR variants (8); quick = all points with <= 3 deviating dimensions, thorough = the full " +
		"product; one case = one VerifyCMSSignedRenewalRequest call; part 1b: AS-key-signed message-digest attributes of every length 0..33 (prefixes of the true digest) and wrong digests of the right length x transmitted CSR {same, another}; part 2: CreateChain for every CA window x validity x signing " +
		"time x curve x subject x ForceECDSAWithSHA512; non-trivial = every case (all inputs pairwise different)"
	var budget atomic.Bool
	done := make(chan struct{})
	go func() {
		for !r.OutOfBudget() {
			select {
			case <-done:
				return
			case <-time.After(200 * time.Millisecond):
			}
		}
		budget.Store(true)
	}()
	synctest.Test(t, func(t *testing.T) { c37Run(r, &budget) })
	close(done)
	if budget.Load() {
		r.Capped("internal budget reached")
	}
	r.Finish(6)
}

var c37DBCtr atomic.Int64

func c37Run(r *mc.Run, budget *atomic.Bool) {
	ctx := context.Background()
	T0 := time.Now()
	d, h, m := 24*time.Hour, time.Hour, time.Minute
	victim := addr.MustIAFrom(1, 0xff0000000110)
	otherIA := addr.MustIAFrom(1, 0xff0000000111)
	otherISD := addr.MustIAFrom(2, 0xff0000000110)
	core := addr.MustIAFrom(1, 0xff0000000001)
	long := cppki.Validity{NotBefore: T0.Add(-400 * d), NotAfter: T0.Add(400 * d)}
	caVal := cppki.Validity{NotBefore: T0.Add(-300 * d), NotAfter: T0.Add(300 * d)}
	roots, cas := map[string]*pkigen.Cert{}, map[string]*pkigen.Cert{}
	for _, n := range []string{"keep", "old", "new", "rogue"} {
		roots[n] = pkigen.Root(core, "c37-root-"+n, long)
		cas[n] = pkigen.CA(roots[n], core, "c37-ca-"+n, caVal)
	}
	sens := pkigen.Sensitive(core, "c37-sensitive", long)
	reg := pkigen.Regular(core, "c37-regular", long)

	// ---- timelines ----
	type tlSpec struct {
		name   string
		base   *[2]time.Duration
		update *[2]time.Duration
		grace  time.Duration
	}
	w := func(a, b time.Duration) *[2]time.Duration { return &[2]time.Duration{a, b} }
	specs := []tlSpec{
		{"latest-active", w(-10*d, 10*d), nil, 0},
		{"update-in-grace", w(-10*d, 10*d), w(-h, 5*d), 2 * h},
		{"update-grace-over", w(-10*d, 10*d), w(-h, 5*d), 30 * m},
		{"latest-expired", w(-10*d, -h), nil, 0},
		{"update-expired", w(-10*d, 10*d), w(-2*h, -m), 3 * h},
		{"grace-predecessor-expired", w(-10*d, -30*m), w(-h, 5*d), 2 * h},
		{"update-not-yet-valid", w(-10*d, 10*d), w(h, 5*d), 2 * h},
		// the predecessor's own end of validity moves across now independently of the latest TRC's grace period
		// (doc/cryptography/trc.rst, GracePeriod: the predecessor is active until the grace period has passed OR the
		// predecessor's expiration time is reached; validity bounds are inclusive)
		{"grace-predecessor-ended-1s-ago", w(-10*d, -time.Second), w(-h, 5*d), 2 * h},
		{"grace-predecessor-ends-now", w(-10*d, 0), w(-h, 5*d), 2 * h},
		{"grace-predecessor-ends-in-1s", w(-10*d, time.Second), w(-h, 5*d), 2 * h},
		{"grace-predecessor-expired-before-update-started", w(-10*d, -2*h), w(-h, 5*d), 400 * d},
		{"grace-ends-now-predecessor-active", w(-10*d, 10*d), w(-h, 5*d), h},
		{"grace-over-predecessor-expired", w(-10*d, -30*m), w(-h, 5*d), 30 * m},
		{"no-trc", nil, nil, 0},
	}
	var tls []*c37TL
	for _, s := range specs {
		store, err := sqlite.New(fmt.Sprintf("c37-%d", c37DBCtr.Add(1)), &db.SqliteConfig{InMemory: true, MaxOpenReadConns: 4})
		if err != nil {
			r.HarnessError("db: %v", err)
			return
		}
		defer store.Close()
		tl := &c37TL{name: s.name, db: &store}
		if s.base != nil {
			base := cppki.TRC{Version: 1, ID: cppki.TRCID{ISD: 1, Base: 1, Serial: 1},
				Validity: cppki.Validity{NotBefore: T0.Add(s.base[0]), NotAfter: T0.Add(s.base[1])}, Quorum: 1,
				CoreASes: []addr.AS{core.AS()}, AuthoritativeASes: []addr.AS{core.AS()}, Description: "c37 base",
				Certificates: pkigen.Certs(sens, reg, roots["keep"], roots["old"])}
			sb, err := pkigen.Sign(base, sens, reg)
			if err != nil || sb.Verify(nil) != nil {
				r.HarnessError("base TRC: %v", err)
				return
			}
			store.InsertTRC(ctx, sb)
			tl.latestValid = base.Validity.Contains(T0)
			tl.latestRoots = map[string]bool{"keep": true, "old": true}
			if s.update != nil {
				u := base
				u.ID.Serial = 2
				u.Validity = cppki.Validity{NotBefore: T0.Add(s.update[0]), NotAfter: T0.Add(s.update[1])}
				u.GracePeriod = s.grace
				u.Votes = []int{0}
				u.Certificates = pkigen.Certs(sens, reg, roots["keep"], roots["new"])
				su, err := pkigen.Sign(u, sens, roots["new"])
				if err != nil {
					r.HarnessError("update TRC: %v", err)
					return
				}
				if su.Verify(&sb.TRC) != nil {
					if su, err = pkigen.Sign(u, sens, reg, roots["new"]); err != nil || su.Verify(&sb.TRC) != nil {
						r.HarnessError("update TRC does not verify: %v", err)
						return
					}
				}
				store.InsertTRC(ctx, su)
				tl.predRoots, tl.predValidNow = tl.latestRoots, tl.latestValid
				tl.latestValid = u.Validity.Contains(T0)
				tl.latestRoots = map[string]bool{"keep": true, "new": true}
				tl.inGrace = !T0.After(u.Validity.NotBefore.Add(s.grace))
			}
		}
		tls = append(tls, tl)
	}

	// ---- client chains of the victim AS (key "c37-as") ----
	okVal := cppki.Validity{NotBefore: T0.Add(-d), NotAfter: T0.Add(3 * d)}
	mkAS := func(name, ca string, ia addr.IA, key string, v cppki.Validity, mut func(*x509.Certificate)) *pkigen.Cert {
		return pkigen.Must(pkigen.Spec{Type: cppki.AS, IA: ia, CN: "c37-" + name, KeyName: "c37-" + key, NotBefore: v.NotBefore,
			NotAfter: v.NotAfter, Issuer: cas[ca], Mutate: mut})
	}
	chains := []*c37Chain{
		{name: "kept-root", root: "keep", validAt: true, wellFormed: true, as: mkAS("as-keep", "keep", victim, "as", okVal, nil), ca: cas["keep"]},
		{name: "old-root", root: "old", validAt: true, wellFormed: true, as: mkAS("as-old", "old", victim, "as", okVal, nil), ca: cas["old"]},
		{name: "new-root", root: "new", validAt: true, wellFormed: true, as: mkAS("as-new", "new", victim, "as", okVal, nil), ca: cas["new"]},
		{name: "rogue-root", root: "rogue", validAt: true, wellFormed: true, as: mkAS("as-rogue", "rogue", victim, "as", okVal, nil), ca: cas["rogue"]},
		{name: "expired", root: "keep", validAt: false, wellFormed: true,
			as: mkAS("as-expired", "keep", victim, "as", cppki.Validity{NotBefore: T0.Add(-d), NotAfter: T0.Add(-m)}, nil), ca: cas["keep"]},
		{name: "not-yet-valid", root: "keep", validAt: false, wellFormed: true,
			as: mkAS("as-future", "keep", victim, "as", cppki.Validity{NotBefore: T0.Add(m), NotAfter: T0.Add(3 * d)}, nil), ca: cas["keep"]},
		{name: "ca-not-the-issuer", root: "keep", validAt: true, wellFormed: false, as: mkAS("as-keep2", "keep", victim, "as", okVal, nil), ca: cas["new"]},
		{name: "leaf-with-cert-sign-usage", root: "keep", validAt: true, wellFormed: false,
			as: mkAS("as-certsign", "keep", victim, "as", okVal, func(c *x509.Certificate) { c.KeyUsage |= x509.KeyUsageCertSign }), ca: cas["keep"]},
	}
	// the victim as a core AS that runs its own CA: CA certificate and AS certificate carry the SAME ISD-AS (also the
	// same organisation's second CA under the kept root). Identity of certificates, not of ISD-AS, decides who signed.
	cas["own"] = pkigen.CA(roots["keep"], victim, "c37-ca-own", caVal)
	cas["own-old"] = pkigen.CA(roots["old"], victim, "c37-ca-own-old", caVal)
	chains = append(chains,
		&c37Chain{name: "own-ca-same-isd-as", root: "keep", validAt: true, wellFormed: true, as: mkAS("as-own", "own", victim, "as", okVal, nil), ca: cas["own"]},
		&c37Chain{name: "own-ca-same-isd-as-old-root", root: "old", validAt: true, wellFormed: true, as: mkAS("as-own-old", "own-old", victim, "as", okVal, nil), ca: cas["own-old"]},
	)
	asKey := pkigen.Key("c37-as")
	strangerKey := pkigen.Key("c37-stranger")
	extraCert := mkAS("extra", "keep", otherIA, "extra", okVal, nil)

	// ---- CSR variants ----
	newKey := pkigen.Key("c37-new-key")
	mkCSR := func(subject pkix.Name, key *ecdsa.PrivateKey) []byte {
		raw, err := x509.CreateCertificateRequest(rand.Reader, &x509.CertificateRequest{Subject: subject}, key)
		if err != nil {
			panic(err)
		}
		return raw
	}
	goodCSR := mkCSR(pkigen.Subject(victim, "c37 renewed"), newKey)
	flip := func(b []byte, off int) []byte { // off counted from the end
		c := append([]byte{}, b...)
		c[len(c)-1-off] ^= 0x01
		return c
	}
	type csrVar struct {
		name string
		raw  []byte
		good bool
	}
	csrs := []csrVar{
		{"good", goodCSR, true},
		{"subject names another AS of the ISD", mkCSR(pkigen.Subject(otherIA, "c37 renewed"), newKey), false},
		{"subject names the same AS number in another ISD", mkCSR(pkigen.Subject(otherISD, "c37 renewed"), newKey), false},
		{"subject without ISD-AS", mkCSR(pkix.Name{CommonName: "c37 renewed"}, newKey), false},
		{"self-signature tampered (last signature byte)", flip(goodCSR, 0), false},
		{"self-signature tampered (middle of signature)", flip(goodCSR, 20), false},
		{"subject tampered after signing", func() []byte {
			i := bytes.Index(goodCSR, []byte("c37 renewed"))
			c := append([]byte{}, goodCSR...)
			c[i] ^= 0x01
			return c
		}(), false},
		{"not a CSR", []byte("this is not a certificate request"), false},
	}
	otherCSR := mkCSR(pkigen.Subject(victim, "c37 renewed"), strangerKey) // a valid CSR of the same subject for another key

	// ---- assemble + judge ----
	type siVar struct {
		name string
		good bool
	}
	siVars := []siVar{
		{"one signer info: AS certificate, AS key", true},
		{"one signer info naming the CA certificate, signed with the CA key", false},
		{"one signer info naming the AS certificate, signed with a stranger's key", false},
		{"one signer info naming the AS certificate, signed with the CA key", false},
		{"two signer infos (AS twice)", false},
		{"two signer infos (AS and CA)", false},
		{"no signer info", false},
		{"one signer info naming a certificate that is not included", false},
		{"one signer info naming the CA certificate, signed with the AS key", false},
	}
	type certVar struct {
		name string
		good int // 1 good, 0 bad, -1 either
	}
	certVars := []certVar{
		{"AS then CA", 1},
		{"CA then AS", 1},
		{"AS only", 0},
		{"CA only", 0},
		{"none", 0},
		{"AS, CA and an unrelated certificate", -1},
	}
	pldVars := []string{"signed payload = transmitted CSR", "signature over another CSR (payload swapped after signing)", "signature over unrelated bytes"}

	var accepted, rejected, either atomic.Int64
	body := func(x *mc.Ctx) {
		tli := x.Dev(len(tls))
		chi := x.Dev(len(chains))
		sii := x.Dev(len(siVars))
		cei := x.Dev(len(certVars))
		pli := x.Dev(len(pldVars))
		csi := x.Dev(len(csrs))
		tl, ch := tls[tli], chains[chi]
		csr := csrs[csi]
		name := fmt.Sprintf("timeline=%s | chain=%s | %s | certs: %s | %s | CSR: %s", tl.name, ch.name, siVars[sii].name, certVars[cei].name, pldVars[pli], csr.name)
		// what gets signed
		signedPld := csr.raw
		switch pli {
		case 1:
			signedPld = otherCSR
		case 2:
			signedPld = []byte("unrelated bytes")
		}
		if pli == 1 && bytes.Equal(otherCSR, csr.raw) {
			return
		}
		var infos []protocol.SignerInfo
		add := func(sid *x509.Certificate, key *ecdsa.PrivateKey) {
			si, err := pkigen.SignerInfo(signedPld, sid, key)
			if err != nil {
				panic(err)
			}
			infos = append(infos, si)
		}
		switch sii {
		case 0:
			add(ch.as.X, asKey)
		case 1:
			add(ch.ca.X, ch.ca.Key)
		case 2:
			add(ch.as.X, strangerKey)
		case 3:
			add(ch.as.X, ch.ca.Key)
		case 4:
			add(ch.as.X, asKey)
			add(ch.as.X, asKey)
		case 5:
			add(ch.as.X, asKey)
			add(ch.ca.X, ch.ca.Key)
		case 6:
		case 7:
			add(extraCert.X, extraCert.Key)
		case 8:
			add(ch.ca.X, asKey)
		}
		eci, err := protocol.NewDataEncapsulatedContentInfo(csr.raw)
		if err != nil {
			panic(err)
		}
		sd := &protocol.SignedData{Version: 1, EncapContentInfo: eci, SignerInfos: infos, DigestAlgorithms: []pkix.AlgorithmIdentifier{}}
		if sd.SignerInfos == nil {
			sd.SignerInfos = []protocol.SignerInfo{}
		}
		for _, si := range infos {
			sd.AddDigestAlgorithm(si.DigestAlgorithm)
		}
		var certs []*x509.Certificate
		switch cei {
		case 0:
			certs = []*x509.Certificate{ch.as.X, ch.ca.X}
		case 1:
			certs = []*x509.Certificate{ch.ca.X, ch.as.X}
		case 2:
			certs = []*x509.Certificate{ch.as.X}
		case 3:
			certs = []*x509.Certificate{ch.ca.X}
		case 5:
			certs = []*x509.Certificate{ch.as.X, ch.ca.X, extraCert.X}
		}
		for _, c := range certs {
			if err := sd.AddCertificate(c); err != nil {
				panic(err)
			}
		}
		der, err := sd.ContentInfoDER()
		if err != nil {
			r.HarnessError("encoding request %s: %v", name, err)
			return
		}
		// ---- reference verdict ----
		chainOK, chainEither := false, false
		if tl.latestValid && ch.wellFormed && ch.validAt {
			switch {
			case tl.latestRoots[ch.root]:
				chainOK = true
			case tl.inGrace && tl.predRoots[ch.root]:
				// trc.rst (GracePeriod, trust anchor selection): the predecessor stops being active when its own
				// expiration time is reached, even while the grace period of the latest TRC still runs
				chainOK = tl.predValidNow
			}
		}
		allGoodButChain := siVars[sii].good && certVars[cei].good != 0 && pli == 0 && csr.good
		want := "reject"
		if allGoodButChain && (chainOK || chainEither) {
			want = "accept"
			if chainEither || certVars[cei].good < 0 {
				want = "either"
			}
		}
		// ---- implementation ----
		rv := renewal.RequestVerifier{TRCFetcher: tl.db}
		var got *x509.CertificateRequest
		var verr error
		if p := mc.Safely(func() { got, verr = rv.VerifyCMSSignedRenewalRequest(ctx, der) }); p != nil {
			r.Violation("panic-in-verify-request", map[string]any{"case": name, "panic": fmt.Sprint(p)})
			return
		}
		r.CaseBulk(1, 1)
		switch {
		case want == "either":
			either.Add(1)
			r.Outcome(fmt.Sprintf("unspecified:%v", verr == nil))
		case want == "accept" && verr != nil:
			r.Violation("legitimate-request-refused", map[string]any{"case": name, "error": verr.Error()})
		case want == "reject" && verr == nil:
			key := "illegitimate-request-accepted"
			switch {
			case !siVars[sii].good:
				key += ":signer-info"
			case certVars[cei].good == 0:
				key += ":certificates"
			case pli != 0:
				key += ":payload-not-covered"
			case !csr.good:
				key += ":csr"
			default:
				key += ":chain-or-trc"
			}
			r.Violation(key, map[string]any{"case": name})
		case want == "accept":
			accepted.Add(1)
			r.Outcome("accepted")
			if !bytes.Equal(got.Raw, csr.raw) {
				r.Violation("returned-csr-differs", map[string]any{"case": name})
			}
		default:
			rejected.Add(1)
			switch {
			case !allGoodButChain && !(chainOK || chainEither):
				r.Outcome("rejected:several-defects")
			case !(chainOK || chainEither):
				r.Outcome("rejected:chain-or-trc")
			case !siVars[sii].good:
				r.Outcome("rejected:signer-info")
			case certVars[cei].good == 0:
				r.Outcome("rejected:certificates")
			case pli != 0:
				r.Outcome("rejected:payload-not-covered")
			default:
				r.Outcome("rejected:csr")
			}
		}
	}
	st := mc.Explore(body, mc.Pick(3, -1), 8, func() bool { return budget.Load() })
	r.Extra["part1_executions"] = st.Executions
	r.Extra["part1_deviation_bound"] = mc.Pick("3", "unbounded (full product)")
	r.Extra["part1_complete"] = st.Complete
	r.Extra["part1_accepted"] = accepted.Load()
	r.Extra["part1_rejected"] = rejected.Load()
	r.Extra["part1_unspecified"] = either.Load()
	r.Sample(map[string]any{"part1_dimensions": map[string]int{"timelines": len(tls), "chains": len(chains), "signer_infos": len(siVars),
		"certificate_sets": len(certVars), "payloads": len(pldVars), "csrs": len(csrs)}})

	// ---- part 1b: the message-digest attribute ----
	// The CMS signature covers the signed attributes only; the message-digest attribute is what binds them to the CSR.
	// For every context in which the good request is accepted: digest attributes of EVERY length 0..len(digest)+1 that
	// are a prefix of the true digest (or the true digest plus a byte), wrong digests of the right length, each
	// correctly signed by the AS key, with the transmitted CSR being the one the digest was taken from or another one.
	{
		trueDigest := sha256.Sum256(goodCSR)
		type dg struct {
			what string
			attr []byte
			good bool
		}
		var dgs []dg
		for l := 0; l <= len(trueDigest); l++ {
			dgs = append(dgs, dg{fmt.Sprintf("first %d byte(s) of the CSR digest", l), append([]byte{}, trueDigest[:l]...), l == len(trueDigest)})
		}
		dgs = append(dgs, dg{"CSR digest plus one byte", append(append([]byte{}, trueDigest[:]...), 0), false})
		for _, off := range []int{0, 15, 31} {
			w := append([]byte{}, trueDigest[:]...)
			w[off] ^= 0x01
			dgs = append(dgs, dg{fmt.Sprintf("CSR digest with byte %d altered", off), w, false})
		}
		dgs = append(dgs, dg{"all-zero digest of the right length", make([]byte, len(trueDigest)), false})
		od := sha256.Sum256(otherCSR)
		dgs = append(dgs, dg{"digest of another CSR", od[:], false})
		n1b := 0
		for _, ctxc := range []struct{ tl, ch int }{{0, 0}, {1, 1}} {
			tl, ch := tls[ctxc.tl], chains[ctxc.ch]
			for _, d := range dgs {
				for _, transmitted := range []struct {
					what string
					raw  []byte
				}{{"the CSR the digest was taken from", goodCSR}, {"another valid CSR of the same subject", otherCSR}} {
					si, err := c37SignerInfoWithDigest(d.attr, ch.as.X, asKey)
					if err != nil {
						r.HarnessError("signer info: %v", err)
						continue
					}
					eci, _ := protocol.NewDataEncapsulatedContentInfo(transmitted.raw)
					sd := &protocol.SignedData{Version: 1, EncapContentInfo: eci, SignerInfos: []protocol.SignerInfo{si}, DigestAlgorithms: []pkix.AlgorithmIdentifier{}}
					sd.AddDigestAlgorithm(si.DigestAlgorithm)
					sd.AddCertificate(ch.as.X)
					sd.AddCertificate(ch.ca.X)
					der, err := sd.ContentInfoDER()
					if err != nil {
						r.HarnessError("encoding: %v", err)
						continue
					}
					good := d.good && bytes.Equal(transmitted.raw, goodCSR)
					if bytes.Equal(d.attr, od[:]) && bytes.Equal(transmitted.raw, otherCSR) {
						good = true // digest of the other CSR with the other CSR transmitted: a consistent request
					}
					name := fmt.Sprintf("timeline=%s chain=%s message-digest attribute = %s (%x), transmitted: %s", tl.name, ch.name, d.what, d.attr, transmitted.what)
					var verr error
					if p := mc.Safely(func() { _, verr = renewal.RequestVerifier{TRCFetcher: tl.db}.VerifyCMSSignedRenewalRequest(ctx, der) }); p != nil {
						r.Violation("panic-in-verify-request", map[string]any{"case": name, "panic": fmt.Sprint(p)})
						continue
					}
					r.CaseBulk(1, 1)
					n1b++
					switch {
					case good && verr != nil:
						r.Violation("legitimate-request-refused", map[string]any{"case": name, "error": verr.Error()})
					case !good && verr == nil:
						r.Violation("illegitimate-request-accepted:payload-not-covered", map[string]any{"case": name})
					case good:
						r.Outcome("accepted:digest-attribute-control")
					default:
						r.Outcome("rejected:digest-attribute")
					}
				}
			}
		}
		r.Extra["part1b_digest_attribute_cases"] = n1b
	}

	// the all-good request built by the real client code must be accepted wherever the reference accepts
	for _, tl := range tls {
		for _, ch := range chains {
			s := trust.Signer{PrivateKey: asKey, Algorithm: signed.ECDSAWithSHA256, IA: victim, Chain: []*x509.Certificate{ch.as.X, ch.ca.X},
				SubjectKeyID: ch.as.X.SubjectKeyId, Expiration: T0.Add(d)}
			req, err := renewal.NewChainRenewalRequest(ctx, goodCSR, s)
			if err != nil {
				r.HarnessError("NewChainRenewalRequest: %v", err)
				continue
			}
			ok := tl.latestValid && ch.wellFormed && ch.validAt && (tl.latestRoots[ch.root] || (tl.inGrace && tl.predRoots[ch.root] && tl.predValidNow))
			unspecified := false
			_, verr := renewal.RequestVerifier{TRCFetcher: tl.db}.VerifyCMSSignedRenewalRequest(ctx, req.CmsSignedRequest)
			r.CaseBulk(1, 1)
			name := fmt.Sprintf("request built by NewChainRenewalRequest, timeline=%s chain=%s", tl.name, ch.name)
			switch {
			case unspecified:
			case ok && verr != nil:
				r.Violation("legitimate-request-refused", map[string]any{"case": name, "error": verr.Error()})
			case !ok && verr == nil:
				r.Violation("illegitimate-request-accepted:chain-or-trc", map[string]any{"case": name})
			case ok:
				r.Outcome("accepted:real-client")
			}
		}
	}

	// ---------- Part 2: CAPolicy.CreateChain ----------
	caWindows := [][2]time.Duration{{-10 * d, 10 * d}, {-h, h}, {0, 3 * d}, {-3 * d, 0}}
	validities := []time.Duration{time.Second, h, 3 * d, 10 * d, 10*d + time.Second, 400 * d}
	signTimes := []struct {
		name string
		off  *time.Duration
	}{{"zero (=now)", nil}, {"T0-11d", c37Dur(-11 * d)}, {"T0-10d", c37Dur(-10 * d)}, {"T0-1h", c37Dur(-h)}, {"T0", c37Dur(0)}, {"T0+1h-1s", c37Dur(h - time.Second)},
		{"T0+7d", c37Dur(7 * d)}, {"T0+10d", c37Dur(10 * d)}, {"T0+11d", c37Dur(11 * d)}}
	curves := []elliptic.Curve{elliptic.P256(), elliptic.P384(), elliptic.P521()}
	subjects := []pkix.Name{
		pkigen.Subject(victim, "c37 issued"),
		func() pkix.Name {
			n := pkigen.Subject(otherISD, "c37 issued with more names")
			n.ExtraNames = append(n.ExtraNames, pkix.AttributeTypeAndValue{Type: []int{2, 5, 4, 10}, Value: "Org"}, pkix.AttributeTypeAndValue{Type: []int{2, 5, 4, 6}, Value: "CH"})
			return n
		}(),
	}
	trcFor := func(root *pkigen.Cert) *cppki.TRC {
		return &cppki.TRC{Version: 1, ID: cppki.TRCID{ISD: 1, Base: 1, Serial: 1}, Validity: long, Quorum: 1, CoreASes: []addr.AS{core.AS()},
			AuthoritativeASes: []addr.AS{core.AS()}, Certificates: pkigen.Certs(sens, reg, root)}
	}
	rootP2 := pkigen.Root(core, "c37-p2-root", long)
	trcP2 := trcFor(rootP2)
	n2 := 0
	for wi, cw := range caWindows {
		ca := pkigen.CA(rootP2, core, fmt.Sprintf("c37-p2-ca-%d", wi), cppki.Validity{NotBefore: T0.Add(cw[0]), NotAfter: T0.Add(cw[1])})
		for _, val := range validities {
			for _, stime := range signTimes {
				for ci, curve := range curves {
					for si, subj := range subjects {
						for _, force := range []bool{false, true} {
							if budget.Load() {
								return
							}
							if (ci > 0 || si > 0 || force) && !mc.Thorough() && (wi+int(val/time.Second))%3 != 0 {
								continue // quick: non-default key/subject/force variants on a third of the time grid
							}
							n2++
							key := pkigen.KeyOn(curve, fmt.Sprintf("c37-p2-subject-%d", ci))
							csr, err := x509.ParseCertificateRequest(mkCSR(subj, key))
							if err != nil {
								r.HarnessError("csr: %v", err)
								return
							}
							pol := cppki.CAPolicy{Validity: val, Certificate: ca.X, Signer: ca.Key, ForceECDSAWithSHA512: force}
							start := T0
							if stime.off != nil {
								pol.CurrentTime = T0.Add(*stime.off)
								start = pol.CurrentTime
							}
							name := fmt.Sprintf("CA window [T0%+v, T0%+v] validity %v signing time %s curve %s subject %d force512=%v", cw[0], cw[1], val, stime.name,
								curve.Params().Name, si, force)
							var chain []*x509.Certificate
							var cerr error
							if p := mc.Safely(func() { chain, cerr = pol.CreateChain(csr) }); p != nil {
								r.Violation("panic-in-create-chain", map[string]any{"case": name, "panic": fmt.Sprint(p)})
								continue
							}
							r.CaseBulk(1, 1)
							end := start.Add(val)
							fits := !start.Before(ca.X.NotBefore) && !end.After(ca.X.NotAfter)
							// x509 times have second resolution: an end that is not on a whole second is rounded by encoding
							viol := func(k, dsc string) { r.Violation(k, map[string]any{"case": name, "detail": dsc}) }
							if cerr != nil {
								if fits {
									viol("issuance-refused", "CreateChain failed although [signing time, signing time+validity] lies within the CA certificate's validity: "+cerr.Error())
								} else {
									r.Outcome("issuance-refused:would-outlive-ca")
								}
								continue
							}
							if len(chain) != 2 || !chain[1].Equal(ca.X) {
								viol("issued-chain-shape", fmt.Sprintf("%d certificates / second is not the CA certificate", len(chain)))
								continue
							}
							as := chain[0]
							if as.NotAfter.After(ca.X.NotAfter) || as.NotBefore.Before(ca.X.NotBefore) {
								viol("issued-certificate-outlives-ca", fmt.Sprintf("AS [%v, %v] CA [%v, %v]", as.NotBefore, as.NotAfter, ca.X.NotBefore, ca.X.NotAfter))
							}
							if !fits {
								viol("issued-outside-ca-validity", fmt.Sprintf("requested window [%v, %v] is not within the CA validity, yet a chain was issued: AS [%v, %v]", start, end, as.NotBefore, as.NotAfter))
							}
							pub, ok := as.PublicKey.(*ecdsa.PublicKey)
							if !ok || !pub.Equal(&key.PublicKey) {
								viol("issued-key-differs", "the AS certificate does not carry the requested public key")
							}
							if !bytes.Equal(as.RawSubject, csr.RawSubject) {
								viol("issued-subject-differs", fmt.Sprintf("subject %v, requested %v", as.Subject, csr.Subject))
							}
							// valid chain, judged by hand: signed by the CA, leaf profile, key ids
							if err := as.CheckSignatureFrom(ca.X); err != nil {
								viol("issued-not-signed-by-ca", err.Error())
							}
							pb, _ := pub.Bytes()
							skid := sha1.Sum(pb)
							if as.IsCA || as.KeyUsage&x509.KeyUsageDigitalSignature == 0 || as.KeyUsage&x509.KeyUsageCertSign != 0 ||
								!bytes.Equal(as.SubjectKeyId, skid[:]) || !bytes.Equal(as.AuthorityKeyId, ca.X.SubjectKeyId) || !c37HasEKU(as, x509.ExtKeyUsageTimeStamping) {
								viol("issued-profile-wrong", fmt.Sprintf("IsCA=%v KeyUsage=%v skid=%x akid=%x eku=%v", as.IsCA, as.KeyUsage, as.SubjectKeyId, as.AuthorityKeyId, as.ExtKeyUsage))
							}
							// and by the repository's own chain verification at a time inside the new certificate's window
							if err := cppki.VerifyChain(chain, cppki.VerifyOptions{TRC: []*cppki.TRC{trcP2}, CurrentTime: as.NotBefore.Add(as.NotAfter.Sub(as.NotBefore) / 2)}); err != nil {
								viol("issued-chain-does-not-verify", err.Error())
							}
							r.Outcome("issued")
						}
					}
				}
			}
		}
	}
	r.Extra["part2_cases"] = n2
	r.Assumptions = []string{
		"'its predecessor during the grace period' is read with doc/cryptography/trc.rst (GracePeriod): the predecessor is usable while now <= latest.NotBefore + grace AND now lies within the predecessor's own validity (bounds inclusive); an expired predecessor is no trust anchor even though the grace period still runs",
		"an additional unrelated certificate in the CMS certificate set: either verdict; the order of the two chain certificates is irrelevant",
		"'currently valid latest TRC': the TRC with the highest serial in the trust DB must contain now; otherwise every request is refused",
		"points with several deviating dimensions only demand refusal (implication oracle)",
		"CreateChain must succeed whenever [signing time, signing time + validity] lies within the CA certificate's validity, and fail otherwise",
	}
}

// c37SignerInfoWithDigest builds a signer info (RFC 5652 5.4) whose message-digest attribute is the given byte string
// and whose signature (ECDSA/SHA-256 by key) is a correct signature over the signed attributes.
func c37SignerInfoWithDigest(digest []byte, sid *x509.Certificate, key *ecdsa.PrivateKey) (protocol.SignerInfo, error) {
	id, err := protocol.NewIssuerAndSerialNumber(sid)
	if err != nil {
		return protocol.SignerInfo{}, err
	}
	si := protocol.SignerInfo{Version: 1, SID: id,
		DigestAlgorithm:    pkix.AlgorithmIdentifier{Algorithm: oid.DigestAlgorithmSHA256},
		SignatureAlgorithm: pkix.AlgorithmIdentifier{Algorithm: oid.SignatureAlgorithmECDSAWithSHA256}}
	st, err := protocol.NewAttribute(oid.AttributeSigningTime, time.Now().UTC())
	if err != nil {
		return si, err
	}
	md, err := protocol.NewAttribute(oid.AttributeMessageDigest, digest)
	if err != nil {
		return si, err
	}
	ct, err := protocol.NewAttribute(oid.AttributeContentType, oid.ContentTypeData)
	if err != nil {
		return si, err
	}
	attrs := []protocol.Attribute{st, md, ct}
	sort.Slice(attrs, func(i, j int) bool {
		return bytes.Compare(attrs[i].RawValue.FullBytes, attrs[j].RawValue.FullBytes) < 0
	})
	si.SignedAttrs = attrs
	sm, err := si.SignedAttrs.MarshaledForSigning()
	if err != nil {
		return si, err
	}
	h := sha256.Sum256(sm)
	si.Signature, err = ecdsa.SignASN1(rand.Reader, key, h[:])
	return si, err
}

func c37Dur(d time.Duration) *time.Duration { return &d }

func c37HasEKU(c *x509.Certificate, e x509.ExtKeyUsage) bool {
	for _, x := range c.ExtKeyUsage {
		if x == e {
			return true
		}
	}
	return false
}
