package pki

import (
	"context"
	"crypto/x509"
	"fmt"
	"net"
	"os"
	"path/filepath"
	"sort"
	"strings"
	"sync/atomic"
	"testing"
	"testing/synctest"
	"time"

	"github.com/scionproto/scion/pkg/addr"
	"github.com/scionproto/scion/pkg/scrypto"
	"github.com/scionproto/scion/pkg/scrypto/cppki"
	"github.com/scionproto/scion/private/storage/db"
	truststorage "github.com/scionproto/scion/private/storage/trust"
	"github.com/scionproto/scion/private/storage/trust/sqlite"
	"github.com/scionproto/scion/private/trust"

	"verif/mc"
	"verif/pkigen"
)

// C35: the trust store only advances along verified TRC successions.
//
// Explicit-state search (mc.BFS). A state is the content of the real sqlite trust DB (set of stored TRCs, each
// identified as the legitimate one or a corrupted variant by its bytes) plus the clock phase. Events:
// NotifyTRC(serial relative to the latest, same/other base) against a scripted fetcher that fails at the k-th
// fetch in one of four ways, LoadTRCs from three directories (with TRCs whose validity starts in the past or in
// the future), Advance(12h). Every replay builds a fresh DB and provider inside a synctest bubble and compares
// the DB, the returned error and the sequence of fetches with a reference model after every event.

type c35ID struct {
	base, serial uint64
	isd          uint64 // 0 = ISD 1 (the ISD the notifications are about)
}

func (i c35ID) isdNum() uint64 {
	if i.isd == 0 {
		return 1
	}
	return i.isd
}

func (i c35ID) String() string {
	if i.isdNum() != 1 {
		return fmt.Sprintf("ISD%d-B%d-S%d", i.isdNum(), i.base, i.serial)
	}
	return fmt.Sprintf("B%d-S%d", i.base, i.serial)
}

func (i c35ID) file() string { return fmt.Sprintf("ISD%d-B%d-S%d.trc", i.isdNum(), i.base, i.serial) }

func c35I(base, serial uint64) c35ID { return c35ID{base: base, serial: serial} }

func c35FromTRC(id cppki.TRCID) c35ID {
	out := c35ID{base: uint64(id.Base), serial: uint64(id.Serial)}
	if id.ISD != 1 {
		out.isd = uint64(id.ISD)
	}
	return out
}

// c35Less orders TRC ids of ONE ISD.
func c35Less(a, b c35ID) bool {
	if a.base != b.base {
		return a.base < b.base
	}
	return a.serial < b.serial
}

const (
	c35FaultNone = iota
	c35FaultError
	c35FaultBadSig
	c35FaultInvalid
	c35FaultWrongID
	c35FaultStore // the fetch is answered correctly, but storing the verified TRC fails (DB.InsertTRC error)
	c35FaultVotes // the answer is an update whose vote structure is malformed (one of c35VoteKinds, rotating)
	c35NFault
)

var c35FaultName = [...]string{"none", "fetch-error", "bad-signature", "invalid-successor", "wrong-id", "storage-error", "malformed-votes"}

type c35World struct {
	legit   map[c35ID]cppki.SignedTRC
	badsig  map[c35ID]cppki.SignedTRC
	invalid map[c35ID]cppki.SignedTRC
	// voteVar: per update, one variant per entry of c35VoteKinds (same order): the vote list / the set of signatures
	// is malformed, every signature that is present is genuine
	voteVar map[c35ID][]cppki.SignedTRC
	// starts: hours after the bubble epoch at which the TRC's validity starts
	starts map[c35ID]float64
	byRaw  map[string]string // raw signed TRC -> "B1-S2:legit"
	dirs   [c35NDirs]string
	dirIDs [c35NDirs][]c35ID
	matrix []c35MatrixTRC
}

const c35NDirs = 4

// c35MatrixTRC: one TRC of the directory-loading matrix (kind x validity start relative to the epoch).
type c35MatrixTRC struct {
	kind   string
	id     c35ID
	start  time.Duration
	signed cppki.SignedTRC
}

func c35Epoch() time.Time { return time.Date(2000, 1, 1, 0, 0, 0, 0, time.UTC) }

func c35Build(t *testing.T) (*c35World, error) {
	w := &c35World{legit: map[c35ID]cppki.SignedTRC{}, badsig: map[c35ID]cppki.SignedTRC{}, invalid: map[c35ID]cppki.SignedTRC{},
		starts: map[c35ID]float64{}, byRaw: map[string]string{}, voteVar: map[c35ID][]cppki.SignedTRC{}}
	e := c35Epoch()
	cv := cppki.Validity{NotBefore: e.Add(-1000 * time.Hour), NotAfter: e.Add(5000 * time.Hour)}
	ia := addr.MustParseIA("1-ff00:0:110")
	var sens, reg []*pkigen.Cert
	for i := 0; i < 3; i++ {
		sens = append(sens, pkigen.Sensitive(ia, fmt.Sprintf("c35 sens %d", i), cv))
		reg = append(reg, pkigen.Regular(ia, fmt.Sprintf("c35 reg %d", i), cv))
	}
	root0, root1 := pkigen.Root(ia, "c35 root 0", cv), pkigen.Root(ia, "c35 root 1", cv)
	root0b := root0.Renew(cv, "c35 root 0 new key")
	reg2b := reg[2].Renew(cv, "c35 reg 2 new key")
	root1b := root1.Renew(cv, "")
	attacker := pkigen.Key("c35 attacker")
	val := func(h float64) cppki.Validity {
		return cppki.Validity{NotBefore: e.Add(time.Duration(h * float64(time.Hour))), NotAfter: e.Add(3000 * time.Hour)}
	}
	type step struct {
		id      c35ID
		start   float64
		certs   []*pkigen.Cert
		votes   []int // indices into the predecessor's certificate list
		signers []*pkigen.Cert
		cores   []addr.AS
	}
	c0 := []*pkigen.Cert{sens[0], sens[1], sens[2], reg[0], reg[1], reg[2], root0, root1}
	c3 := []*pkigen.Cert{sens[0], sens[1], sens[2], reg[0], reg[1], reg[2], root0b, root1}
	c4 := []*pkigen.Cert{sens[0], sens[1], sens[2], reg[0], reg[1], reg2b, root0b, root1}
	c5 := []*pkigen.Cert{sens[0], sens[1], sens[2], reg[0], reg[1], reg2b, root0b, root1b}
	voters := []*pkigen.Cert{sens[0], sens[1], sens[2], reg[0], reg[1], reg[2]}
	// ISD 2: own certificates
	ia2 := addr.MustParseIA("2-ff00:0:210")
	var votersB []*pkigen.Cert
	for i := 0; i < 3; i++ {
		votersB = append(votersB, pkigen.Sensitive(ia2, fmt.Sprintf("c35 isd2 sens %d", i), cv))
	}
	for i := 0; i < 3; i++ {
		votersB = append(votersB, pkigen.Regular(ia2, fmt.Sprintf("c35 isd2 reg %d", i), cv))
	}
	c0b := append(append([]*pkigen.Cert{}, votersB...), pkigen.Root(ia2, "c35 isd2 root 0", cv), pkigen.Root(ia2, "c35 isd2 root 1", cv))
	coreB := []addr.AS{ia2.AS()}
	core1, core2 := []addr.AS{ia.AS()}, []addr.AS{ia.AS(), 0xff00_0000_0111}
	steps := []step{
		{c35I(1, 1), -10, c0, nil, voters, core1},
		{c35I(1, 2), -9, c0, []int{3, 4}, []*pkigen.Cert{reg[0], reg[1]}, core1},                  // regular, nothing changes
		{c35I(1, 3), -8, c3, []int{0, 1}, []*pkigen.Cert{sens[0], sens[1]}, core2},                // sensitive: root 0 re-keyed, core AS added
		{c35I(1, 4), 10, c4, []int{3, 5}, []*pkigen.Cert{reg[0], reg[2], reg2b}, core2},           // regular: voter re-keyed; starts in the future
		{c35I(1, 5), 20, c5, []int{3, 4, 5}, []*pkigen.Cert{reg[0], reg[1], reg2b, root1}, core2}, // regular: root 1 renewed (acknowledged)
		{c35I(3, 3), -5, c0, nil, voters, core1},                                                  // trust reset: new base
		{c35I(3, 4), -4, c0, []int{4, 5}, []*pkigen.Cert{reg[1], reg[2]}, core1},                  // its first update
		{c35I(3, 5), 12, c0, []int{0, 1}, []*pkigen.Cert{sens[0], sens[1]}, core2},                // sensitive update (core AS added); future / now / past at the three clock phases
		{c35I(5, 5), 12, c0, nil, voters, core1},                                                  // a second trust reset, dated 12 h ahead
		{c35ID{base: 1, serial: 1, isd: 2}, 12, c0b, nil, votersB, coreB},                         // base TRC of an ISD the store does not know, dated 12 h ahead
	}
	payload := func(s step) cppki.TRC {
		p := cppki.TRC{Version: 1, ID: cppki.TRCID{ISD: addr.ISD(s.id.isdNum()), Base: scrypto.Version(s.id.base), Serial: scrypto.Version(s.id.serial)},
			Validity: val(s.start), Quorum: 2, CoreASes: s.cores, AuthoritativeASes: s.cores[:1],
			Description: "c35 " + s.id.String(), Votes: s.votes, Certificates: pkigen.Certs(s.certs...)}
		if s.id.base != s.id.serial {
			p.GracePeriod = time.Hour
		}
		return p
	}
	var prev *cppki.SignedTRC
	var prevCerts []*pkigen.Cert
	for _, s := range steps {
		signed, err := pkigen.Sign(payload(s), s.signers...)
		if err != nil {
			return nil, fmt.Errorf("signing %v: %w", s.id, err)
		}
		var pred *cppki.TRC
		if s.id.base != s.id.serial {
			pred = &prev.TRC
		}
		if err := signed.Verify(pred); err != nil {
			return nil, fmt.Errorf("legitimate %v does not verify: %w", s.id, err)
		}
		w.legit[s.id], w.starts[s.id] = signed, s.start
		// corrupted variants of every update
		if pred != nil {
			forged := append([]*pkigen.Cert{}, s.signers...)
			forged[0] = forged[0].SignedWith(attacker)
			b, err := pkigen.Sign(payload(s), forged...)
			if err != nil {
				return nil, err
			}
			if b.Verify(pred) == nil {
				return nil, fmt.Errorf("bad-signature variant of %v verifies", s.id)
			}
			w.badsig[s.id] = b
			inv := payload(s)
			inv.NoTrustReset = true // properly signed by everyone, but not a valid successor
			inv.Description += " (noTrustReset flipped)"
			all := append(append([]*pkigen.Cert{}, voters...), s.signers...)
			iv, err := pkigen.Sign(inv, c35Dedup(all)...)
			if err != nil {
				return nil, err
			}
			if iv.Verify(pred) == nil {
				return nil, fmt.Errorf("invalid-successor variant of %v verifies", s.id)
			}
			w.invalid[s.id] = iv
			// vote-structure variants: who votes, how often, and who signs
			predCerts := prevCerts
			isVoter := map[*pkigen.Cert]bool{}
			for _, v := range s.votes {
				isVoter[predCerts[v]] = true
			}
			var extras []*pkigen.Cert // signatures that are not votes: new voters, root acknowledgments
			for _, c := range s.signers {
				if !isVoter[c] {
					extras = append(extras, c)
				}
			}
			for _, kind := range c35VoteKinds {
				votes := kind.votes(s.votes)
				if votes == nil { // not applicable to this update
					w.voteVar[s.id] = append(w.voteVar[s.id], cppki.SignedTRC{})
					continue
				}
				var signers []*pkigen.Cert
				for i, v := range votes {
					if v < len(predCerts) && !(kind.unsignedLast && i == len(votes)-1) {
						signers = append(signers, predCerts[v])
					}
				}
				p := payload(s)
				p.Votes = votes
				p.Description += " (votes: " + kind.name + ")"
				vv, err := pkigen.Sign(p, c35Dedup(append(signers, extras...))...)
				if err != nil {
					return nil, fmt.Errorf("signing vote variant %s of %v: %w", kind.name, s.id, err)
				}
				w.voteVar[s.id] = append(w.voteVar[s.id], vv)
				w.byRaw[string(vv.Raw)] = s.id.String() + ":malformed-votes(" + kind.name + ")"
			}
		}
		prevCerts = s.certs
		cp := signed
		prev = &cp
	}
	for id, s := range w.legit {
		w.byRaw[string(s.Raw)] = id.String() + ":legit"
	}
	for id, s := range w.badsig {
		w.byRaw[string(s.Raw)] = id.String() + ":bad-signature"
	}
	for id, s := range w.invalid {
		w.byRaw[string(s.Raw)] = id.String() + ":invalid-successor"
	}
	// directory-loading matrix: every TRC kind x validity start relative to the epoch
	for _, start := range []time.Duration{-time.Hour, 0, time.Second, 12 * time.Hour} {
		for _, k := range []struct {
			kind string
			st   step
			pred *c35ID
		}{
			{"base-of-unknown-isd", step{c35ID{base: 1, serial: 1, isd: 2}, 0, c0b, nil, votersB, coreB}, nil},
			{"trust-reset-base", step{c35I(5, 5), 0, c0, nil, voters, core1}, nil},
			{"regular-update", step{c35I(1, 4), 0, c4, []int{3, 5}, []*pkigen.Cert{reg[0], reg[2], reg2b}, core2}, &c35ID{base: 1, serial: 3}},
			{"sensitive-update", step{c35I(1, 4), 0, c3, []int{0, 1}, []*pkigen.Cert{sens[0], sens[1]}, core1}, &c35ID{base: 1, serial: 3}},
		} {
			pld := payload(k.st)
			pld.Validity.NotBefore = e.Add(start)
			pld.Description = fmt.Sprintf("c35 matrix %s start %v", k.kind, start)
			signed, err := pkigen.Sign(pld, k.st.signers...)
			if err != nil {
				return nil, fmt.Errorf("signing matrix TRC %s: %w", k.kind, err)
			}
			var pred *cppki.TRC
			if k.pred != nil {
				p := w.legit[*k.pred].TRC
				pred = &p
			}
			if err := signed.Verify(pred); err != nil {
				return nil, fmt.Errorf("matrix TRC %s (start %v) does not verify: %w", k.kind, start, err)
			}
			if !signed.TRC.Validity.NotBefore.Equal(e.Add(start)) {
				return nil, fmt.Errorf("matrix TRC %s: validity start %v, want epoch%+v", k.kind, signed.TRC.Validity.NotBefore, start)
			}
			w.matrix = append(w.matrix, c35MatrixTRC{k.kind, k.st.id, start, signed})
		}
	}
	// directories for LoadTRCs
	w.dirIDs = [c35NDirs][]c35ID{{c35I(1, 1)}, {c35I(1, 2), c35I(1, 4)}, {c35I(3, 3), c35I(1, 5)},
		{c35I(3, 5), c35I(5, 5), {base: 1, serial: 1, isd: 2}}}
	for i, ids := range w.dirIDs {
		w.dirs[i] = filepath.Join(t.TempDir(), fmt.Sprintf("dir%d", i))
		if err := os.MkdirAll(w.dirs[i], 0o755); err != nil {
			return nil, err
		}
		for _, id := range ids {
			f := filepath.Join(w.dirs[i], id.file())
			if err := os.WriteFile(f, w.legit[id].Raw, 0o644); err != nil {
				return nil, err
			}
		}
	}
	return w, nil
}

// c35VoteKind: one way in which the vote list of an update (indices into the predecessor's certificates) or the set
// of vote signatures is malformed. votes maps the legitimate vote list to the malformed one; every listed voter that
// exists signs genuinely, except the last one if unsignedLast.
type c35VoteKind struct {
	name         string
	votes        func(legit []int) []int
	unsignedLast bool
}

var c35VoteKinds = []c35VoteKind{
	// one voter alone, listed as often as the legitimate update has votes (>= quorum entries, one signature)
	{name: "one-voter-repeated", votes: func(l []int) []int {
		out := make([]int, len(l))
		for i := range out {
			out[i] = l[0]
		}
		return out
	}},
	// the legitimate votes with the last one replaced by a repetition of the first (quorum entries, quorum-1 voters)
	{name: "last-vote-duplicates-first", votes: func(l []int) []int {
		out := append([]int{}, l...)
		out[len(out)-1] = out[0]
		return out
	}},
	{name: "below-quorum", votes: func(l []int) []int { return []int{l[0]} }},
	{name: "declared-vote-unsigned", votes: func(l []int) []int { return append([]int{}, l...) }, unsignedLast: true},
	// the last vote is cast with a root certificate (index 6 of every certificate list here)
	{name: "vote-by-root-certificate", votes: func(l []int) []int {
		out := append([]int{}, l...)
		out[len(out)-1] = 6
		return out
	}},
	// a sensitive update voted by regular voters (indices 0..2 sensitive, 3..5 regular). Not applicable to regular
	// updates: the implementation classifies an update whose first vote is sensitive as a sensitive update and accepts
	// a sensitive quorum for a change that would only need a regular one.
	{name: "regular-votes-on-sensitive-update", votes: func(l []int) []int {
		if l[0] >= 3 {
			return nil
		}
		out := make([]int, len(l))
		for i, v := range l {
			out[i] = v + 3
		}
		return out
	}},
	{name: "vote-index-out-of-range", votes: func(l []int) []int {
		out := append([]int{}, l...)
		out[len(out)-1] = 99
		return out
	}},
}

func c35Dedup(cs []*pkigen.Cert) []*pkigen.Cert {
	seen := map[*x509.Certificate]bool{}
	var out []*pkigen.Cert
	for _, c := range cs {
		if !seen[c.X] {
			seen[c.X] = true
			out = append(out, c)
		}
	}
	return out
}

// ---- events

const (
	c35Notify = iota
	c35Load
	c35Advance
)

type c35Ev struct {
	kind      int
	delta     int  // notify: serial = latest.serial + delta
	otherBase bool // notify: with the base number the store does not have as latest
	faultAt   int  // notify: 1-based index of the fetch that is answered wrongly (0: none)
	fault     int
	dir       int // load
}

func (e c35Ev) String() string {
	switch e.kind {
	case c35Notify:
		s := fmt.Sprintf("notify(%+d", e.delta)
		if e.otherBase {
			s += ",other-base"
		}
		if e.faultAt > 0 {
			s += fmt.Sprintf(",%s@%d", c35FaultName[e.fault], e.faultAt)
		}
		return s + ")"
	case c35Load:
		return fmt.Sprintf("load(dir%d)", e.dir)
	}
	return "advance(12h)"
}

func (e c35Ev) class() string {
	switch e.kind {
	case c35Notify:
		s := "notify"
		switch {
		case e.delta < 0:
			s += "-stale"
		case e.delta == 0:
			s += "-current"
		default:
			s += "-newer"
		}
		if e.otherBase {
			s += "-other-base"
		}
		if e.faultAt > 0 {
			s += ":" + c35FaultName[e.fault]
		}
		return s
	case c35Load:
		return fmt.Sprintf("load-dir%d", e.dir)
	}
	return "advance"
}

func c35Menu() []c35Ev {
	var m []c35Ev
	for _, d := range []int{-1, 0} {
		m = append(m, c35Ev{kind: c35Notify, delta: d})
	}
	for d := 1; d <= 3; d++ {
		m = append(m, c35Ev{kind: c35Notify, delta: d})
		for at := 1; at <= d; at++ {
			for f := c35FaultError; f < c35NFault; f++ {
				m = append(m, c35Ev{kind: c35Notify, delta: d, faultAt: at, fault: f})
			}
		}
	}
	for _, d := range []int{0, 1, 2} {
		m = append(m, c35Ev{kind: c35Notify, delta: d, otherBase: true})
	}
	for dir := 0; dir < c35NDirs; dir++ {
		m = append(m, c35Ev{kind: c35Load, dir: dir})
	}
	m = append(m, c35Ev{kind: c35Advance})
	return m
}

// ---- scripted fetcher

type c35Fetcher struct {
	w       *c35World
	faultAt int
	fault   int
	calls   []c35ID
}

func (f *c35Fetcher) Chains(context.Context, trust.ChainQuery, net.Addr) ([][]*x509.Certificate, error) {
	return nil, fmt.Errorf("no chains in C35")
}

func (f *c35Fetcher) TRC(_ context.Context, id cppki.TRCID, _ net.Addr) (cppki.SignedTRC, error) {
	want := c35FromTRC(id)
	f.calls = append(f.calls, want)
	fault := c35FaultNone
	if len(f.calls) == f.faultAt && f.fault != c35FaultStore {
		fault = f.fault
	}
	switch fault {
	case c35FaultError:
		return cppki.SignedTRC{}, fmt.Errorf("scripted fetch failure")
	case c35FaultBadSig:
		if s, ok := f.w.badsig[want]; ok {
			return s, nil
		}
	case c35FaultInvalid:
		if s, ok := f.w.invalid[want]; ok {
			return s, nil
		}
	case c35FaultVotes:
		if vs := f.w.voteVar[want]; len(vs) > 0 {
			for i := 0; i < len(vs); i++ {
				if v := vs[(int(want.serial)+f.faultAt+i)%len(vs)]; len(v.Raw) > 0 {
					return v, nil
				}
			}
		}
	case c35FaultWrongID:
		for _, alt := range []c35ID{c35I(want.base, want.serial+1), c35I(want.base, want.serial-1)} {
			if s, ok := f.w.legit[alt]; ok {
				return s, nil
			}
		}
	default:
		if s, ok := f.w.legit[want]; ok {
			return s, nil
		}
	}
	return cppki.SignedTRC{}, fmt.Errorf("TRC %v not found", want)
}

// c35FaultyDB wraps the real trust DB; the failAt-th InsertTRC call (1-based) returns an error without storing.
type c35FaultyDB struct {
	trust.DB
	failAt  int
	inserts int
}

func (d *c35FaultyDB) InsertTRC(ctx context.Context, trc cppki.SignedTRC) (bool, error) {
	d.inserts++
	if d.inserts == d.failAt {
		return false, fmt.Errorf("scripted storage failure")
	}
	return d.DB.InsertTRC(ctx, trc)
}

// ---- reference model

type c35Model struct {
	w      *c35World
	stored map[c35ID]bool
	hours  float64
}

func (m *c35Model) latest() (c35ID, bool) {
	var best c35ID
	found := false
	for id := range m.stored {
		if id.isdNum() != 1 {
			continue
		}
		if !found || c35Less(best, id) {
			best, found = id, true
		}
	}
	return best, found
}

// notify returns the expected error flag and fetch sequence and updates the model.
func (m *c35Model) notify(id c35ID, faultAt int) (wantErr bool, fetches []c35ID) {
	lat, ok := m.latest()
	if !ok {
		return true, nil
	}
	if lat.base != id.base {
		return true, nil
	}
	if id.serial <= lat.serial {
		return false, nil
	}
	for s := lat.serial + 1; s <= id.serial; s++ {
		next := c35I(id.base, s)
		fetches = append(fetches, next)
		if len(fetches) == faultAt {
			return true, fetches // every fault kind makes this step fail
		}
		if _, exists := m.w.legit[next]; !exists {
			return true, fetches
		}
		m.stored[next] = true
	}
	return false, fetches
}

func (m *c35Model) canon() string {
	var ids []string
	for id := range m.stored {
		ids = append(ids, id.String()+":legit")
	}
	sort.Strings(ids)
	return fmt.Sprintf("t=%gh %s", m.hours, strings.Join(ids, ","))
}

var c35DBCtr atomic.Int64

func c35Replay(t *testing.T, r *mc.Run, w *c35World, hist []c35Ev) (canon string, viol *mc.Viol) {
	fail := func(key string, detail any) {
		if viol == nil {
			viol = &mc.Viol{Key: key, Detail: detail}
		}
	}
	synctest.Test(t, func(t *testing.T) {
		d, err := sqlite.New(fmt.Sprintf("c35-%d", c35DBCtr.Add(1)), &db.SqliteConfig{InMemory: true, MaxOpenReadConns: 2})
		if err != nil {
			fail("harness:sqlite", err.Error())
			return
		}
		defer d.Close()
		ctx := context.Background()
		m := &c35Model{w: w, stored: map[c35ID]bool{}}
		dump := func() (string, map[uint64]c35ID) {
			all, err := d.SignedTRCs(ctx, truststorage.TRCsQuery{})
			if err != nil {
				return "error:" + err.Error(), nil
			}
			var ids []string
			latest := map[uint64]c35ID{} // per ISD
			for _, s := range all {
				name, ok := w.byRaw[string(s.Raw)]
				if !ok {
					name = s.TRC.ID.String() + ":unknown"
				}
				ids = append(ids, name)
				id := c35FromTRC(s.TRC.ID)
				if best, found := latest[id.isdNum()]; !found || c35Less(best, id) {
					latest[id.isdNum()] = id
				}
			}
			sort.Strings(ids)
			return fmt.Sprintf("t=%gh %s", time.Since(c35Epoch()).Hours(), strings.Join(ids, ",")), latest
		}
		for step, ev := range hist {
			_, before := dump()
			where := func(extra map[string]any) map[string]any {
				extra["step"] = step
				extra["event"] = ev.String()
				extra["model_before"] = m.canon()
				return extra
			}
			switch ev.kind {
			case c35Advance:
				time.Sleep(12 * time.Hour)
				m.hours += 12
			case c35Load:
				var res trust.LoadResult
				var lerr error
				if pn := mc.Safely(func() { res, lerr = trust.LoadTRCs(ctx, w.dirs[ev.dir], d) }); pn != nil {
					fail("load-panic", where(map[string]any{"panic": fmt.Sprint(pn)}))
					return
				}
				if lerr != nil {
					fail("load-error:"+ev.class(), where(map[string]any{"error": lerr.Error()}))
					return
				}
				for _, id := range w.dirIDs[ev.dir] {
					f := filepath.Join(w.dirs[ev.dir], id.file())
					_, ignored := res.Ignored[f]
					loaded := false
					for _, l := range res.Loaded {
						if l == f {
							loaded = true
						}
					}
					switch {
					case w.starts[id] > m.hours: // validity starts in the future
						if step == len(hist)-1 {
							r.Outcome("load:future-trc-ignored")
						}
						if loaded || !ignored {
							fail("load:future-trc-not-ignored", where(map[string]any{"trc": id.String(), "starts_h": w.starts[id]}))
						}
					case m.stored[id]:
						if loaded {
							fail("load:stored-trc-reported-as-loaded", where(map[string]any{"trc": id.String()}))
						}
					default:
						if !loaded {
							fail("load:valid-trc-not-loaded", where(map[string]any{"trc": id.String(), "ignored": fmt.Sprint(res.Ignored[f])}))
						}
						m.stored[id] = true
						if step == len(hist)-1 {
							r.Outcome("load:trc-loaded")
						}
					}
				}
			case c35Notify:
				lat, ok := m.latest()
				id := c35ID{base: 1, serial: 1}
				if ok {
					id = lat
				}
				if ev.otherBase {
					if id.base == 1 {
						id.base = 3
					} else {
						id.base = 1
					}
				}
				ser := int64(id.serial) + int64(ev.delta)
				if ser < 1 {
					ser = 1
				}
				id.serial = uint64(ser)
				f := &c35Fetcher{w: w, faultAt: ev.faultAt, fault: ev.fault}
				var pdb trust.DB = d
				if ev.fault == c35FaultStore {
					pdb = &c35FaultyDB{DB: d, failAt: ev.faultAt}
				}
				prov := trust.FetchingProvider{DB: pdb, Recurser: trust.LocalOnlyRecurser{}, Fetcher: f, Router: c34Router{}}
				var nerr error
				if pn := mc.Safely(func() {
					nerr = prov.NotifyTRC(ctx, cppki.TRCID{ISD: 1, Base: scrypto.Version(id.base), Serial: scrypto.Version(id.serial)})
				}); pn != nil {
					fail("notify-panic:"+ev.class(), where(map[string]any{"panic": fmt.Sprint(pn)}))
					return
				}
				wantErr, wantFetches := m.notify(id, ev.faultAt)
				if step == len(hist)-1 {
					switch {
					case !ok:
						r.Outcome("notify:empty-store")
					case len(wantFetches) == 0 && wantErr:
						r.Outcome("notify:base-mismatch")
					case len(wantFetches) == 0:
						r.Outcome("notify:not-newer")
					case !wantErr:
						r.Outcome(fmt.Sprintf("notify:advanced-by-%d", len(wantFetches)))
					default:
						r.Outcome(fmt.Sprintf("notify:stopped-after-%d-of-%d", len(wantFetches)-1, ev.delta))
					}
				}
				if fmt.Sprint(f.calls) != fmt.Sprint(wantFetches) {
					fail("notify:fetch-sequence:"+ev.class(), where(map[string]any{"notified": id.String(), "fetched": fmt.Sprint(f.calls), "expected": fmt.Sprint(wantFetches)}))
				}
				if (nerr != nil) != wantErr {
					fail("notify:result:"+ev.class(), where(map[string]any{"notified": id.String(), "error": fmt.Sprint(nerr), "expected_error": wantErr}))
				}
			}
			got, after := dump()
			for isd, b := range before {
				if a, has := after[isd]; !has || c35Less(a, b) {
					fail("latest-regressed:"+ev.class(), where(map[string]any{"before": b.String(), "after": a.String()}))
				}
			}
			if got != m.canon() {
				k := "store-differs-from-model:" + ev.class()
				if strings.Contains(got, ":bad-signature") || strings.Contains(got, ":invalid-successor") || strings.Contains(got, ":malformed-votes") || strings.Contains(got, ":unknown") {
					k = "unverified-trc-stored:" + ev.class()
				}
				fail(k, where(map[string]any{"store": got, "model": m.canon()}))
			}
			if viol != nil {
				return
			}
		}
		canon, _ = dump()
	})
	return canon, viol
}

// c35LoadMatrix: directory loading, flat enumeration. Store holding B1-S1..S3 of ISD 1; a directory with one TRC of
// every kind (or all four kinds) whose validity starts at epoch-1h / epoch / epoch+1s / epoch+12h; clock at the epoch
// or 12 h later; loaded with trust.LoadTRCs or one trust.TRCLoader, twice: at that clock and 12 h later. After every
// load: a TRC whose validity has not started is reported as ignored, is not stored and does not change the latest
// TRC of its ISD; every other one is stored (reported as loaded exactly when it was not stored before).
func c35LoadMatrix(t *testing.T, r *mc.Run, w *c35World) {
	type dirSpec struct {
		what string
		trcs []c35MatrixTRC
	}
	var specs []dirSpec
	byStart := map[time.Duration][]c35MatrixTRC{}
	for _, m := range w.matrix {
		specs = append(specs, dirSpec{fmt.Sprintf("%s starting at epoch%+v", m.kind, m.start), []c35MatrixTRC{m}})
		if m.kind != "sensitive-update" { // regular and sensitive update share the id B1-S4
			byStart[m.start] = append(byStart[m.start], m)
		}
	}
	for _, m := range w.matrix {
		if l := byStart[m.start]; l != nil {
			specs = append(specs, dirSpec{fmt.Sprintf("three kinds starting at epoch%+v", m.start), l})
			delete(byStart, m.start)
		}
	}
	fileOf := func(m c35MatrixTRC) string { return m.id.file() }
	n := 0
	for si, sp := range specs {
		dir := filepath.Join(t.TempDir(), fmt.Sprintf("matrix%d", si))
		if err := os.MkdirAll(dir, 0o755); err != nil {
			r.HarnessError("matrix dir: %v", err)
			return
		}
		for _, m := range sp.trcs {
			if err := os.WriteFile(filepath.Join(dir, fileOf(m)), m.signed.Raw, 0o644); err != nil {
				r.HarnessError("matrix file: %v", err)
				return
			}
		}
		for _, clock0 := range []time.Duration{0, 12 * time.Hour} {
			for _, api := range []string{"LoadTRCs", "TRCLoader"} {
				n++
				name := fmt.Sprintf("directory with %s; clock epoch+%v then +12h; %s", sp.what, clock0, api)
				synctest.Test(t, func(t *testing.T) {
					d, err := sqlite.New(fmt.Sprintf("c35m-%d", c35DBCtr.Add(1)), &db.SqliteConfig{InMemory: true, MaxOpenReadConns: 2})
					if err != nil {
						r.HarnessError("sqlite: %v", err)
						return
					}
					defer d.Close()
					ctx := context.Background()
					stored := map[string]string{} // raw -> name
					for _, id := range []c35ID{c35I(1, 1), c35I(1, 2), c35I(1, 3)} {
						if _, err := d.InsertTRC(ctx, w.legit[id]); err != nil {
							r.HarnessError("seeding the store: %v", err)
							return
						}
						stored[string(w.legit[id].Raw)] = id.String()
					}
					loader := &trust.TRCLoader{Dir: dir, DB: d}
					time.Sleep(clock0)
					for round := 0; round < 2; round++ {
						if round == 1 {
							time.Sleep(12 * time.Hour)
						}
						elapsed := time.Since(c35Epoch())
						var res trust.LoadResult
						var lerr error
						if pn := mc.Safely(func() {
							if api == "LoadTRCs" {
								res, lerr = trust.LoadTRCs(ctx, dir, d)
							} else {
								res, lerr = loader.Load(ctx)
							}
						}); pn != nil {
							r.Violation("load-matrix:panic", map[string]any{"case": name, "panic": fmt.Sprint(pn)})
							return
						}
						if lerr != nil {
							r.Violation("load-matrix:error", map[string]any{"case": name, "round": round, "error": lerr.Error()})
							return
						}
						loaded := map[string]bool{}
						for _, f := range res.Loaded {
							loaded[f] = true
						}
						for _, m := range sp.trcs {
							f := filepath.Join(dir, fileOf(m))
							_, ignored := res.Ignored[f]
							det := map[string]any{"case": name, "round": round, "trc": m.id.String(), "kind": m.kind, "validity_starts": fmt.Sprintf("epoch%+v", m.start),
								"clock": fmt.Sprintf("epoch+%v", elapsed), "reported_loaded": loaded[f], "reported_ignored": fmt.Sprint(res.Ignored[f])}
							switch {
							case m.start > elapsed:
								if loaded[f] || (!ignored && api == "LoadTRCs") || (!ignored && round == 0) {
									r.Violation("load-matrix:future-trc-not-ignored:"+m.kind, det)
								}
								r.Outcome("matrix:" + m.kind + ":future-ignored")
							case stored[string(m.signed.Raw)] != "":
								if loaded[f] {
									r.Violation("load-matrix:stored-trc-reported-as-loaded:"+m.kind, det)
								}
								r.Outcome("matrix:" + m.kind + ":already-stored")
							default:
								if !loaded[f] {
									r.Violation("load-matrix:valid-trc-not-loaded:"+m.kind, det)
								}
								stored[string(m.signed.Raw)] = m.id.String() + "(" + m.kind + ")"
								r.Outcome("matrix:" + m.kind + ":loaded")
							}
						}
						// the store is exactly the model's set; the latest TRC per ISD follows from it
						all, err := d.SignedTRCs(ctx, truststorage.TRCsQuery{})
						if err != nil {
							r.HarnessError("dumping the store: %v", err)
							return
						}
						var got, want []string
						for _, s := range all {
							nm, ok := stored[string(s.Raw)]
							if !ok {
								nm = s.TRC.ID.String() + ":not-expected"
								for _, m := range sp.trcs {
									if string(m.signed.Raw) == string(s.Raw) {
										nm = m.id.String() + "(" + m.kind + "):not-yet-valid"
									}
								}
							}
							got = append(got, nm)
						}
						for _, nm := range stored {
							want = append(want, nm)
						}
						sort.Strings(got)
						sort.Strings(want)
						if strings.Join(got, ",") != strings.Join(want, ",") {
							k := "load-matrix:store-differs-from-model"
							if strings.Contains(strings.Join(got, ","), ":not-yet-valid") {
								k = "load-matrix:not-yet-valid-trc-stored"
							}
							r.Violation(k, map[string]any{"case": name, "round": round, "clock": fmt.Sprintf("epoch+%v", elapsed), "store": got, "model": want})
							return
						}
					}
				})
			}
		}
	}
	r.CaseBulk(int64(n), int64(n))
	r.Extra["load_matrix_cases"] = n
}

// c35OneFetcher answers every TRC request with one fixed signed TRC.
type c35OneFetcher struct {
	answer cppki.SignedTRC
	calls  []c35ID
}

func (f *c35OneFetcher) Chains(context.Context, trust.ChainQuery, net.Addr) ([][]*x509.Certificate, error) {
	return nil, fmt.Errorf("no chains in C35")
}

func (f *c35OneFetcher) TRC(_ context.Context, id cppki.TRCID, _ net.Addr) (cppki.SignedTRC, error) {
	f.calls = append(f.calls, c35FromTRC(id))
	return f.answer, nil
}

// c35VoteMatrix: flat enumeration, every update of the generated successions x every c35VoteKinds variant. The store
// holds the legitimate chain of that base up to the predecessor; NotifyTRC(serial of the update) is answered with the
// variant. It must be refused (error, store unchanged, exactly one fetch), and SignedTRC.Verify(predecessor) - the
// verification step of the property - must refuse it as well. The legitimate update is the positive control.
func c35VoteMatrix(t *testing.T, r *mc.Run, w *c35World) {
	var ids []c35ID
	for id := range w.voteVar {
		ids = append(ids, id)
	}
	sort.Slice(ids, func(i, j int) bool { return c35Less(ids[i], ids[j]) })
	n := 0
	for _, id := range ids {
		pred := w.legit[c35I(id.base, id.serial-1)]
		for k := -1; k < len(c35VoteKinds); k++ {
			name, answer := "legitimate", w.legit[id]
			if k >= 0 {
				name, answer = c35VoteKinds[k].name, w.voteVar[id][k]
				if len(answer.Raw) == 0 {
					r.Outcome("vote-matrix:" + name + ":not-applicable")
					continue
				}
			}
			n++
			det := func(extra map[string]any) map[string]any {
				extra["update"] = id.String()
				extra["variant"] = name
				extra["votes"] = fmt.Sprint(answer.TRC.Votes)
				extra["signatures"] = len(answer.SignerInfos)
				extra["predecessor_quorum"] = pred.TRC.Quorum
				return extra
			}
			verr := answer.Verify(&pred.TRC)
			if k >= 0 && verr == nil {
				r.Violation("vote-matrix:verify-accepts:"+name, det(map[string]any{"what": "SignedTRC.Verify(predecessor) accepts the update"}))
			}
			if k < 0 && verr != nil {
				r.HarnessError("legitimate %v does not verify: %v", id, verr)
				return
			}
			synctest.Test(t, func(t *testing.T) {
				d, err := sqlite.New(fmt.Sprintf("c35v-%d", c35DBCtr.Add(1)), &db.SqliteConfig{InMemory: true, MaxOpenReadConns: 2})
				if err != nil {
					r.HarnessError("sqlite: %v", err)
					return
				}
				defer d.Close()
				ctx := context.Background()
				want := []string{}
				for ser := id.base; ser < id.serial; ser++ {
					if _, err := d.InsertTRC(ctx, w.legit[c35I(id.base, ser)]); err != nil {
						r.HarnessError("seeding the store: %v", err)
						return
					}
					want = append(want, c35I(id.base, ser).String()+":legit")
				}
				if k < 0 {
					want = append(want, id.String()+":legit")
				}
				f := &c35OneFetcher{answer: answer}
				prov := trust.FetchingProvider{DB: d, Recurser: trust.LocalOnlyRecurser{}, Fetcher: f, Router: c34Router{}}
				var nerr error
				if pn := mc.Safely(func() {
					nerr = prov.NotifyTRC(ctx, cppki.TRCID{ISD: 1, Base: scrypto.Version(id.base), Serial: scrypto.Version(id.serial)})
				}); pn != nil {
					r.Violation("vote-matrix:panic:"+name, det(map[string]any{"panic": fmt.Sprint(pn)}))
					return
				}
				all, err := d.SignedTRCs(ctx, truststorage.TRCsQuery{})
				if err != nil {
					r.HarnessError("dumping the store: %v", err)
					return
				}
				var got []string
				for _, s := range all {
					nm, ok := w.byRaw[string(s.Raw)]
					if !ok {
						nm = s.TRC.ID.String() + ":unknown"
					}
					got = append(got, nm)
				}
				sort.Strings(got)
				sort.Strings(want)
				if strings.Join(got, ",") != strings.Join(want, ",") {
					key := "vote-matrix:store-differs-from-model:" + name
					if k >= 0 {
						key = "vote-matrix:unverified-trc-stored:" + name
					}
					r.Violation(key, det(map[string]any{"store": got, "model": want, "notify_error": fmt.Sprint(nerr)}))
				}
				if (nerr != nil) != (k >= 0) {
					r.Violation("vote-matrix:result:"+name, det(map[string]any{"notify_error": fmt.Sprint(nerr), "expected_error": k >= 0}))
				}
				if fmt.Sprint(f.calls) != fmt.Sprint([]c35ID{id}) {
					r.Violation("vote-matrix:fetch-sequence:"+name, det(map[string]any{"fetched": fmt.Sprint(f.calls)}))
				}
				if k < 0 {
					r.Outcome("vote-matrix:legitimate-accepted")
				} else {
					r.Outcome("vote-matrix:" + name + ":refused")
				}
			})
		}
	}
	r.CaseBulk(int64(n), int64(n))
	r.Extra["vote_matrix_cases"] = n
}

func TestC35(t *testing.T) {
	r := mc.NewRun(t, "C35", mc.ModelChecking)
	w, err := c35Build(t)
	if err != nil {
		t.Fatalf("HARNESS-ERROR building the TRC world: %v", err)
	}
	c35LoadMatrix(t, r, w)
	c35VoteMatrix(t, r, w)
	menu := c35Menu()
	depth := mc.Pick(5, 6)
	r.Rule = fmt.Sprintf("breadth-first search over event histories up to length %d from the empty store; %d events: NotifyTRC with serial "+
		"latest-1/latest/+1/+2/+3 (same base; other base with 0/+1/+2), for +k every position 1..k of a faulty step x {fetch error, bad vote "+
		"signature, properly signed non-successor, TRC with another ID, storage error = InsertTRC of the verified TRC fails (wrapping DB), update with a malformed vote structure (variant of the vote matrix, rotating with serial and position)}; LoadTRCs from 4 directories (S1 | S2 + future S4 | other-base B3-S3 + future S5 | sensitive update B3-S5 + second trust-reset base B5-S5 + base TRC of unknown ISD 2, all three starting 12 h after the initial clock); "+
		"Advance(12h) at most twice. A state is the sorted list of stored TRCs (legit / corrupted variant by bytes) plus the clock; distinct key = state; "+
		"each transition is one full replay on a fresh sqlite DB compared step by step with the reference model. Before the search a flat matrix: directory with a TRC of kind "+
		"{base of an unknown ISD, trust-reset base with a higher base number, regular update, sensitive update} (each alone, and three kinds together) x validity start epoch-1h/epoch/epoch+1s/epoch+12h x clock epoch / "+
		"epoch+12h x {LoadTRCs, one TRCLoader}, loaded twice 12 h apart into a store holding B1-S1..S3. And a flat vote matrix: every update x {legitimate, one voter repeated quorum times with one signature, "+
		"last vote duplicating the first, below quorum, declared vote unsigned, vote by a root certificate, regular votes on a sensitive update, vote index out of range} via NotifyTRC on a store "+
		"holding the chain up to the predecessor, and via SignedTRC.Verify(predecessor)", depth, len(menu))
	st := mc.BFS(mc.Space[c35Ev]{
		Replay: func(h []c35Ev) (string, *mc.Viol) { return c35Replay(t, r, w, h) },
		Events: func(h []c35Ev) []c35Ev {
			adv := 0
			for _, e := range h {
				if e.kind == c35Advance {
					adv++
				}
			}
			if adv < 2 {
				return menu
			}
			return menu[:len(menu)-1]
		},
		MaxDepth:   depth,
		CheckMerge: mc.Thorough(),
		Workers:    8,
		Stop:       r.OutOfBudget,
	})
	r.Report(st)
	r.CaseBulk(st.Traces, st.States)
	r.Extra["depth_reached"] = st.Depth
	r.Extra["events"] = len(menu)
	r.Extra["merge_checks"] = st.MergeChecks
	r.Assumptions = []string{
		"'latest' is the highest (base, serial) pair stored for the ISD",
		"the fetcher is a script; like the real gRPC fetcher it may return anything, including a TRC with another ID",
		"NotifyTRC does not look at the clock (a fetched TRC whose validity starts in the future is stored); only LoadTRCs ignores future TRCs, as the statement says",
		"directory loading trusts the files (no succession check), as in the implementation's contract; the model mirrors that",
	}
	r.Finish(5)
}
