#!/bin/bash
# Regenerates the scheduler overlay for the router data plane + udpip underlay from the CURRENT /repo sources.
set -e
. /verif/env.sh
out=/var/tmp/verif-ov-schedrouter${VERIF_OVERLAY:+-$(echo "$VERIF_OVERLAY" | md5sum | cut -c1-8)}
rm -rf "$out"; mkdir -p "$out"
( cd /verif/engine && $G build -o /verif/.bin/vrewrite ./vrewrite/ ) >&2
cat > "$out/zz_verif_sched.go" <<'EOG'
//go:build verif

package router

// VerifPoolChan returns the pool channel (identity only; the ownership monitor classifies channels with it).
func (v *VerifDP) VerifPoolChan() any { return v.packetPool.pool }
EOG
/verif/.bin/vrewrite -out "$out" ${VERIF_OVERLAY:+-base "$VERIF_OVERLAY"} \
  -add /repo/router/zz_verif_sched.go="$out/zz_verif_sched.go" \
  /repo/router/dataplane.go /repo/router/svc.go /repo/router/underlayproviders/udpip/udpip.go
