package schedrouter

import (
	"context"
	"errors"
	"fmt"
	"net"
	"net/netip"
	"reflect"
	"sort"
	"strings"
	"testing"
	"time"
	"unsafe"

	"github.com/gopacket/gopacket/layers"
	"github.com/scionproto/scion/pkg/addr"
	"github.com/scionproto/scion/pkg/stun"
	"github.com/scionproto/scion/private/topology"
	underlayconn "github.com/scionproto/scion/private/underlay/conn"
	"github.com/scionproto/scion/router"
	"github.com/scionproto/scion/router/control"

	"verif/mc"
	"verif/rtr"
	"verif/vsched"
)

// ---- ownership monitor ----

type pstate struct {
	id     int
	inChan uintptr // != 0: the packet sits in this channel
	holder int     // thread id holding it (inChan == 0)
}

type monitor struct {
	s       *vsched.Sched
	pk      map[*router.Packet]*pstate
	byBuf   map[uintptr]*router.Packet
	viol    []string // first violations (class: detail)
	written int
	events  int
}

func (m *monitor) fail(class, format string, a ...any) {
	if len(m.viol) < 5 {
		m.viol = append(m.viol, class+": "+fmt.Sprintf(format, a...))
	}
}

func (m *monitor) tname(id int) string {
	for _, t := range m.s.Threads() {
		if t.ID == id {
			return t.Name
		}
	}
	return fmt.Sprint(id)
}

// hook observes every completed channel operation that carries a *router.Packet.
func (m *monitor) hook(kind string, ch any, val any) {
	p, ok := val.(*router.Packet)
	if !ok || p == nil {
		return
	}
	m.events++
	me := m.s.Current().ID
	key := reflect.ValueOf(ch).Pointer()
	st := m.pk[p]
	if st == nil {
		// first sight: the pool is being filled (initPacketPool)
		st = &pstate{id: len(m.pk), holder: me}
		m.pk[p] = st
		m.byBuf[uintptr(unsafe.Pointer(router.VerifPacketBuffer(p)))] = p
		if kind != "send" {
			m.fail("unknown-packet", "thread %s received an unknown packet", m.tname(me))
		}
	}
	switch kind {
	case "send":
		if st.inChan != 0 {
			m.fail("double-release", "thread %s put packet #%d into a channel while it already sits in a channel (returned/enqueued twice)", m.tname(me), st.id)
		} else if st.holder != me {
			m.fail("not-owner", "thread %s put packet #%d into a channel while thread %s holds it", m.tname(me), st.id, m.tname(st.holder))
		}
		st.inChan, st.holder = key, -1
	case "recv":
		if st.inChan != key {
			m.fail("phantom", "thread %s received packet #%d from a channel it was not in", m.tname(me), st.id)
		}
		st.inChan, st.holder = 0, me
	}
}

// use: the current thread touches the buffer (socket read into it / socket write from it).
func (m *monitor) use(what string, buf []byte) {
	if len(buf) == 0 && cap(buf) == 0 {
		return
	}
	me := m.s.Current().ID
	b := uintptr(unsafe.Pointer(unsafe.SliceData(buf)))
	for base, p := range m.byBuf {
		if b >= base && b < base+uintptr(router.VerifBufSize) {
			st := m.pk[p]
			if st.inChan != 0 {
				m.fail("use-after-release", "thread %s %s packet #%d which sits in a channel (already released)", m.tname(me), what, st.id)
			} else if st.holder != me {
				m.fail("two-owners", "thread %s %s packet #%d held by thread %s", m.tname(me), what, st.id, m.tname(st.holder))
			}
			return
		}
	}
	m.fail("foreign-buffer", "thread %s %s a buffer that is not a pool packet", m.tname(me), what)
}

// ---- scripted connection ----

type rxPkt struct {
	raw []byte
	src netip.AddrPort
}

type sconn struct {
	name    string
	mon     *monitor
	rx      [][]rxPkt
	closed  bool
	fault   func() int // 0 all written, 1 partial, 2 error
	writes  int
	carried []rxPkt
}

var errClosed = errors.New("closed")

func (c *sconn) ReadBatch(msgs underlayconn.Messages) (int, error) {
	vsched.Cur().Point(&vsched.Op{Kind: "readbatch", Enabled: func() bool { return c.closed || len(c.rx) > 0 || len(c.carried) > 0 }})
	if c.closed {
		return 0, errClosed
	}
	batch := c.carried
	if len(batch) == 0 {
		batch, c.rx = c.rx[0], c.rx[1:]
	}
	n := min(len(batch), len(msgs))
	c.carried = batch[n:]
	for i := 0; i < n; i++ {
		c.mon.use("reads from the socket into", msgs[i].Buffers[0])
		msgs[i].N = copy(msgs[i].Buffers[0], batch[i].raw)
		msgs[i].Addr = net.UDPAddrFromAddrPort(batch[i].src)
	}
	return n, nil
}

func (c *sconn) WriteBatch(msgs underlayconn.Messages, _ int) (int, error) {
	vsched.Cur().Point(&vsched.Op{Kind: "writebatch", Enabled: func() bool { return true }})
	for _, m := range msgs {
		c.mon.use("writes to the socket from", m.Buffers[0])
	}
	c.writes++
	switch c.fault() {
	case 1:
		k := len(msgs) / 2 // partial write: the first half (0 of 1)
		c.mon.written += k
		return k, nil
	case 2:
		return -1, errors.New("write error")
	}
	c.mon.written += len(msgs)
	return len(msgs), nil
}

func (c *sconn) Close() error { c.closed = true; return nil }

// ---- context whose Done channel is closed through the scheduler ----

type vctx struct{ done chan struct{} }

func (c *vctx) Deadline() (time.Time, bool) { return time.Time{}, false }
func (c *vctx) Done() <-chan struct{}       { return c.done }
func (c *vctx) Err() error                  { return nil }
func (c *vctx) Value(any) any               { return nil }

var _ context.Context = (*vctx)(nil)

// ---- scenario ----

type scen struct {
	name     string
	batch    int
	ext3     [][]string // batches of packet kinds received on external interface 3
	internal [][]string // batches received on the internal link
	sib      [][]string // batches received from the sibling router
	bfd      int        // BFD messages sent by a BFD sender thread on interface 2
	early    bool       // shutdown may race with the traffic (otherwise it starts after quiescence + leak check)
	nosib    bool       // no sibling router: 3 connections, so the processor / slow-path queues hold only 3*batch packets
	shared   bool       // sibling links are detached links sharing the internal socket (UDPCanReuseLocal() == false): the receive loop demultiplexes by source address
}

func scenariosC14() []scen {
	var out []scen
	for _, b := range []int{1, 2} {
		for _, early := range []bool{false, true} {
			out = append(out,
				scen{name: "2fwd", batch: b, ext3: [][]string{{"fwd", "fwd"}}, early: early},
				scen{name: "fwd+slow", batch: b, ext3: [][]string{{"fwd"}, {"badmac"}}, early: early},
				scen{name: "garbage+fwd+bfd", batch: b, ext3: [][]string{{"garbage", "fwd"}}, bfd: 1, early: early},
				scen{name: "host+stun", batch: b, internal: [][]string{{"host"}, {"stun"}}, ext3: [][]string{{"fwd"}}, early: early},
				scen{name: "tosib+fromsib", batch: b, ext3: [][]string{{"tosib"}}, sib: [][]string{{"fromsib"}}, bfd: 1, early: early},
				scen{name: "3fwd-burst", batch: b, ext3: [][]string{{"fwd"}, {"fwd"}, {"fwd"}}, early: early},
				scen{name: "2slow+deliver", batch: b, ext3: [][]string{{"badmac", "badmac"}}, sib: [][]string{{"fromsib"}}, early: early},
				// bursts that overflow the (small) queues: the drop paths return buffers, too
				scen{name: "5slow-burst", batch: b, nosib: true, ext3: [][]string{{"badmac"}, {"badmac"}, {"badmac"}, {"badmac"}, {"badmac"}}, early: early},
				scen{name: "5fwd-burst", batch: b, nosib: true, ext3: [][]string{{"fwd"}, {"fwd"}, {"fwd"}, {"fwd"}, {"fwd"}}, bfd: 1, early: early},
				scen{name: "slow-declines", batch: b, nosib: true, ext3: [][]string{{"scmperr"}, {"badmac"}, {"scmperr"}}, early: early},
				scen{name: "stun-burst", batch: b, nosib: true, internal: [][]string{{"stun"}, {"stun"}, {"stun"}, {"stun"}, {"stun"}}, ext3: [][]string{{"fwd"}}, early: early},
				scen{name: "bfd-burst", batch: b, nosib: true, ext3: [][]string{{"fwd"}}, bfd: 3, early: early},
				// sibling links without a socket of their own: packets from the sibling arrive on the internal socket
				scen{name: "shared:tosib+fromsib", batch: b, shared: true, ext3: [][]string{{"tosib"}}, sib: [][]string{{"fromsib"}}, bfd: 1, early: early},
				scen{name: "shared:fromsib+host+stun", batch: b, shared: true, internal: [][]string{{"host"}}, sib: [][]string{{"fromsib"}, {"stun", "fromsib"}}, early: early},
				scen{name: "shared:2fromsib+slow", batch: b, shared: true, ext3: [][]string{{"badmac"}}, sib: [][]string{{"fromsib", "fromsib"}}, early: early},
				scen{name: "4garbage+host-burst", batch: b, nosib: true, ext3: [][]string{{"garbage"}, {"garbage"}, {"badmac"}, {"fwd"}}, internal: [][]string{{"stun"}, {"host"}, {"stun"}}, early: early},
			)
		}
	}
	return out
}

// packets valid at the router under test, picked from the generated valid-case space
var kindsCache map[string]rxPkt

func packetKinds(cfg *rtr.Cfg) map[string]rxPkt {
	if kindsCache != nil {
		return kindsCache
	}
	now := uint32(time.Now().Unix())
	cases := rtr.Cases(cfg, cfg.Key, now-100, 63)
	find := func(in rtr.Ingress, eg uint16, xover bool) *rtr.Case {
		for i := range cases {
			c := &cases[i]
			if c.In == in && c.EgressIf == eg && c.Xover == xover && !c.Shape.Peering {
				return c
			}
		}
		panic(fmt.Sprintf("no case for %v -> %d", in, eg))
	}
	ser := func(c *rtr.Case, f func(p *rtr.Pkt)) []byte {
		p := c.Pkt.Clone()
		if f != nil {
			f(&p)
		}
		b, _ := p.Serialize()
		return b
	}
	ext := netip.MustParseAddrPort(rtr.RemoteAddr(3))
	sib := netip.MustParseAddrPort(rtr.SiblingAddr(1))
	host := netip.MustParseAddrPort("10.0.0.100:31000")
	fwd := find(rtr.FromExt(3), 2, false)
	// a well-formed STUN binding request (header + FINGERPRINT): the internal-link processor answers it
	stunReq := stun.Request(stun.TxID{1, 2, 3, 4, 5, 6, 7, 8, 9, 10, 11, 12})
	kindsCache = map[string]rxPkt{
		"fwd":     {ser(fwd, nil), ext},
		"badmac":  {ser(fwd, func(p *rtr.Pkt) { p.HopRef(fwd.V[0].Hop).Mac[3] ^= 0x40 }), ext},
		"garbage": {[]byte{0, 0, 0, 1, 17, 9, 0, 0, 1, 0, 0, 0, 1, 2, 3}, ext},
		// an SCMP error message with a bad hop MAC: goes to the slow path, which declines to answer it (error branch)
		"scmperr": {ser(fwd, func(p *rtr.Pkt) { p.HopRef(fwd.V[0].Hop).Mac[3] ^= 0x40; p.SetSCMP(1, 0, make([]byte, 20)) }), ext},
		"tosib":   {ser(find(rtr.FromExt(3), 12, false), nil), ext},
		"fromsib": {ser(find(rtr.FromSibling(13), 2, false), nil), sib},
		"host":    {ser(find(rtr.FromHost, 2, false), nil), host},
		"stun":    {stunReq, host},
	}
	return kindsCache
}

type outcome struct {
	viol     []string
	deadlock string
	horizon  bool
	failure  any
	written  int
	stranded int
	leaked   []string
	points   int
	threads  int
	pool     int
}

func runC14(sc scen, choose vsched.Chooser, fault func() int) outcome {
	var out outcome
	mon := &monitor{pk: map[*router.Packet]*pstate{}, byBuf: map[uintptr]*router.Packet{}}
	cfg := rtr.Cfg{IA: rtr.LocalIA, Key: rtr.KeyA, ReuseLocal: true, NoStart: true, PortStart: 1024, PortEnd: 65535,
		RunConfig: router.RunConfig{NumProcessors: 1, NumSlowPathProcessors: 1, BatchSize: sc.batch},
		Ifs: []rtr.IfCfg{{ID: 3, LT: topology.Child, Nbr: rtr.NbrIA(3)}, {ID: 2, LT: topology.Parent, Nbr: rtr.NbrIA(2)},
			{ID: 12, LT: topology.Parent, Nbr: rtr.NbrIA(12), Owner: 1}, {ID: 13, LT: topology.Child, Nbr: rtr.NbrIA(13), Owner: 1}}}
	kinds := packetKinds(&cfg)
	cfg.ReuseLocal = !sc.shared
	if sc.nosib {
		cfg.Ifs = cfg.Ifs[:2]
	}
	conns := map[string]*sconn{}
	cfg.ConnFactory = func(l, r netip.AddrPort) router.BatchConn {
		name := "internal"
		switch {
		case r == netip.MustParseAddrPort(rtr.RemoteAddr(3)):
			name = "ext3"
		case r == netip.MustParseAddrPort(rtr.RemoteAddr(2)):
			name = "ext2"
		case r == netip.MustParseAddrPort(rtr.SiblingAddr(1)):
			name = "sib"
		}
		c := &sconn{name: name, mon: mon, fault: fault}
		conns[name] = c
		return c
	}
	rt := rtr.MustBuild(cfg)
	script := func(name string, batches [][]string) {
		for _, b := range batches {
			var rb []rxPkt
			for _, k := range b {
				rb = append(rb, kinds[k])
			}
			conns[name].rx = append(conns[name].rx, rb)
		}
	}
	script("ext3", sc.ext3)
	script("internal", sc.internal)
	switch {
	case sc.shared:
		script("internal", sc.sib) // same socket, told apart by the source address
	case !sc.nosib:
		script("sib", sc.sib)
	}
	ctx := &vctx{done: make(chan struct{})}
	vsched.ChanHook = mon.hook
	defer func() { vsched.ChanHook = nil }()
	s := vsched.Run(choose, 6000, func(s *vsched.Sched) {
		mon.s = s
		runT := s.Go("run", true, func() { rt.VerifRun(ctx) })
		running := func() bool { return runT.PendingKind() == "recv" } // Run reached <-ctx.Done()
		// bfd and shutdown threads are created once the router runs, so that they have the highest thread ids: the
		// default scheduler then lets the traffic run dry first, and ONE deviation is enough to start Shutdown (or a BFD
		// transmission) at any point of the traffic.
		s.Point(&vsched.Op{Kind: "await-running", Enabled: running})
		var bfdT *vsched.Thread
		if sc.bfd > 0 {
			bfdT = s.Go("bfd", false, func() {
				disable := false
				li := control.LinkInfo{Provider: "udpip", Local: control.LinkEnd{IA: cfg.IA, Addr: rtr.LocalExtAddr(2)},
					Remote: control.LinkEnd{IA: rtr.NbrIA(2), Addr: rtr.RemoteAddr(2)}, BFD: control.BFD{Disable: &disable}}
				snd, err := rt.VerifNewBFDSend(li, addr.HostIP(netip.MustParseAddr("198.19.0.2")), addr.HostIP(netip.MustParseAddr("198.18.0.2")), 2, false)
				if err != nil {
					panic(err)
				}
				for i := 0; i < sc.bfd; i++ {
					snd.Send(&layers.BFD{Version: 1, State: layers.BFDStateDown, DetectMultiplier: 3, MyDiscriminator: 1})
				}
			})
		}
		gate := false
		shutT := s.Go("shutdown", false, func() {
			s.Point(&vsched.Op{Kind: "await-gate", Enabled: func() bool { return sc.early || gate }})
			rt.Shutdown()
		})
		if !sc.early {
			// let the traffic run dry, then the pool must be whole again (minus what receivers prefetched)
			s.WaitQuiescent()
			poolKey := reflect.ValueOf(rt.VerifPoolChan()).Pointer()
			for p, st := range mon.pk {
				_ = p
				if st.inChan == poolKey {
					continue
				}
				if st.inChan == 0 && strings.HasPrefix(mon.tname(st.holder), "go#") && isReceiver(s, st.holder) {
					continue // prefetched by a receive loop blocked in ReadBatch
				}
				where := "held by " + mon.tname(st.holder)
				if st.inChan != 0 {
					where = "left in a queue"
				}
				out.leaked = append(out.leaked, fmt.Sprintf("packet #%d %s at quiescence of the running router", st.id, where))
			}
			gate = true
		}
		ths := []*vsched.Thread{shutT}
		if bfdT != nil {
			ths = append(ths, bfdT)
		}
		s.Join(ths...)
		vsched.Close(ctx.done)
		s.WaitQuiescent()
		// after shutdown: nothing may be held by a thread; what sits in non-pool queues is counted (stranded)
		poolKey := reflect.ValueOf(rt.VerifPoolChan()).Pointer()
		for _, st := range mon.pk {
			switch {
			case st.inChan == poolKey:
			case st.inChan != 0:
				out.stranded++
			default:
				out.leaked = append(out.leaked, fmt.Sprintf("packet #%d still held by %s after shutdown", st.id, mon.tname(st.holder)))
			}
		}
		out.pool = len(mon.pk)
		out.threads = len(s.Threads())
	})
	out.viol, out.deadlock, out.horizon, out.failure, out.written, out.points = mon.viol, s.Deadlock, s.Horizon, s.Failure(), mon.written, s.Steps
	sort.Strings(out.leaked)
	return out
}

func isReceiver(s *vsched.Sched, id int) bool {
	for _, t := range s.Threads() {
		if t.ID == id {
			return t.PendingKind() == "readbatch"
		}
	}
	return false
}

func TestC14(t *testing.T) {
	r := mc.NewRun(t, "C14", mc.ModelChecking)
	r.Rule = "scenario = batch size x packet script (<=3 packets of kinds forwardable/slow-path/garbage/to-sibling/from-sibling/" +
		"from-host/STUN on 3 links) x sibling link with its own socket or sharing the internal socket (demultiplexed by source address) x BFD sender x shutdown racing or after quiescence; for each: all schedules of the real " +
		"Run pipeline (receivers, processor, slow path, internal-link processor, senders, BFD sender, shutdown) with at most " +
		"D deviations from the default deterministic scheduler; a deviation is a preemption, a non-default successor when the " +
		"running thread blocks, a non-default ready select case, or a write fault (partial / failed WriteBatch)"
	scs := scenariosC14()
	shard, nShards, isChild := mc.ShardOf()
	bound := mc.Pick(1, 2)
	if !isChild {
		r.RunShards("TestC14", 14)
		r.Extra["scenarios"] = len(scs)
		r.Extra["deviation_bound"] = bound
		r.Assumptions = []string{"buffers still queued when the connections are stopped are never returned to the pool; this end-of-life residue is counted (stranded_at_shutdown) and not judged (the statement's 'including shutdown' is read as: exactly-once and single-owner also hold during shutdown)",
			"ownership is observed at channel operations carrying a *Packet and at the socket calls (ReadBatch/WriteBatch buffers); accesses between those points are attributed to the holder",
			"atomic loads/swaps, channel operations, mutex acquisitions and socket calls are the scheduling points"}
		r.Finish(2)
		return
	}
	var execs, points, stranded int64
	for si, sc := range scs {
		if si%nShards != shard {
			continue
		}
		name := fmt.Sprintf("%s/batch=%d/early=%v", sc.name, sc.batch, sc.early)
		if sc.batch == 2 && !mc.Thorough() && (sc.nosib || si%2 == 1) {
			continue // quick: batch size 2 on part of the scenarios only
		}
		// determinism self-check
		d1 := runC14(sc, func(int, bool) int { return 0 }, func() int { return 0 })
		d2 := runC14(sc, func(int, bool) int { return 0 }, func() int { return 0 })
		if fmt.Sprint(d1) != fmt.Sprint(d2) {
			r.HarnessError("nondeterministic replay of %s: %+v vs %+v", name, d1, d2)
			continue
		}
		r.Sample(map[string]any{"scenario": name, "default_schedule": map[string]any{"scheduling_points": d1.points, "threads": d1.threads,
			"pool": d1.pool, "written": d1.written, "stranded": d1.stranded}})
		var x *mc.Ctx
		body := func(xx *mc.Ctx) {
			x = xx
			// deviation bounding over ALL scheduling decisions (delay bounding): the default scheduler keeps the
			// running thread and, when it blocks, continues with the lowest-numbered enabled thread; every other
			// decision (a preemption, another successor, another ready select case, a write fault) costs one deviation
			o := runC14(sc, func(n int, curEnabled bool) int { return x.Dev(n) }, func() int { return x.Dev(3) })
			points += int64(o.points)
			stranded += int64(o.stranded)
			det := map[string]any{"scenario": name, "schedule": fmt.Sprint(x.Choices())}
			switch {
			case o.failure != nil:
				det["panic"] = fmt.Sprint(o.failure)
				r.Violation("panic", det)
			case o.horizon:
				r.HarnessError("step horizon reached in %s %v", name, x.Choices())
			case len(o.viol) > 0:
				det["violations"] = o.viol
				r.Violation(strings.SplitN(o.viol[0], ":", 2)[0], det)
			case o.deadlock != "":
				det["blocked"] = o.deadlock
				r.Violation("deadlock", det)
			case len(o.leaked) > 0:
				det["leaked"] = o.leaked
				r.Violation("leak", det)
			default:
				r.Outcome(fmt.Sprintf("ok/written=%d", o.written))
			}
		}
		st := mc.Explore(body, bound, 1, r.OutOfBudget)
		if !st.Complete {
			r.Capped("budget reached in scenario " + name)
		}
		execs += st.Executions
		r.Case(name, true)
	}
	r.AddGraph(points, execs, execs)
	r.Extra["executions"] = execs
	r.Extra["stranded_at_shutdown_total"] = stranded
	r.Finish(0)
}
