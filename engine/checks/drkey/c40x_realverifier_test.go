package drkey

import (
	"context"
	"crypto/tls"
	"crypto/x509"
	"fmt"
	"sync/atomic"
	"time"

	"google.golang.org/grpc/credentials"

	dkgrpc "github.com/scionproto/scion/control/drkey/grpc"
	"github.com/scionproto/scion/pkg/addr"
	"github.com/scionproto/scion/pkg/drkey"
	cppb "github.com/scionproto/scion/pkg/proto/control_plane"
	dkpb "github.com/scionproto/scion/pkg/proto/drkey"
	"github.com/scionproto/scion/pkg/scrypto/cppki"
	"github.com/scionproto/scion/private/trust"

	"verif/mc"
	"verif/pkigen"
)

// DRKeyLevel1 behind the REAL client certificate verifier (private/trust.TLSCryptoVerifier, the one package main wires
// into the server) and real CP-PKI chains: which AS does a chain authenticate, and for which AS is the level-1 key
// derived? The chains are the product subject AS x issuing CA (own AS, another AS of the ISD, a CA of another ISD,
// a CA under a root that is in no TRC, a CA of an ISD without TRC) x way of being (mis-)issued.

// c40TRCDB is a trust.DB holding one base TRC per ISD.
type c40TRCDB struct{ trcs map[addr.ISD]cppki.SignedTRC }

func (d c40TRCDB) Chains(context.Context, trust.ChainQuery) ([][]*x509.Certificate, error) {
	return nil, nil
}
func (d c40TRCDB) InsertChain(context.Context, []*x509.Certificate) (bool, error) { return false, nil }
func (d c40TRCDB) InsertTRC(context.Context, cppki.SignedTRC) (bool, error)       { return false, nil }
func (d c40TRCDB) SignedTRC(_ context.Context, id cppki.TRCID) (cppki.SignedTRC, error) {
	return d.trcs[id.ISD], nil
}

type c40Chain struct {
	name    string
	chain   []*x509.Certificate
	subject addr.IA // ISD-AS in the subject of the first certificate (0: none)
	valid   bool    // the chain is a correctly issued, currently valid AS chain rooted in the TRC of the subject's ISD
}

func c40RealChains() (trust.DB, []c40Chain) {
	now := time.Now()
	long := pkigen.Val(now.Add(-24*time.Hour), 20*24*time.Hour)
	cur := pkigen.Val(now.Add(-time.Hour), 48*time.Hour)
	ia := addr.MustParseIA
	type ca struct {
		name    string
		c, root *pkigen.Cert
		isd     addr.ISD
		trusted bool // its root is in the TRC of its ISD
	}
	root1 := pkigen.Root(ia("1-ff00:0:110"), "c40 root isd1", long)
	root2 := pkigen.Root(ia("2-ff00:0:210"), "c40 root isd2", long)
	root3 := pkigen.Root(ia("3-ff00:0:310"), "c40 root isd3 (no TRC)", long)
	rogue := pkigen.Root(ia("1-ff00:0:110"), "c40 root isd1 not in TRC", long)
	cas := []ca{
		{"ca-in-1-ff00:0:110", pkigen.CA(root1, ia("1-ff00:0:110"), "c40 ca 110", long), root1, 1, true},
		{"ca-in-1-ff00:0:120", pkigen.CA(root1, ia("1-ff00:0:120"), "c40 ca 120", long), root1, 1, true},
		{"ca-in-2-ff00:0:210", pkigen.CA(root2, ia("2-ff00:0:210"), "c40 ca 210", long), root2, 2, true},
		{"ca-in-2-ff00:0:110", pkigen.CA(root2, ia("2-ff00:0:110"), "c40 ca 2-110", long), root2, 2, true},
		{"ca-under-root-not-in-trc-in-1-ff00:0:110", pkigen.CA(rogue, ia("1-ff00:0:110"), "c40 rogue ca", long), rogue, 1, false},
		{"ca-of-isd-without-trc-3-ff00:0:310", pkigen.CA(root3, ia("3-ff00:0:310"), "c40 ca 310", long), root3, 3, false},
	}
	db := c40TRCDB{trcs: map[addr.ISD]cppki.SignedTRC{}}
	for isd, root := range map[addr.ISD]*pkigen.Cert{1: root1, 2: root2} {
		db.trcs[isd] = cppki.SignedTRC{Raw: []byte{1}, TRC: cppki.TRC{Raw: []byte{1}, Version: 1,
			ID: cppki.TRCID{ISD: isd, Base: 1, Serial: 1}, Validity: long, Description: "c40",
			CoreASes: []addr.AS{root.Spec.IA.AS()}, AuthoritativeASes: []addr.AS{root.Spec.IA.AS()},
			Certificates: []*x509.Certificate{root.X}}}
	}
	subjects := []addr.IA{ia("1-ff00:0:110"), ia("1-ff00:0:111"), ia("1-ff00:0:112"), ia("1-ff00:0:120"), ia("2-ff00:0:110"),
		ia("2-ff00:0:210"), ia("2-ff00:0:211"), ia("3-ff00:0:311")}
	type variant struct {
		name string
		ok   bool
		spec func(s *pkigen.Spec)
		// chain builds the presented chain from leaf, its CA, that CA's root and the next CA of the list
		chain func(leaf *pkigen.Cert, c ca, other ca) []*x509.Certificate
	}
	std := func(leaf *pkigen.Cert, c ca, _ ca) []*x509.Certificate { return pkigen.Chain(leaf, c.c) }
	variants := []variant{
		{"correct", true, nil, std},
		{"client-auth-and-timestamping-only", true, func(s *pkigen.Spec) {
			s.Mutate = func(t *x509.Certificate) {
				t.ExtKeyUsage = []x509.ExtKeyUsage{x509.ExtKeyUsageClientAuth, x509.ExtKeyUsageTimeStamping}
			}
		}, std},
		{"without-client-auth-usage", false, func(s *pkigen.Spec) {
			s.Mutate = func(t *x509.Certificate) {
				t.ExtKeyUsage = []x509.ExtKeyUsage{x509.ExtKeyUsageServerAuth, x509.ExtKeyUsageTimeStamping}
			}
		}, std},
		{"expired", false, func(s *pkigen.Spec) { s.NotBefore, s.NotAfter = now.Add(-3*time.Hour), now.Add(-time.Hour) }, std},
		{"not-yet-valid", false, func(s *pkigen.Spec) { s.NotBefore, s.NotAfter = now.Add(time.Hour), now.Add(3*time.Hour) }, std},
		{"signed-with-a-key-that-is-not-the-cas", false, func(s *pkigen.Spec) { s.SignKey = pkigen.Key("c40 stranger") }, std},
		{"leaf-only", false, nil, func(l *pkigen.Cert, _ ca, _ ca) []*x509.Certificate { return []*x509.Certificate{l.X} }},
		{"ca-first", false, nil, func(l *pkigen.Cert, c ca, _ ca) []*x509.Certificate { return []*x509.Certificate{c.c.X, l.X} }},
		{"paired-with-another-ca-certificate", false, nil, func(l *pkigen.Cert, _ ca, o ca) []*x509.Certificate {
			return pkigen.Chain(l, o.c)
		}},
		{"leaf-ca-root", false, nil, func(l *pkigen.Cert, c ca, _ ca) []*x509.Certificate {
			return []*x509.Certificate{l.X, c.c.X, c.root.X}
		}},
	}
	var out []c40Chain
	for _, sub := range subjects {
		for ci, c := range cas {
			for _, v := range variants {
				cn := fmt.Sprintf("c40 as %s by %s %s", sub, c.name, v.name)
				sp := pkigen.Spec{Type: cppki.AS, IA: sub, CN: cn, KeyName: "c40 as " + sub.String(), NotBefore: cur.NotBefore,
					NotAfter: cur.NotAfter, Issuer: c.c}
				if v.spec != nil {
					v.spec(&sp)
				}
				leaf := pkigen.Must(sp)
				out = append(out, c40Chain{name: fmt.Sprintf("as-cert-of-%s-issued-by-%s:%s", sub, c.name, v.name),
					chain: v.chain(leaf, c, cas[(ci+1)%len(cas)]), subject: sub,
					valid: v.ok && c.trusted && c.isd == sub.ISD()})
			}
		}
	}
	// certificates that are no AS certificate, or name no AS, presented as leaf
	for _, c := range cas {
		out = append(out, c40Chain{name: "ca-certificate-as-leaf:" + c.name, chain: []*x509.Certificate{c.c.X, c.root.X},
			subject: c.c.Spec.IA})
		noIA := pkigen.Must(pkigen.Spec{Type: cppki.AS, IA: c.c.Spec.IA, NoIA: true, CN: "c40 as without isd-as by " + c.name,
			NotBefore: cur.NotBefore, NotAfter: cur.NotAfter, Issuer: c.c})
		out = append(out, c40Chain{name: "as-cert-without-isd-as-issued-by-" + c.name, chain: pkigen.Chain(noIA, c.c)})
	}
	return db, out
}

func tlsAuth(chain []*x509.Certificate) credentials.AuthInfo {
	return credentials.TLSInfo{State: tls.ConnectionState{PeerCertificates: chain}}
}

func c40IssuerIA(c *x509.Certificate) string {
	ia, err := cppki.ExtractIA(c.Issuer)
	if err != nil {
		return "none"
	}
	return ia.String()
}

// c40RealVerifier runs the chains through the real verifier alone and through DRKeyLevel1 with it.
func c40RealVerifier(s *c40State, peers []c40Peer, vals []c40Val, evals, nontriv *atomic.Int64) {
	r := s.r
	db, chains := c40RealChains()
	var accepted, refusedValid atomic.Int64
	protos := []int32{1, 0, 0x100}
	mc.ParallelFor(len(chains), func(i int) {
		ch := chains[i]
		ver := &trust.TLSCryptoVerifier{DB: db, Timeout: 5 * time.Second}
		base := func() map[string]any {
			d := map[string]any{"local_ia": c40Local.String(), "chain": ch.name, "chain_is_valid": ch.valid,
				"leaf_subject_ia": ch.subject.String()}
			if len(ch.chain) > 0 {
				d["leaf_issuer_ia"] = c40IssuerIA(ch.chain[0])
			}
			return d
		}
		// the verifier alone: a chain authenticates (only) the AS named in the subject of its AS certificate
		var got addr.IA
		var verr error
		if pn := mc.Safely(func() { got, verr = ver.VerifyParsedClientCertificate(ch.chain) }); pn != nil {
			r.Violation("level1-real-verifier:panic", base())
			return
		}
		evals.Add(1)
		if verr == nil {
			accepted.Add(1)
			nontriv.Add(1)
			if !ch.valid {
				r.Violation("level1-real-verifier:invalid-chain-authenticates", base())
			} else if got != ch.subject {
				d := base()
				d["authenticated_as"] = got.String()
				r.Violation("level1-real-verifier:authenticated-as-is-not-the-subject-of-the-as-certificate", d)
			}
		} else if ch.valid {
			refusedValid.Add(1)
		}
		// the handler with that verifier
		eng := &recEngine{}
		srv := &dkgrpc.Server{LocalIA: c40Local, Engine: eng, ClientCertificateVerifier: ver}
		auth := tlsAuth(ch.chain)
		for _, p := range peers {
			for _, proto := range protos {
				v := vals[0]
				eng.calls = eng.calls[:0]
				var resp *cppb.DRKeyLevel1Response
				var err error
				desc := func() map[string]any {
					d := base()
					d["rpc"], d["verifier"], d["requester"], d["protocol_id"], d["val_time"] = "DRKeyLevel1",
						"private/trust.TLSCryptoVerifier", p.name, proto, v.name
					return d
				}
				req := &cppb.DRKeyLevel1Request{ValTime: v.ts, ProtocolId: dkpb.Protocol(proto)}
				if pn := mc.Safely(func() { resp, err = srv.DRKeyLevel1(p.ctx(auth), req) }); pn != nil {
					r.Violation("level1:panic", desc())
				}
				evals.Add(1)
				for _, c := range eng.calls {
					if c.method != "DeriveLevel1" || !ch.valid || p.noCtx || c.src != c40Local || c.dst != ch.subject {
						d := desc()
						d["engine_asked_for"] = c.String()
						r.Violation("level1:derived-for-other-than-the-authenticated-as", d)
					}
				}
				unauth := ""
				if !ch.valid || p.noCtx {
					unauth = "no-authenticated-as"
				}
				s.judge(rpcLevel1, desc, p, resp, err, eng, unauth,
					c40Call{method: "DeriveLevel1", proto: drkey.Protocol(uint16(proto)), val: valTimeOf(v), src: c40Local, dst: ch.subject})
				if err == nil {
					nontriv.Add(1)
				}
			}
		}
	})
	nvalid, nonIssuing := 0, 0
	for _, ch := range chains {
		if ch.valid {
			nvalid++
			if c40IssuerIA(ch.chain[0]) != ch.subject.String() {
				nonIssuing++
			}
		}
	}
	r.Extra["real_verifier_chains"] = len(chains)
	r.Extra["real_verifier_chains_valid"] = nvalid
	r.Extra["real_verifier_chains_valid_with_issuer_in_another_as"] = nonIssuing
	r.Extra["real_verifier_chains_accepted"] = accepted.Load()
	r.Extra["real_verifier_valid_chains_refused"] = refusedValid.Load()
	if accepted.Load() > 0 {
		r.Outcome("real-verifier:chain-authenticates")
	}
	if int(accepted.Load()) < len(chains) {
		r.Outcome("real-verifier:chain-refused")
	}
}
