package drkey

import (
	"net"
	"net/netip"
)

// netipFromStd converts a net.IP into the (unmapped) netip.Addr used as key of the allow list.
func netipFromStd(ip net.IP) (netip.Addr, bool) {
	a, ok := netip.AddrFromSlice(ip)
	return a.Unmap(), ok
}
