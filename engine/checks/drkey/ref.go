// Package drkey holds the checks for the DRKey properties (C39, C40).
//
// ref.go is the clean-room reference: the DRKey derivations written from doc/cryptography/drkey.rst
// (derivation tables + "PRF derivation specification") and the SCION header specification (DT/DL host
// type/length nibble, address formats). It does not call any scion code.
package drkey

import (
	"crypto/aes"
	"crypto/pbkdf2"
	"crypto/sha256"
	"encoding/binary"
	"fmt"
)

// refHost is one host address of the alphabet, given structurally (no parsing in the oracle).
type refHost struct {
	Str  string // textual form handed to the implementation
	DTDL byte   // 4-bit type/length nibble of the SCION common header: IPv4 0b0000, IPv6 0b0011, SVC 0b0100
	Raw  []byte // address bytes as they appear in the SCION address header (SVC: 2 bytes value + 2 bytes zero)
	ID   string // identity of the host; alias spellings of the same host share it
	IP   bool   // an IP host (can be a gRPC peer)
}

func v4(str string, a, b, c, d byte) refHost {
	return refHost{Str: str, DTDL: 0x0, Raw: []byte{a, b, c, d}, ID: fmt.Sprintf("v4:%d.%d.%d.%d", a, b, c, d), IP: true}
}

func v6(str string, raw [16]byte) refHost {
	return refHost{Str: str, DTDL: 0x3, Raw: raw[:], ID: fmt.Sprintf("v6:%x", raw), IP: true}
}

func svc(str string, val uint16) refHost {
	return refHost{Str: str, DTDL: 0x4, Raw: []byte{byte(val >> 8), byte(val), 0, 0}, ID: fmt.Sprintf("svc:%04x", val)}
}

type refKey [16]byte

// derivation type byte ("type" in the PRF specification)
const (
	tyASAS     = 0
	tyASHost   = 1
	tyHostAS   = 2
	tyHostHost = 3
)

// refPRF is AES-CBC-MAC with a zero IV over the zero padded input.
func refPRF(key refKey, in []byte) refKey {
	blk, err := aes.NewCipher(key[:])
	if err != nil {
		panic(err)
	}
	padded := make([]byte, (len(in)+15)/16*16)
	copy(padded, in)
	var x [16]byte
	for o := 0; o < len(padded); o += 16 {
		for i := 0; i < 16; i++ {
			x[i] ^= padded[o+i]
		}
		blk.Encrypt(x[:], x[:])
	}
	return refKey(x)
}

// refSV: KDF(len(master_secret) || master_secret || protocol || epoch_begin || epoch_end), PBKDF2-HMAC-SHA256.
// The doc only *suggests* PBKDF2 and fixes the input layout; salt, iteration count and output length are the
// constants of the implementation (pinned by pkg/drkey/secret_value_test.go).
func refSV(secret []byte, proto uint16, begin, end uint32) refKey {
	in := make([]byte, 0, len(secret)+18)
	in = binary.BigEndian.AppendUint64(in, uint64(len(secret)))
	in = append(in, secret...)
	in = binary.BigEndian.AppendUint16(in, proto)
	in = binary.BigEndian.AppendUint32(in, begin)
	in = binary.BigEndian.AppendUint32(in, end)
	k, err := pbkdf2.Key(sha256.New, string(in), []byte("Derive DRKey Key"), 1000, 16)
	if err != nil {
		panic(err)
	}
	return refKey(k)
}

// refLvl1Input: type || B  (ISD-AS in the 8 byte address header format)
func refLvl1Input(dstIA uint64) []byte {
	in := []byte{tyASAS}
	return binary.BigEndian.AppendUint64(in, dstIA)
}

// refLvl2Input: protocol-specific: type || len/type(H) || H ; generic: type || protocol || len/type(H) || H
func refLvl2Input(ty byte, generic bool, proto uint16, h refHost) []byte {
	in := []byte{ty}
	if generic {
		in = binary.BigEndian.AppendUint16(in, proto)
	}
	in = append(in, h.DTDL&0xf)
	return append(in, h.Raw...)
}

// refLvl3Input: type || len/type(H_B) || H_B (both hierarchies)
func refLvl3Input(h refHost) []byte {
	in := []byte{tyHostHost, h.DTDL & 0xf}
	return append(in, h.Raw...)
}

// predefined protocol identifiers (doc: "Assigned Protocol Identifiers"): 0 Generic, 1 SCMP. Everything else is a
// niche protocol and uses the generic hierarchy (level 0/1 of protocol 0, protocol id in the level 2 input).
func refPredefined(proto uint16) bool { return proto == 0 || proto == 1 }

// refChain computes the whole hierarchy for one (issuer secret, protocol, epoch, A, B, H_A, H_B).
type refChain struct {
	SV, Lvl1, ASHost, HostAS, HostHost refKey
}

func refDerive(secret []byte, proto uint16, begin, end uint32, dstIA uint64, hA, hB *refHost) refChain {
	var c refChain
	generic := !refPredefined(proto)
	l0proto := proto
	if generic {
		l0proto = 0
	}
	c.SV = refSV(secret, l0proto, begin, end)
	c.Lvl1 = refPRF(c.SV, refLvl1Input(dstIA))
	if hB != nil {
		c.ASHost = refPRF(c.Lvl1, refLvl2Input(tyASHost, generic, proto, *hB))
	}
	if hA != nil {
		c.HostAS = refPRF(c.Lvl1, refLvl2Input(tyHostAS, generic, proto, *hA))
		if hB != nil {
			c.HostHost = refPRF(c.HostAS, refLvl3Input(*hB))
		}
	}
	return c
}
