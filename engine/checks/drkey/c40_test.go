package drkey

import (
	"context"
	"crypto/tls"
	"crypto/x509"
	"crypto/x509/pkix"
	"errors"
	"fmt"
	"net"
	"net/netip"
	"strings"
	"sync"
	"sync/atomic"
	"testing"
	"time"

	"google.golang.org/grpc/credentials"
	"google.golang.org/grpc/peer"
	"google.golang.org/protobuf/types/known/timestamppb"

	"github.com/scionproto/scion/control/config"
	dkgrpc "github.com/scionproto/scion/control/drkey/grpc"
	"github.com/scionproto/scion/pkg/addr"
	"github.com/scionproto/scion/pkg/drkey"
	cppb "github.com/scionproto/scion/pkg/proto/control_plane"
	dkpb "github.com/scionproto/scion/pkg/proto/drkey"
	"github.com/scionproto/scion/pkg/snet"

	"verif/mc"
)

// ---------------------------------------------------------------------------------------------
// recording engine: what the handlers ask the key engine to derive, and a recognisable key back
// ---------------------------------------------------------------------------------------------

type c40Call struct {
	method string
	proto  drkey.Protocol
	val    time.Time
	src    addr.IA
	dst    addr.IA
	srcH   string
	dstH   string
}

func (c c40Call) String() string {
	return fmt.Sprintf("%s(protocol=%d val_time=%s src_ia=%s dst_ia=%s src_host=%q dst_host=%q)", c.method, uint16(c.proto),
		c.val.UTC().Format(time.RFC3339Nano), c.src, c.dst, c.srcH, c.dstH)
}

type recEngine struct {
	calls []c40Call
	seq   byte
}

var c40Epoch = drkey.Epoch{NotBefore: time.Unix(1_700_000_000, 0), NotAfter: time.Unix(1_700_000_360, 0)}

func (e *recEngine) key(method byte) drkey.Key {
	e.seq++
	return drkey.Key{0xd0, method, e.seq, 3, 4, 5, 6, 7, 8, 9, 10, 11, 12, 13, 14, 15}
}

// like the real engine, host strings that are no SCION host address cannot be derived for
func c40HostDerivable(s string) bool {
	base := strings.TrimSuffix(strings.TrimSuffix(s, "_A"), "_M")
	if base == "CS" || base == "DS" || base == "Wildcard" {
		return true
	}
	_, err := netip.ParseAddr(s)
	return err == nil
}

func (e *recEngine) GetSecretValue(_ context.Context, m drkey.SecretValueMeta) (drkey.SecretValue, error) {
	e.calls = append(e.calls, c40Call{method: "GetSecretValue", proto: m.ProtoId, val: m.Validity})
	return drkey.SecretValue{Epoch: c40Epoch, ProtoId: m.ProtoId, Key: e.key(0)}, nil
}

func (e *recEngine) GetLevel1Key(_ context.Context, m drkey.Level1Meta) (drkey.Level1Key, error) {
	e.calls = append(e.calls, c40Call{method: "GetLevel1Key", proto: m.ProtoId, val: m.Validity, src: m.SrcIA, dst: m.DstIA})
	return drkey.Level1Key{Epoch: c40Epoch, ProtoId: m.ProtoId, SrcIA: m.SrcIA, DstIA: m.DstIA, Key: e.key(1)}, nil
}

func (e *recEngine) DeriveLevel1(_ context.Context, m drkey.Level1Meta) (drkey.Level1Key, error) {
	e.calls = append(e.calls, c40Call{method: "DeriveLevel1", proto: m.ProtoId, val: m.Validity, src: m.SrcIA, dst: m.DstIA})
	return drkey.Level1Key{Epoch: c40Epoch, ProtoId: m.ProtoId, SrcIA: m.SrcIA, DstIA: m.DstIA, Key: e.key(2)}, nil
}

func (e *recEngine) DeriveASHost(_ context.Context, m drkey.ASHostMeta) (drkey.ASHostKey, error) {
	e.calls = append(e.calls, c40Call{method: "DeriveASHost", proto: m.ProtoId, val: m.Validity, src: m.SrcIA, dst: m.DstIA, dstH: m.DstHost})
	if !c40HostDerivable(m.DstHost) {
		return drkey.ASHostKey{}, errors.New("parsing dst host")
	}
	return drkey.ASHostKey{Epoch: c40Epoch, ProtoId: m.ProtoId, SrcIA: m.SrcIA, DstIA: m.DstIA, DstHost: m.DstHost, Key: e.key(3)}, nil
}

func (e *recEngine) DeriveHostAS(_ context.Context, m drkey.HostASMeta) (drkey.HostASKey, error) {
	e.calls = append(e.calls, c40Call{method: "DeriveHostAS", proto: m.ProtoId, val: m.Validity, src: m.SrcIA, dst: m.DstIA, srcH: m.SrcHost})
	if !c40HostDerivable(m.SrcHost) {
		return drkey.HostASKey{}, errors.New("parsing src host")
	}
	return drkey.HostASKey{Epoch: c40Epoch, ProtoId: m.ProtoId, SrcIA: m.SrcIA, DstIA: m.DstIA, SrcHost: m.SrcHost, Key: e.key(4)}, nil
}

func (e *recEngine) DeriveHostHost(_ context.Context, m drkey.HostHostMeta) (drkey.HostHostKey, error) {
	e.calls = append(e.calls, c40Call{method: "DeriveHostHost", proto: m.ProtoId, val: m.Validity, src: m.SrcIA, dst: m.DstIA,
		srcH: m.SrcHost, dstH: m.DstHost})
	if !c40HostDerivable(m.SrcHost) || !c40HostDerivable(m.DstHost) {
		return drkey.HostHostKey{}, errors.New("parsing host")
	}
	return drkey.HostHostKey{Epoch: c40Epoch, ProtoId: m.ProtoId, SrcIA: m.SrcIA, DstIA: m.DstIA, SrcHost: m.SrcHost,
		DstHost: m.DstHost, Key: e.key(5)}, nil
}

// recording certificate verifier: authenticates the AS named in the leaf's common name
type recVerifier struct {
	chains [][]*x509.Certificate
	ias    []addr.IA
}

func (v *recVerifier) VerifyParsedClientCertificate(chain []*x509.Certificate) (addr.IA, error) {
	v.chains = append(v.chains, chain)
	if len(chain) == 0 {
		v.ias = append(v.ias, 0)
		return 0, errors.New("empty chain")
	}
	cn := chain[0].Subject.CommonName
	if strings.HasPrefix(cn, "bad") {
		v.ias = append(v.ias, 0)
		return addr.MustParseIA("1-ff00:0:111"), errors.New("verification failed") // a value next to the error must not be used
	}
	ia := addr.MustParseIA(cn)
	v.ias = append(v.ias, ia)
	return ia, nil
}

// ---------------------------------------------------------------------------------------------
// alphabets
// ---------------------------------------------------------------------------------------------

type c40Peer struct {
	name  string
	addr  net.Addr   // nil: no peer information in the context at all
	ip    netip.Addr // host address of the requester (unmapped, zone-less); invalid if the peer address carries none
	hasIA bool       // the peer address is a SCION address: it declares the ISD-AS the requester is in
	ia    addr.IA    // host addresses are only unique inside an AS: (ia, ip) is the requester, not ip alone
	// unreal: a *net.TCPAddr without IP cannot occur on an accepted connection; grants are counted, not judged
	unreal bool
	noCtx  bool
}

// plainAddr is a net.Addr implementation the service has never heard of, carrying an IP address and a port.
type plainAddr struct{ ap netip.AddrPort }

func (a plainAddr) Network() string { return "tcp" }
func (a plainAddr) String() string  { return a.ap.String() }

func c40Peers() []c40Peer {
	ip4 := netip.MustParseAddr("10.0.0.1")
	ip4b := netip.MustParseAddr("10.0.0.2")
	ip6 := netip.MustParseAddr("2001:db8::1")
	ll := netip.MustParseAddr("fe80::1")
	udp := func(ip net.IP) *net.UDPAddr { return &net.UDPAddr{IP: ip, Port: 40000} }
	local := addr.MustParseIA("1-ff00:0:110")
	foreign := addr.MustParseIA("1-ff00:0:111")
	otherISD := addr.MustParseIA("2-ff00:0:110")
	ps := []c40Peer{
		{name: "tcp4", addr: &net.TCPAddr{IP: net.IP{10, 0, 0, 1}, Port: 40000}, ip: ip4},
		{name: "tcp4-in-16-byte-form", addr: &net.TCPAddr{IP: net.IPv4(10, 0, 0, 1), Port: 40000}, ip: ip4},
		{name: "tcp6", addr: &net.TCPAddr{IP: net.ParseIP("2001:db8::1"), Port: 40000}, ip: ip6},
		{name: "tcp6-zone", addr: &net.TCPAddr{IP: net.ParseIP("fe80::1"), Port: 40000, Zone: "eth0"}, ip: ll},
		// other address types that carry an IP address but no ISD-AS
		{name: "udp4", addr: udp(net.IP{10, 0, 0, 1}), ip: ip4},
		{name: "ipaddr4", addr: &net.IPAddr{IP: net.IP{10, 0, 0, 1}}, ip: ip4},
		{name: "unknown-addr-type-with-ip4", addr: plainAddr{netip.AddrPortFrom(ip4, 40000)}, ip: ip4},
		{name: "unix-socket", addr: &net.UnixAddr{Name: "/run/cs.sock", Net: "unix"}},
		// SCION addresses: the requester is (ISD-AS, host); the same host address exists in every AS
		{name: "scion-udp-local-as", addr: &snet.UDPAddr{IA: local, Host: udp(net.IP{10, 0, 0, 1})}, ip: ip4, hasIA: true, ia: local},
		{name: "scion-udp-foreign-as", addr: &snet.UDPAddr{IA: foreign, Host: udp(net.IP{10, 0, 0, 1})}, ip: ip4, hasIA: true, ia: foreign},
		{name: "scion-udp-same-as-number-other-isd", addr: &snet.UDPAddr{IA: otherISD, Host: udp(net.IP{10, 0, 0, 1})}, ip: ip4,
			hasIA: true, ia: otherISD},
		{name: "scion-udp-wildcard-ia", addr: &snet.UDPAddr{IA: 0, Host: udp(net.IP{10, 0, 0, 1})}, ip: ip4, hasIA: true, ia: 0},
		{name: "scion-udp6-foreign-as", addr: &snet.UDPAddr{IA: foreign, Host: udp(net.ParseIP("2001:db8::1"))}, ip: ip6, hasIA: true,
			ia: foreign},
		// the next hop (border router / last underlay hop) has the victim's address, the requester itself another one
		{name: "scion-udp-foreign-as-nexthop-has-ip4", addr: &snet.UDPAddr{IA: foreign, Host: udp(net.IP{10, 0, 0, 2}),
			NextHop: udp(net.IP{10, 0, 0, 1})}, ip: ip4b, hasIA: true, ia: foreign},
		{name: "scion-udp-local-as-without-host", addr: &snet.UDPAddr{IA: local, NextHop: udp(net.IP{10, 0, 0, 1})}, hasIA: true, ia: local},
		{name: "scion-svc-foreign-as", addr: &snet.SVCAddr{IA: foreign, SVC: addr.SvcCS, NextHop: udp(net.IP{10, 0, 0, 1})}, hasIA: true,
			ia: foreign},
		{name: "tcp-nil-ip", addr: &net.TCPAddr{Port: 40000}, unreal: true},
		{name: "no-peer", noCtx: true},
	}
	return ps
}

// c40InLocalAS: is the requester a host of the local AS? A peer address without ISD-AS is an address of the AS-internal
// IP network; a SCION peer address says which AS the requester is in.
func c40InLocalAS(p c40Peer) bool { return !p.hasIA || p.ia == c40Local }

// host strings for src_host / dst_host
var c40HostStrs = []string{
	"10.0.0.1", "10.0.0.2", "::ffff:10.0.0.1", "::ffff:a00:1", "2001:db8::1", "2001:db8:0:0:0:0:0:1", "2001:db8::2",
	"fe80::1", "fe80::1%eth0", "CS", "", "10.0.0.1 ", "010.0.0.1", "10.0.0.1:40000", "0.0.0.0", "::",
}

// c40Names: does the host string name the requester? It has to denote an IP address (any spelling; IPv4-mapped IPv6
// and a zone suffix do not change which host is meant) equal to the requester's.
func c40Names(host string, p c40Peer) bool {
	if !p.ip.IsValid() {
		return false
	}
	a, err := netip.ParseAddr(host)
	if err != nil {
		return false
	}
	return a.WithZone("").Unmap() == p.ip
}

var (
	c40Local = addr.MustParseIA("1-ff00:0:110")
	c40IAs   = []addr.IA{c40Local, addr.MustParseIA("1-ff00:0:111"), addr.MustParseIA("2-ff00:0:110"), 0}
	// protocol ids as they arrive in the protobuf enum (int32): generic, SCMP, niche ids, and values outside 16 bit
	c40Protos = []int32{0, 1, 2, 0x100, 0xffff, 0x10000, 0x10001, -1}
)

type c40Val struct {
	name string
	ts   *timestamppb.Timestamp
	ok   bool
}

func c40Vals() []c40Val {
	return []c40Val{
		{"valid", timestamppb.New(time.Unix(1_700_000_100, 5)), true},
		{"nil", nil, false},
		{"invalid-nanos", &timestamppb.Timestamp{Seconds: 1_700_000_100, Nanos: -1}, false},
	}
}

func (p c40Peer) ctx(auth credentials.AuthInfo) context.Context {
	if p.noCtx {
		return context.Background()
	}
	return peer.NewContext(context.Background(), &peer.Peer{Addr: p.addr, AuthInfo: auth})
}

type c40State struct {
	r          *mc.Run
	nilIPGrant atomic.Int64
	granted    [6]atomic.Int64
	denied     [6]atomic.Int64
	grantedHH  [3]atomic.Int64 // host-host grants by side: src only, dst only, both
	grantMu      sync.Mutex
	grantsByKind map[string]int64 // requester kind -> RPC: keys handed out
}

const (
	rpcASHost = iota
	rpcHostAS
	rpcHostHost
	rpcLevel1
	rpcIntra
	rpcSV
)

var c40RPC = []string{"as-host", "host-as", "host-host", "level1", "intra-level1", "secret-value"}

// judge evaluates one handler invocation. unauth: "" if the statement authorises handing out the key, otherwise the
// clause that forbids it. want: what the engine must have been asked for if (and only if) a key came back.
func (s *c40State) judge(rpc int, caseDesc func() map[string]any, p c40Peer, resp keyResp, err error, eng *recEngine,
	unauth string, want c40Call) {
	r := s.r
	name := c40RPC[rpc]
	grant := err == nil && resp != nil && len(resp.GetKey()) > 0
	if (err == nil) != (resp != nil && !isNilResp(resp)) {
		r.Violation(name+":error-and-response-disagree", caseDesc())
	}
	// calls that derive key material for this request
	if len(eng.calls) > 1 {
		r.Violation(name+":engine-called-more-than-once", caseDesc())
		return
	}
	if !grant {
		s.denied[rpc].Add(1)
		return
	}
	s.granted[rpc].Add(1)
	s.grantMu.Lock()
	s.grantsByKind[p.name+" -> "+name]++
	s.grantMu.Unlock()
	if p.unreal && rpc != rpcLevel1 {
		// a TCP peer without an IP address does not occur on a real connection: recorded, not judged
		s.nilIPGrant.Add(1)
		return
	}
	// level 0/2/3 and intra-AS level 1 keys are bound to hosts of the local AS (level 1 requesters are identified by
	// their certificate instead)
	if unauth == "" && rpc != rpcLevel1 && !c40InLocalAS(p) {
		unauth = "requester-is-not-a-host-of-the-local-as"
	}
	if unauth != "" {
		d := caseDesc()
		d["forbidden_by"] = unauth
		r.Violation(name+":key-handed-out:"+unauth, d)
		return
	}
	// the key handed out is the one derived for exactly this request
	if len(eng.calls) != 1 {
		r.Violation(name+":key-without-derivation", caseDesc())
		return
	}
	got := eng.calls[0]
	if got != want {
		d := caseDesc()
		d["engine_asked_for"] = got.String()
		d["request_means"] = want.String()
		r.Violation(name+":derived-key-is-not-the-requested-one", d)
		return
	}
	wantKey := drkey.Key{0xd0, byte(map[string]int{"GetSecretValue": 0, "GetLevel1Key": 1, "DeriveLevel1": 2, "DeriveASHost": 3,
		"DeriveHostAS": 4, "DeriveHostHost": 5}[want.method]), eng.seq, 3, 4, 5, 6, 7, 8, 9, 10, 11, 12, 13, 14, 15}
	if string(resp.GetKey()) != string(wantKey[:]) || !resp.GetEpochBegin().AsTime().Equal(c40Epoch.NotBefore) ||
		!resp.GetEpochEnd().AsTime().Equal(c40Epoch.NotAfter) {
		r.Violation(name+":response-is-not-the-derived-key", caseDesc())
	}
}

func isNilResp(r keyResp) bool {
	switch v := r.(type) {
	case *cppb.DRKeyASHostResponse:
		return v == nil
	case *cppb.DRKeyHostASResponse:
		return v == nil
	case *cppb.DRKeyHostHostResponse:
		return v == nil
	case *cppb.DRKeyLevel1Response:
		return v == nil
	case *cppb.DRKeyIntraLevel1Response:
		return v == nil
	case *cppb.DRKeySecretValueResponse:
		return v == nil
	}
	return r == nil
}

func valTimeOf(v c40Val) time.Time {
	if v.ts == nil {
		return time.Time{}
	}
	return v.ts.AsTime()
}

func TestC40(t *testing.T) {
	r := mc.NewRun(t, "C40", mc.Exploration)
	r.Rule = "full product, per RPC of the real control/drkey/grpc.Server, of: src IA x dst IA over {local, remote, same AS in another ISD, 0; thorough: + wildcard-ISD / wildcard-AS} x " +
		"src/dst host strings (requester, aliases, other hosts, service address, malformed) x requester address kind (TCP/UDP/IP/unknown-type/unix addresses, " +
		"SCION UDP and SVC addresses in the local AS, a foreign AS, the same AS number in another ISD and ISD-AS 0, with the " +
		"host IP in the host part or only in the next hop; no IP; no peer) x " +
		"protocol id (generic, SCMP, niche, out-of-range) x val_time (valid, nil, invalid); level 1: x TLS auth info kind / " +
		"certificate AS, and behind the real TLSCryptoVerifier: real chains (subject AS x issuing CA in the own / another AS / " +
		"another ISD / under a root in no TRC / ISD without TRC x 10 ways of being (mis-)issued or presented) x requester kind x 3 protocol ids; secret value and intra-AS level 1: x all subsets of a 7-entry allow list. A case is distinct by its " +
		"full tuple; non-trivial = a key was handed out"
	s := &c40State{r: r, grantsByKind: map[string]int64{}}
	if mc.Thorough() {
		// wildcard ISD / wildcard AS variants of the local ISD-AS, more protocol ids
		c40IAs = append(c40IAs, addr.MustParseIA("0-ff00:0:110"), addr.MustParseIA("1-0"))
		c40Protos = append(c40Protos, 3, 0x8000, 0x7fffffff)
	}
	peers := c40Peers()
	vals := c40Vals()
	var evals atomic.Int64
	var nontriv atomic.Int64

	// ---- level 2 / 3 --------------------------------------------------------------------------
	type iaPair struct{ src, dst addr.IA }
	var pairs []iaPair
	for _, a := range c40IAs {
		for _, b := range c40IAs {
			pairs = append(pairs, iaPair{a, b})
		}
	}
	hostsHH := c40HostStrs
	if !mc.Thorough() {
		hostsHH = c40HostStrs[:11] // host-host uses the product of two host fields
	}
	mc.ParallelFor(len(pairs), func(pi int) {
		pr := pairs[pi]
		eng := &recEngine{}
		srv := &dkgrpc.Server{LocalIA: c40Local, Engine: eng, ClientCertificateVerifier: &recVerifier{}}
		var n, nt int64
		for _, p := range peers {
			for _, proto := range c40Protos {
				for _, v := range vals {
					for _, h := range c40HostStrs {
						desc := func(rpc string, extra string) func() map[string]any {
							return func() map[string]any {
								return map[string]any{"rpc": rpc, "local_ia": c40Local.String(), "src_ia": pr.src.String(),
									"dst_ia": pr.dst.String(), "hosts": extra, "requester": p.name, "protocol_id": proto, "val_time": v.name}
							}
						}
						// AS-host: only to the named destination host, destination AS local, not generic
						{
							eng.calls = eng.calls[:0]
							var resp *cppb.DRKeyASHostResponse
							var err error
							req := &cppb.DRKeyASHostRequest{ValTime: v.ts, ProtocolId: dkpb.Protocol(proto), SrcIa: uint64(pr.src),
								DstIa: uint64(pr.dst), DstHost: h}
							if pn := mc.Safely(func() { resp, err = srv.DRKeyASHost(p.ctx(nil), req) }); pn != nil {
								r.Violation("as-host:panic", desc("DRKeyASHost", "dst_host="+h)())
							}
							unauth := ""
							switch {
							case proto == 0 || uint16(proto) == 0:
								unauth = "generic-protocol"
							case pr.dst != c40Local:
								unauth = "dst-ia-not-local"
							case !c40Names(h, p):
								unauth = "dst-host-is-not-the-requester"
							}
							s.judge(rpcASHost, desc("DRKeyASHost", fmt.Sprintf("dst_host=%q", h)), p, resp, err, eng, unauth,
								c40Call{method: "DeriveASHost", proto: drkey.Protocol(uint16(proto)), val: valTimeOf(v), src: pr.src, dst: pr.dst, dstH: h})
							n++
							if err == nil {
								nt++
							}
						}
						// host-AS: only to the named source host, source AS local, not generic
						{
							eng.calls = eng.calls[:0]
							var resp *cppb.DRKeyHostASResponse
							var err error
							req := &cppb.DRKeyHostASRequest{ValTime: v.ts, ProtocolId: dkpb.Protocol(proto), SrcIa: uint64(pr.src),
								DstIa: uint64(pr.dst), SrcHost: h}
							if pn := mc.Safely(func() { resp, err = srv.DRKeyHostAS(p.ctx(nil), req) }); pn != nil {
								r.Violation("host-as:panic", desc("DRKeyHostAS", "src_host="+h)())
							}
							unauth := ""
							switch {
							case proto == 0 || uint16(proto) == 0:
								unauth = "generic-protocol"
							case pr.src != c40Local:
								unauth = "src-ia-not-local"
							case !c40Names(h, p):
								unauth = "src-host-is-not-the-requester"
							}
							s.judge(rpcHostAS, desc("DRKeyHostAS", fmt.Sprintf("src_host=%q", h)), p, resp, err, eng, unauth,
								c40Call{method: "DeriveHostAS", proto: drkey.Protocol(uint16(proto)), val: valTimeOf(v), src: pr.src, dst: pr.dst, srcH: h})
							n++
							if err == nil {
								nt++
							}
						}
						// host-host: only to a named host on the local side, not generic
						if !inStrs(hostsHH, h) {
							continue
						}
						for _, h2 := range hostsHH {
							eng.calls = eng.calls[:0]
							var resp *cppb.DRKeyHostHostResponse
							var err error
							req := &cppb.DRKeyHostHostRequest{ValTime: v.ts, ProtocolId: dkpb.Protocol(proto), SrcIa: uint64(pr.src),
								DstIa: uint64(pr.dst), SrcHost: h, DstHost: h2}
							if pn := mc.Safely(func() { resp, err = srv.DRKeyHostHost(p.ctx(nil), req) }); pn != nil {
								r.Violation("host-host:panic", desc("DRKeyHostHost", "src_host="+h+" dst_host="+h2)())
							}
							srcSide := pr.src == c40Local && c40Names(h, p)
							dstSide := pr.dst == c40Local && c40Names(h2, p)
							unauth := ""
							switch {
							case proto == 0 || uint16(proto) == 0:
								unauth = "generic-protocol"
							case !srcSide && !dstSide:
								unauth = "requester-is-no-named-host-on-the-local-side"
							}
							s.judge(rpcHostHost, desc("DRKeyHostHost", fmt.Sprintf("src_host=%q dst_host=%q", h, h2)), p, resp, err, eng, unauth,
								c40Call{method: "DeriveHostHost", proto: drkey.Protocol(uint16(proto)), val: valTimeOf(v), src: pr.src, dst: pr.dst,
									srcH: h, dstH: h2})
							n++
							if err == nil {
								nt++
								switch {
								case srcSide && dstSide:
									s.grantedHH[2].Add(1)
								case srcSide:
									s.grantedHH[0].Add(1)
								case dstSide:
									s.grantedHH[1].Add(1)
								}
							}
						}
					}
				}
			}
		}
		evals.Add(n)
		nontriv.Add(nt)
	})

	// ---- level 1 (inter-AS): derived only for the AS authenticated by the client certificate ----
	type authKind struct {
		name  string
		auth  credentials.AuthInfo
		chain []*x509.Certificate
		ia    addr.IA // AS the certificate authenticates (0: none)
	}
	cert := func(cn string) *x509.Certificate { return &x509.Certificate{Subject: pkix.Name{CommonName: cn}} }
	tlsInfo := func(chain ...*x509.Certificate) credentials.AuthInfo {
		return credentials.TLSInfo{State: tls.ConnectionState{PeerCertificates: chain}}
	}
	var auths []authKind
	auths = append(auths, authKind{name: "no-auth-info"}, authKind{name: "non-tls-auth-info", auth: otherAuth{}},
		authKind{name: "tls-without-client-certificate", auth: tlsInfo()})
	for _, ia := range c40IAs[:3] {
		ch := []*x509.Certificate{cert(ia.String())}
		auths = append(auths, authKind{name: "tls-cert-of-" + ia.String(), auth: tlsInfo(ch...), chain: ch, ia: ia})
	}
	{
		ch := []*x509.Certificate{cert(c40IAs[1].String()), cert(c40IAs[2].String())}
		auths = append(auths, authKind{name: "tls-chain-leaf-" + c40IAs[1].String() + "-issuer-named-" + c40IAs[2].String(),
			auth: tlsInfo(ch...), chain: ch, ia: c40IAs[1]})
		bad := []*x509.Certificate{cert("bad certificate")}
		auths = append(auths, authKind{name: "tls-cert-failing-verification", auth: tlsInfo(bad...), chain: bad})
	}
	{
		eng := &recEngine{}
		ver := &recVerifier{}
		srv := &dkgrpc.Server{LocalIA: c40Local, Engine: eng, ClientCertificateVerifier: ver}
		for _, a := range auths {
			for _, p := range peers {
				for _, proto := range c40Protos {
					for _, v := range vals {
						eng.calls = eng.calls[:0]
						ver.chains, ver.ias = nil, nil
						var resp *cppb.DRKeyLevel1Response
						var err error
						desc := func() map[string]any {
							return map[string]any{"rpc": "DRKeyLevel1", "local_ia": c40Local.String(), "auth": a.name, "requester": p.name,
								"protocol_id": proto, "val_time": v.name}
						}
						req := &cppb.DRKeyLevel1Request{ValTime: v.ts, ProtocolId: dkpb.Protocol(proto)}
						if pn := mc.Safely(func() { resp, err = srv.DRKeyLevel1(p.ctx(a.auth), req) }); pn != nil {
							r.Violation("level1:panic", desc())
						}
						evals.Add(1)
						// every derivation (whether or not its result is returned) must be for (local -> authenticated AS)
						for _, c := range eng.calls {
							if c.method != "DeriveLevel1" || a.ia == 0 || p.noCtx || c.src != c40Local || c.dst != a.ia {
								d := desc()
								d["engine_asked_for"] = c.String()
								r.Violation("level1:derived-for-other-than-the-authenticated-as", d)
							}
						}
						if len(eng.calls) > 0 && (len(ver.chains) != 1 || !sameChain(ver.chains[0], a.chain)) {
							r.Violation("level1:verified-chain-is-not-the-presented-one", desc())
						}
						unauth := ""
						if a.ia == 0 || p.noCtx {
							unauth = "no-authenticated-as"
						}
						s.judge(rpcLevel1, desc, p, resp, err, eng, unauth,
							c40Call{method: "DeriveLevel1", proto: drkey.Protocol(uint16(proto)), val: valTimeOf(v), src: c40Local, dst: a.ia})
						if err == nil {
							nontriv.Add(1)
						}
					}
				}
			}
		}
	}

	// ---- level 1 behind the real certificate verifier and real CP-PKI chains (c40x_realverifier_test.go) ----
	c40RealVerifier(s, peers, vals, &evals, &nontriv)

	// ---- secret value and intra-AS level 1: only to hosts configured for that protocol ----
	type entry struct {
		host  string
		proto drkey.Protocol
	}
	entries := []entry{{"10.0.0.1", drkey.SCMP}, {"10.0.0.1", drkey.Generic}, {"10.0.0.2", drkey.SCMP}, {"2001:db8::1", drkey.SCMP},
		{"::ffff:10.0.0.1", drkey.Protocol(0x100)}, {"10.0.0.1", drkey.Protocol(2)}, {"fe80::1%eth0", drkey.Protocol(0xffff)}}
	nsub := 1 << len(entries)
	mc.ParallelFor(nsub, func(mask int) {
		allow := map[config.HostProto]struct{}{}
		for i, e := range entries {
			if mask&(1<<i) != 0 {
				allow[config.HostProto{Host: netip.MustParseAddr(e.host), Proto: e.proto}] = struct{}{}
			}
		}
		configured := func(p c40Peer, proto uint16) bool {
			if !p.ip.IsValid() {
				return false
			}
			for i, e := range entries {
				if mask&(1<<i) != 0 && uint16(e.proto) == proto && netip.MustParseAddr(e.host).WithZone("").Unmap() == p.ip {
					return true
				}
			}
			return false
		}
		eng := &recEngine{}
		srv := &dkgrpc.Server{LocalIA: c40Local, Engine: eng, ClientCertificateVerifier: &recVerifier{}, AllowedSVHostProto: allow}
		var n, nt int64
		for _, p := range peers {
			for _, proto := range c40Protos {
				for _, v := range vals {
					{
						eng.calls = eng.calls[:0]
						var resp *cppb.DRKeySecretValueResponse
						var err error
						desc := func() map[string]any {
							return map[string]any{"rpc": "DRKeySecretValue", "allow_list": allowStr(entries, mask), "requester": p.name,
								"protocol_id": proto, "val_time": v.name}
						}
						req := &cppb.DRKeySecretValueRequest{ValTime: v.ts, ProtocolId: dkpb.Protocol(proto)}
						if pn := mc.Safely(func() { resp, err = srv.DRKeySecretValue(p.ctx(nil), req) }); pn != nil {
							r.Violation("secret-value:panic", desc())
						}
						unauth := ""
						if !configured(p, uint16(proto)) {
							unauth = "requester-not-configured-for-the-protocol"
						}
						s.judge(rpcSV, desc, p, resp, err, eng, unauth,
							c40Call{method: "GetSecretValue", proto: drkey.Protocol(uint16(proto)), val: valTimeOf(v)})
						n++
						if err == nil {
							nt++
						}
					}
					for _, pr := range pairs {
						eng.calls = eng.calls[:0]
						var resp *cppb.DRKeyIntraLevel1Response
						var err error
						desc := func() map[string]any {
							return map[string]any{"rpc": "DRKeyIntraLevel1", "allow_list": allowStr(entries, mask), "requester": p.name,
								"protocol_id": proto, "val_time": v.name, "src_ia": pr.src.String(), "dst_ia": pr.dst.String(),
								"local_ia": c40Local.String()}
						}
						req := &cppb.DRKeyIntraLevel1Request{ValTime: v.ts, ProtocolId: dkpb.Protocol(proto), SrcIa: uint64(pr.src),
							DstIa: uint64(pr.dst)}
						if pn := mc.Safely(func() { resp, err = srv.DRKeyIntraLevel1(p.ctx(nil), req) }); pn != nil {
							r.Violation("intra-level1:panic", desc())
						}
						unauth := ""
						switch {
						case !configured(p, uint16(proto)):
							unauth = "requester-not-configured-for-the-protocol"
						case pr.src != c40Local && pr.dst != c40Local:
							unauth = "local-as-is-no-endpoint"
						}
						s.judge(rpcIntra, desc, p, resp, err, eng, unauth,
							c40Call{method: "GetLevel1Key", proto: drkey.Protocol(uint16(proto)), val: valTimeOf(v), src: pr.src, dst: pr.dst})
						n++
						if err == nil {
							nt++
						}
					}
				}
			}
		}
		evals.Add(n)
		nontriv.Add(nt)
	})

	r.CaseBulk(evals.Load(), nontriv.Load())
	for i, name := range c40RPC {
		if g := s.granted[i].Load(); g > 0 {
			r.Outcome(name + ":key-handed-out")
		}
		if d := s.denied[i].Load(); d > 0 {
			r.Outcome(name + ":refused")
		}
		r.Extra[name+"_granted"] = s.granted[i].Load()
		r.Extra[name+"_refused"] = s.denied[i].Load()
	}
	r.Extra["host_host_granted_by_side"] = map[string]int64{"src_side_only": s.grantedHH[0].Load(), "dst_side_only": s.grantedHH[1].Load(),
		"both": s.grantedHH[2].Load()}
	r.Extra["grants_to_tcp_peer_without_ip_not_judged"] = s.nilIPGrant.Load()
	r.Extra["keys_handed_out_by_requester_kind_and_rpc"] = s.grantsByKind
	r.Extra["requester_kinds"] = func() (o []string) {
		for _, p := range peers {
			o = append(o, p.name)
		}
		return
	}()
	r.Extra["host_strings"] = c40HostStrs
	r.Extra["protocol_ids"] = c40Protos
	r.Extra["allow_list_entries"] = fmt.Sprintf("%v", entries)
	r.Sample(map[string]any{"rpc": "DRKeyHostHost", "local_ia": c40Local.String(), "src_ia": c40IAs[1].String(), "dst_ia": c40Local.String(),
		"src_host": "10.0.0.2", "dst_host": "::ffff:10.0.0.1", "requester": "tcp4 10.0.0.1", "protocol_id": 1, "expected": "may be granted (dst side)"})
	r.Sample(map[string]any{"rpc": "DRKeyASHost", "dst_ia": c40IAs[2].String() + " (same AS number, other ISD)", "dst_host": "10.0.0.1",
		"requester": "tcp4 10.0.0.1", "expected": "must be refused"})
	r.Assumptions = []string{
		"the requester is (ISD-AS, host address): a peer address without ISD-AS (TCP/UDP/IP address) is taken to be in the " +
			"local AS (intra-AS IP network), a SCION peer address is in the AS it names; level 0/2/3 and intra-AS level-1 keys " +
			"may only go to requesters in the local AS, whatever host address they have",
		"a host string names the requester iff it parses as an IP address equal to the requester's, where IPv4-mapped IPv6 " +
			"spelling and a zone suffix do not change the host; only 'key handed out => authorised' is judged (refusing an " +
			"authorised request is counted as outcome, not as violation)",
		"an allow-list entry configures a host for a protocol iff protocol ids are equal and the addresses are equal modulo " +
			"IPv4-mapped form and zone",
		"protocol ids outside 16 bit are judged by their value as seen by the key engine (low 16 bits); id 65536 therefore " +
			"counts as generic",
		"the key engine is a recording stand-in that, like the real engine, cannot derive for strings that are no SCION host " +
			"address; in the main products certificate verification is a stand-in (AS = common name of the leaf) and C40 judges " +
			"what the handlers do with its verdict; in addition DRKeyLevel1 runs behind the real private/trust.TLSCryptoVerifier " +
			"(TRC store: one base TRC for ISD 1 and 2, none for ISD 3) with real CP-PKI chains (Extra.real_verifier_*): a chain " +
			"authenticates the AS in the subject of its AS certificate iff it is {AS, CA}, correctly signed, currently valid, has " +
			"client-auth usage and its CA chains to a root in the TRC of the subject's ISD",
		"a *net.TCPAddr without IP (cannot occur on an accepted connection) is exercised but grants to it are only counted " +
			"(Extra.grants_to_tcp_peer_without_ip_not_judged)",
	}
	r.Finish(12)
}

type otherAuth struct{}

func (otherAuth) AuthType() string { return "other" }

func sameChain(a, b []*x509.Certificate) bool {
	if len(a) != len(b) {
		return false
	}
	for i := range a {
		if a[i] != b[i] {
			return false
		}
	}
	return true
}

func inStrs(l []string, s string) bool {
	for _, x := range l {
		if x == s {
			return true
		}
	}
	return false
}

func allowStr[E any](entries []E, mask int) string {
	var o []string
	for i, e := range entries {
		if mask&(1<<i) != 0 {
			o = append(o, fmt.Sprintf("%v", e))
		}
	}
	return strings.Join(o, " ")
}
