package drkey

import (
	"context"
	"crypto/tls"
	"crypto/x509"
	"crypto/x509/pkix"
	"errors"
	"fmt"
	"net"
	"sort"
	"sync"
	"sync/atomic"
	"testing"
	"time"

	"google.golang.org/grpc/credentials"
	"google.golang.org/grpc/peer"
	"google.golang.org/protobuf/proto"
	"google.golang.org/protobuf/types/known/timestamppb"

	"github.com/scionproto/scion/control/config"
	csdrkey "github.com/scionproto/scion/control/drkey"
	dkgrpc "github.com/scionproto/scion/control/drkey/grpc"
	"github.com/scionproto/scion/pkg/addr"
	"github.com/scionproto/scion/pkg/drkey"
	"github.com/scionproto/scion/pkg/drkey/generic"
	"github.com/scionproto/scion/pkg/drkey/specific"
	cppb "github.com/scionproto/scion/pkg/proto/control_plane"
	dkpb "github.com/scionproto/scion/pkg/proto/drkey"
	"github.com/scionproto/scion/pkg/spao"
	"github.com/scionproto/scion/private/drkey/drkeyutil"
	"github.com/scionproto/scion/private/storage/db"
	level1sql "github.com/scionproto/scion/private/storage/drkey/level1/sqlite"
	secretsql "github.com/scionproto/scion/private/storage/drkey/secret/sqlite"

	"verif/mc"
)

// ---------------------------------------------------------------------------------------------
// A small DRKey "internet": one real control-service DRKey stack per AS (real gRPC handlers of
// control/drkey/grpc.Server, real ServiceEngine, real secret value backend, real sqlite level-1 / secret
// stores, real ARC prefetch list). Inter-AS level-1 fetches are delivered in process: request and response
// are protobuf-marshalled, the remote handler sees a TLS peer whose certificate names the requesting AS.
// ---------------------------------------------------------------------------------------------

type c39Node struct {
	idx     int
	ia      addr.IA
	secret  []byte
	dur     time.Duration
	eng     *csdrkey.ServiceEngine
	srv     *dkgrpc.Server
	closers []func() error
	fetches atomic.Int64 // level-1 requests answered for other control services
}

type c39World struct {
	nodes []*c39Node
	byIA  map[addr.IA]*c39Node
}

// the infrastructure host (router / trusted node) configured for secret values and intra-AS level-1 keys
var c39InfraIP = net.IPv4(10, 9, 9, 9).To4()

type cnVerifier struct{}

func (cnVerifier) VerifyParsedClientCertificate(chain []*x509.Certificate) (addr.IA, error) {
	if len(chain) == 0 {
		return 0, errors.New("empty chain")
	}
	return addr.ParseIA(chain[0].Subject.CommonName)
}

type inprocFetcher struct {
	w     *c39World
	local *c39Node
}

func wireCopy[M proto.Message](m M, into M) (M, error) {
	b, err := proto.Marshal(m)
	if err != nil {
		return into, err
	}
	return into, proto.Unmarshal(b, into)
}

func (f *inprocFetcher) Level1(ctx context.Context, meta drkey.Level1Meta) (drkey.Level1Key, error) {
	remote := f.w.byIA[meta.SrcIA]
	if remote == nil {
		return drkey.Level1Key{}, fmt.Errorf("no control service for %s", meta.SrcIA)
	}
	req, err := wireCopy(dkgrpc.Level1MetaToProtoRequest(meta), &cppb.DRKeyLevel1Request{})
	if err != nil {
		return drkey.Level1Key{}, err
	}
	pctx := peer.NewContext(context.Background(), &peer.Peer{
		Addr: &net.TCPAddr{IP: net.IPv4(192, 0, 2, byte(1+f.local.idx)), Port: 30252},
		AuthInfo: credentials.TLSInfo{State: tls.ConnectionState{PeerCertificates: []*x509.Certificate{
			{Subject: pkix.Name{CommonName: f.local.ia.String()}}}}},
	})
	rep, err := remote.srv.DRKeyLevel1(pctx, req)
	if err != nil {
		return drkey.Level1Key{}, err
	}
	remote.fetches.Add(1)
	rep, err = wireCopy(rep, &cppb.DRKeyLevel1Response{})
	if err != nil {
		return drkey.Level1Key{}, err
	}
	return dkgrpc.GetLevel1KeyFromReply(meta, rep)
}

var c39DBSeq atomic.Int64

type c39ASConf struct {
	ia     string
	secret []byte
	dur    time.Duration
}

func newC39World(confs []c39ASConf) (*c39World, error) {
	w := &c39World{byIA: map[addr.IA]*c39Node{}}
	for i, c := range confs {
		n := &c39Node{idx: i, ia: addr.MustParseIA(c.ia), secret: c.secret, dur: c.dur}
		id := c39DBSeq.Add(1)
		svdb, err := secretsql.NewBackend(fmt.Sprintf("verif_c39_%d_sv", id), &db.SqliteConfig{InMemory: true})
		if err != nil {
			return nil, err
		}
		n.closers = append(n.closers, svdb.Close)
		l1db, err := level1sql.NewBackend(fmt.Sprintf("verif_c39_%d_l1", id), &db.SqliteConfig{InMemory: true})
		if err != nil {
			return nil, err
		}
		n.closers = append(n.closers, l1db.Close)
		arc, err := csdrkey.NewLevel1ARC(8)
		if err != nil {
			return nil, err
		}
		n.eng = &csdrkey.ServiceEngine{
			SecretBackend:  csdrkey.NewSecretValueBackend(svdb, n.secret, n.dur),
			LocalIA:        n.ia,
			DB:             l1db,
			Fetcher:        &inprocFetcher{w: w, local: n},
			PrefetchKeeper: arc,
		}
		infra, _ := netipFromStd(c39InfraIP)
		n.srv = &dkgrpc.Server{
			LocalIA:                   n.ia,
			ClientCertificateVerifier: cnVerifier{},
			Engine:                    n.eng,
			AllowedSVHostProto: map[config.HostProto]struct{}{
				{Host: infra, Proto: drkey.Generic}: {},
				{Host: infra, Proto: drkey.SCMP}:    {},
			},
		}
		w.nodes = append(w.nodes, n)
		w.byIA[n.ia] = n
	}
	return w, nil
}

func (w *c39World) close() {
	for _, n := range w.nodes {
		for _, c := range n.closers {
			c()
		}
	}
}

func tcpPeer(ip net.IP) context.Context {
	return peer.NewContext(context.Background(), &peer.Peer{Addr: &net.TCPAddr{IP: ip, Port: 40000}})
}

type keyResp interface {
	GetEpochBegin() *timestamppb.Timestamp
	GetEpochEnd() *timestamppb.Timestamp
	GetKey() []byte
}

// request kinds
const (
	kSV = iota
	kLvl1Inter
	kLvl1Intra
	kASHost
	kHostAS
	kHostHost
)

var c39KindName = []string{"sv", "lvl1-inter", "lvl1-intra", "as-host", "host-as", "host-host"}

// c39Req is one key request: key K^{proto}_{X[:hA] -> Y[:hB]} for validity instant t, asked at node `at`.
type c39Req struct {
	kind int
	at   int // serving control service
	// peer: index of the host that asks through the gRPC handler (level 2/3); -1: the ServiceEngine is called
	// directly (requests the gRPC validators do not admit: service-address hosts, and the issuer side of AS-host /
	// subject side of host-AS keys, which infrastructure derives locally). Level 0/1: the infrastructure host asks.
	peer   int
	proto  uint16
	t      time.Time
	x, y   int
	ha, hb int // host indices, -1 = none
}

type c39Got struct {
	key        refKey
	begin, end time.Time
}

func (w *c39World) serve(q c39Req, hosts []refHost) (c39Got, error) {
	n := w.nodes[q.at]
	ts := timestamppb.New(q.t)
	xia, yia := w.nodes[q.x].ia, w.nodes[q.y].ia
	var rep keyResp
	var err error
	fromResp := func(rep keyResp, err error) (c39Got, error) {
		if err != nil {
			return c39Got{}, err
		}
		if len(rep.GetKey()) != 16 {
			return c39Got{}, fmt.Errorf("key length %d", len(rep.GetKey()))
		}
		if rep.GetEpochBegin().CheckValid() != nil || rep.GetEpochEnd().CheckValid() != nil {
			return c39Got{}, fmt.Errorf("invalid epoch in response")
		}
		return c39Got{refKey(rep.GetKey()), rep.GetEpochBegin().AsTime(), rep.GetEpochEnd().AsTime()}, nil
	}
	switch q.kind {
	case kSV:
		if q.peer < 0 {
			sv, e := n.eng.GetSecretValue(context.Background(),
				drkey.SecretValueMeta{Validity: q.t, ProtoId: drkey.Protocol(q.proto)})
			if e != nil {
				return c39Got{}, e
			}
			return c39Got{refKey(sv.Key), sv.Epoch.NotBefore, sv.Epoch.NotAfter}, nil
		}
		req, _ := wireCopy(&cppb.DRKeySecretValueRequest{ValTime: ts, ProtocolId: dkpb.Protocol(q.proto)},
			&cppb.DRKeySecretValueRequest{})
		r, e := n.srv.DRKeySecretValue(tcpPeer(c39InfraIP), req)
		if e != nil {
			return c39Got{}, e
		}
		r, e = wireCopy(r, &cppb.DRKeySecretValueResponse{})
		return fromResp(r, e)
	case kLvl1Inter:
		// CS of Y asks CS of X (== at) through the fetch path
		k, e := (&inprocFetcher{w: w, local: w.nodes[q.y]}).Level1(context.Background(),
			drkey.Level1Meta{Validity: q.t, ProtoId: drkey.Protocol(q.proto), SrcIA: xia, DstIA: yia})
		if e != nil {
			return c39Got{}, e
		}
		return c39Got{refKey(k.Key), k.Epoch.NotBefore, k.Epoch.NotAfter}, nil
	case kLvl1Intra:
		if q.peer < 0 {
			k, e := n.eng.DeriveLevel1(context.Background(),
				drkey.Level1Meta{Validity: q.t, ProtoId: drkey.Protocol(q.proto), SrcIA: xia, DstIA: yia})
			if e != nil {
				return c39Got{}, e
			}
			return c39Got{refKey(k.Key), k.Epoch.NotBefore, k.Epoch.NotAfter}, nil
		}
		req, _ := wireCopy(&cppb.DRKeyIntraLevel1Request{ValTime: ts, ProtocolId: dkpb.Protocol(q.proto),
			SrcIa: uint64(xia), DstIa: uint64(yia)}, &cppb.DRKeyIntraLevel1Request{})
		r, e := n.srv.DRKeyIntraLevel1(tcpPeer(c39InfraIP), req)
		if e != nil {
			return c39Got{}, e
		}
		r, e = wireCopy(r, &cppb.DRKeyIntraLevel1Response{})
		return fromResp(r, e)
	case kASHost:
		hb := hosts[q.hb]
		if q.peer < 0 {
			k, e := n.eng.DeriveASHost(context.Background(), drkey.ASHostMeta{ProtoId: drkey.Protocol(q.proto),
				Validity: q.t, SrcIA: xia, DstIA: yia, DstHost: hb.Str})
			if e != nil {
				return c39Got{}, e
			}
			return c39Got{refKey(k.Key), k.Epoch.NotBefore, k.Epoch.NotAfter}, nil
		}
		req, _ := wireCopy(&cppb.DRKeyASHostRequest{ValTime: ts, ProtocolId: dkpb.Protocol(q.proto),
			SrcIa: uint64(xia), DstIa: uint64(yia), DstHost: hb.Str}, &cppb.DRKeyASHostRequest{})
		rep, err = n.srv.DRKeyASHost(tcpPeer(net.IP(hosts[q.peer].Raw)), req)
		if err != nil {
			return c39Got{}, err
		}
		rep, err = wireCopy(rep.(*cppb.DRKeyASHostResponse), &cppb.DRKeyASHostResponse{})
		return fromResp(rep, err)
	case kHostAS:
		ha := hosts[q.ha]
		if q.peer < 0 {
			k, e := n.eng.DeriveHostAS(context.Background(), drkey.HostASMeta{ProtoId: drkey.Protocol(q.proto),
				Validity: q.t, SrcIA: xia, DstIA: yia, SrcHost: ha.Str})
			if e != nil {
				return c39Got{}, e
			}
			return c39Got{refKey(k.Key), k.Epoch.NotBefore, k.Epoch.NotAfter}, nil
		}
		req, _ := wireCopy(&cppb.DRKeyHostASRequest{ValTime: ts, ProtocolId: dkpb.Protocol(q.proto),
			SrcIa: uint64(xia), DstIa: uint64(yia), SrcHost: ha.Str}, &cppb.DRKeyHostASRequest{})
		rep, err = n.srv.DRKeyHostAS(tcpPeer(net.IP(hosts[q.peer].Raw)), req)
		if err != nil {
			return c39Got{}, err
		}
		rep, err = wireCopy(rep.(*cppb.DRKeyHostASResponse), &cppb.DRKeyHostASResponse{})
		return fromResp(rep, err)
	case kHostHost:
		ha, hb := hosts[q.ha], hosts[q.hb]
		if q.peer < 0 {
			k, e := n.eng.DeriveHostHost(context.Background(), drkey.HostHostMeta{ProtoId: drkey.Protocol(q.proto),
				Validity: q.t, SrcIA: xia, DstIA: yia, SrcHost: ha.Str, DstHost: hb.Str})
			if e != nil {
				return c39Got{}, e
			}
			return c39Got{refKey(k.Key), k.Epoch.NotBefore, k.Epoch.NotAfter}, nil
		}
		req, _ := wireCopy(&cppb.DRKeyHostHostRequest{ValTime: ts, ProtocolId: dkpb.Protocol(q.proto),
			SrcIa: uint64(xia), DstIa: uint64(yia), SrcHost: ha.Str, DstHost: hb.Str}, &cppb.DRKeyHostHostRequest{})
		rep, err = n.srv.DRKeyHostHost(tcpPeer(net.IP(hosts[q.peer].Raw)), req)
		if err != nil {
			return c39Got{}, err
		}
		rep, err = wireCopy(rep.(*cppb.DRKeyHostHostResponse), &cppb.DRKeyHostHostResponse{})
		return fromResp(rep, err)
	}
	return c39Got{}, fmt.Errorf("unknown kind")
}

// c39Params is the alphabet of one tier.
type c39Params struct {
	worlds [][]c39ASConf
	protos []uint16 // level 2/3 protocols; level 0/1 is asked for the predefined ones
	// svProtos: niche protocol identifiers whose own secret value / level-1 key (SV^p, K^p_{A->B}) is asked from the
	// ServiceEngine directly (the gRPC handlers only admit configured, i.e. named, protocols at level 0/1). The set
	// exercises both bytes of the 16 bit identifier: ids congruent mod 256 to the predefined ones and to each other,
	// ids with the same bytes swapped, the extreme values of each byte.
	svProtos []uint16
	hosts  []refHost
	times  []time.Time
}

const c39T0 = int64(1_700_002_800) // multiple of 3600 (hence of 360 and 600)

// noPeer: a spelling the gRPC validators cannot match with a peer address (zoned IPv6); asked from the engine directly
func noPeer(h refHost) refHost { h.IP = false; return h }

func c39Alphabet() c39Params {
	var p c39Params
	sec := func(n int, seed byte) []byte {
		b := make([]byte, n)
		for i := range b {
			b[i] = seed + byte(i*29)
		}
		return b
	}
	iaA, iaB, iaC := "1-ff00:0:110", "1-ff00:0:111", "2-ff00:0:110" // C: same AS number as A, other ISD
	p.worlds = [][]c39ASConf{
		{{iaA, sec(16, 0x30), 360 * time.Second}, {iaB, sec(32, 0x51), 600 * time.Second}, {iaC, sec(7, 0x77), 360 * time.Second}},
		{{iaA, []byte{0}, 600 * time.Second}, {iaB, append(sec(15, 0x30), sec(16, 0x30)[15]^1), 360 * time.Second}, {iaC, sec(17, 0x30), 3600 * time.Second}},
	}
	p.protos = []uint16{1, 2, 0x100, 0xffff}
	p.svProtos = []uint16{2, 0x00ff, 0x0100, 0x0101, 0x0102, 0x0201, 0x0200, 0x8000, 0xff00, 0xffff, 10000}
	v6a := [16]byte{0x20, 0x01, 0x0d, 0xb8, 15: 1}
	v6b := [16]byte{0x20, 0x01, 0x0d, 0xb8, 15: 2}
	p.hosts = []refHost{
		v4("10.0.0.1", 10, 0, 0, 1),
		v4("10.0.0.2", 10, 0, 0, 2),
		v4("0.2.0.0", 0, 2, 0, 0), // same 4 address bytes as the service address CS: only the DT/DL nibble differs
		v6("2001:db8::1", v6a),
		v6("2001:db8::2", v6b),
		svc("CS", 0x0002),
		svc("DS_M", 0x8001),
		v4("::ffff:10.0.0.1", 10, 0, 0, 1),         // alias spelling (IPv4-mapped) of host 0
		v6("2001:DB8:0:0:0:0:0:2", v6b),            // alias spelling of host 4
	}
	offs := []time.Duration{-time.Nanosecond, 0, time.Second, 359 * time.Second, 360*time.Second - time.Nanosecond,
		360 * time.Second, 599 * time.Second, 600 * time.Second, 719 * time.Second, 720 * time.Second,
		1079 * time.Second, 1080 * time.Second, 1200 * time.Second}
	if mc.Thorough() {
		p.worlds = append(p.worlds, []c39ASConf{
			{"65535-ffff:ffff:ffff", sec(64, 0x01), 360 * time.Second}, {"1-0:0:1", sec(16, 0x30), 360 * time.Second},
			{iaC, sec(33, 0x30), 420 * time.Second}})
		p.protos = append(p.protos, 3, 0x0300, 0x8000, 0x0101)
		p.svProtos = append(p.svProtos, 3, 0x0080, 0x00fe, 0x0300, 0x0301, 0x7fff, 0x8001, 0x80ff, 0xfffe, 10000+256, 10000+512)
		v6c := [16]byte{0x0a, 0, 0, 1} // a00:1:: -- starts with the bytes of 10.0.0.1
		p.hosts = append(p.hosts,
			v4("255.255.255.255", 255, 255, 255, 255), v6("::", [16]byte{}), v6("a00:1::", v6c), svc("Wildcard_A", 0x0010),
			noPeer(v6("fe80::1%eth0", [16]byte{0xfe, 0x80, 15: 1})), v6("fe80::1", [16]byte{0xfe, 0x80, 15: 1}))
		offs = append(offs, 419*time.Second, 420*time.Second, 3599*time.Second, 3600*time.Second, 7199*time.Second)
	}
	for _, o := range offs {
		p.times = append(p.times, time.Unix(c39T0, 0).Add(o))
	}
	return p
}

type c39Checker struct {
	r     *mc.Run
	mu    sync.Mutex
	byKey map[refKey]string // served key -> descriptor (domain separation)
	byDes map[string]refKey // descriptor -> served key
	epoch map[string]map[[2]int64]bool
	svRef map[string]refKey
	herr  atomic.Int64
}

func (c *c39Checker) refSVCached(secret []byte, proto uint16, b, e uint32) refKey {
	k := fmt.Sprintf("%x|%d|%d|%d", secret, proto, b, e)
	c.mu.Lock()
	v, ok := c.svRef[k]
	c.mu.Unlock()
	if ok {
		return v
	}
	v = refSV(secret, proto, b, e)
	c.mu.Lock()
	c.svRef[k] = v
	c.mu.Unlock()
	return v
}

func hier(proto uint16) string {
	if refPredefined(proto) {
		return "specific"
	}
	return "generic"
}

// descriptor of the key a request denotes: alias spellings of a host and the two serving sides coincide; the issuer
// is identified by its master secret (a key does not depend on the issuer's ISD-AS), the subject AS by its ISD-AS.
func c39Desc(w *c39World, q c39Req, hosts []refHost, b, e time.Time) string {
	l0 := q.proto
	if !refPredefined(l0) && q.kind >= kASHost { // level 2/3 keys of niche protocols hang below the generic level 0/1
		l0 = 0
	}
	ep := fmt.Sprintf("e%d-%d|issuer-secret=%x", b.Unix(), e.Unix(), w.nodes[q.x].secret)
	y := w.nodes[q.y].ia
	switch q.kind {
	case kSV:
		return fmt.Sprintf("sv|%s|p%d", ep, l0)
	case kLvl1Inter, kLvl1Intra:
		return fmt.Sprintf("lvl1|%s|dst=%s|p%d", ep, y, l0)
	case kASHost:
		return fmt.Sprintf("as-host|%s|dst=%s|p%d|B=%s", ep, y, q.proto, hosts[q.hb].ID)
	case kHostAS:
		return fmt.Sprintf("host-as|%s|dst=%s|p%d|A=%s", ep, y, q.proto, hosts[q.ha].ID)
	default:
		return fmt.Sprintf("host-host|%s|dst=%s|p%d|A=%s|B=%s", ep, y, q.proto, hosts[q.ha].ID, hosts[q.hb].ID)
	}
}

func (c *c39Checker) check(wi int, w *c39World, q c39Req, hosts []refHost, pass string) {
	r := c.r
	side := "issuer-side"
	if q.at != q.x {
		side = "subject-side"
	}
	class := fmt.Sprintf("%s:%s:%s", c39KindName[q.kind], hier(q.proto), side)
	var got c39Got
	var err error
	if p := mc.Safely(func() { got, err = w.serve(q, hosts) }); p != nil {
		r.Violation("panic:"+class, fmt.Sprintf("%s: %v", w.reqStr(q, hosts), p))
		return
	}
	key := fmt.Sprintf("w%d|%+v", wi, q)
	if err != nil {
		if c.herr.Add(1) <= 5 {
			r.HarnessError("request meant to be valid was not served (%s, %s): %v", class, w.reqStr(q, hosts), err)
		}
		return
	}
	r.Case(key, true)
	X := w.nodes[q.x]
	// epoch: contains the validity instant (half open), has the issuer's configured length, whole seconds
	if got.begin.Nanosecond() != 0 || got.end.Nanosecond() != 0 || q.t.Before(got.begin) || !q.t.Before(got.end) ||
		got.end.Sub(got.begin) != X.dur {
		r.Violation("epoch:"+class, map[string]any{"request": w.reqStr(q, hosts), "val_time": q.t.UTC().String(),
			"epoch_begin": got.begin.UTC().String(), "epoch_end": got.end.UTC().String(), "issuer_epoch_len": X.dur.String()})
		return
	}
	b, e := uint32(got.begin.Unix()), uint32(got.end.Unix())
	l0 := q.proto
	if !refPredefined(l0) && q.kind >= kASHost { // level 2/3 keys of niche protocols hang below the generic level 0/1
		l0 = 0
	}
	sv := c.refSVCached(X.secret, l0, b, e)
	want := sv
	if q.kind != kSV {
		want = refPRF(sv, refLvl1Input(uint64(w.nodes[q.y].ia)))
		generic := !refPredefined(q.proto)
		switch q.kind {
		case kASHost:
			want = refPRF(want, refLvl2Input(tyASHost, generic, q.proto, hosts[q.hb]))
		case kHostAS:
			want = refPRF(want, refLvl2Input(tyHostAS, generic, q.proto, hosts[q.ha]))
		case kHostHost:
			want = refPRF(want, refLvl2Input(tyHostAS, generic, q.proto, hosts[q.ha]))
			want = refPRF(want, refLvl3Input(hosts[q.hb]))
		}
	}
	if got.key != want {
		r.Violation("key-mismatch:"+class, map[string]any{"request": w.reqStr(q, hosts), "pass": pass,
			"src_ia": X.ia.String(), "dst_ia": w.nodes[q.y].ia.String(), "hosts": hostStr(q, hosts),
			"served": fmt.Sprintf("%x", got.key), "documented_derivation": fmt.Sprintf("%x", want)})
		// keep going: the served key still takes part in the domain-separation comparison
	} else {
		r.Outcome("served==documented:" + c39KindName[q.kind] + ":" + hier(q.proto))
	}
	des := c39Desc(w, q, hosts, got.begin, got.end)
	c.mu.Lock()
	if prev, ok := c.byKey[got.key]; ok && prev != des {
		c.mu.Unlock()
		r.Violation("domain-separation:"+kindOf(prev)+"-vs-"+kindOf(des), map[string]any{"key": fmt.Sprintf("%x", got.key),
			"a": prev, "b": des})
		return
	}
	c.byKey[got.key] = des
	c.byDes[des] = got.key
	ek := fmt.Sprintf("w%d|X%d|p%d", wi, q.x, l0)
	if c.epoch[ek] == nil {
		c.epoch[ek] = map[[2]int64]bool{}
	}
	c.epoch[ek][[2]int64{got.begin.Unix(), got.end.Unix()}] = true
	c.mu.Unlock()
}

func (w *c39World) reqStr(q c39Req, hosts []refHost) string {
	via := "grpc handler"
	if q.peer < 0 {
		via = "ServiceEngine"
	} else if q.kind >= kASHost {
		via += ", requester " + hosts[q.peer].Str
	}
	return fmt.Sprintf("%s key, protocol %d, val_time %s, src %s, dst %s, %s; asked at CS of %s via %s", c39KindName[q.kind],
		q.proto, q.t.UTC().Format(time.RFC3339Nano), w.nodes[q.x].ia, w.nodes[q.y].ia, hostStr(q, hosts), w.nodes[q.at].ia, via)
}

func kindOf(des string) string {
	for i, ch := range des {
		if ch == '|' {
			return des[:i]
		}
	}
	return des
}

func hostStr(q c39Req, hosts []refHost) string {
	s := ""
	if q.ha >= 0 {
		s += "src_host=" + hosts[q.ha].Str + " "
	}
	if q.hb >= 0 {
		s += "dst_host=" + hosts[q.hb].Str
	}
	return s
}

// requests of one world in canonical order
func c39Requests(w *c39World, p c39Params) []c39Packed {
	var out []c39Packed
	nn := len(w.nodes)
	for ti, t := range p.times {
		_ = t
		for x := 0; x < nn; x++ {
			for _, l0 := range []uint16{0, 1} {
				out = append(out, pack(c39Req{kind: kSV, at: x, proto: l0, t: t, x: x, y: x, ha: -1, hb: -1}, ti))
			}
			for _, l0 := range p.svProtos {
				out = append(out, pack(c39Req{kind: kSV, at: x, peer: -1, proto: l0, t: t, x: x, y: x, ha: -1, hb: -1}, ti))
				for y := 0; y < nn; y++ {
					out = append(out, pack(c39Req{kind: kLvl1Intra, at: x, peer: -1, proto: l0, t: t, x: x, y: y, ha: -1, hb: -1}, ti))
				}
			}
			for y := 0; y < nn; y++ {
				for _, l0 := range []uint16{0, 1} {
					out = append(out, pack(c39Req{kind: kLvl1Inter, at: x, proto: l0, t: t, x: x, y: y, ha: -1, hb: -1}, ti))
					out = append(out, pack(c39Req{kind: kLvl1Intra, at: x, proto: l0, t: t, x: x, y: y, ha: -1, hb: -1}, ti))
					if x != y {
						out = append(out, pack(c39Req{kind: kLvl1Intra, at: y, proto: l0, t: t, x: x, y: y, ha: -1, hb: -1}, ti))
					}
				}
				for _, pr := range p.protos {
					for h := range p.hosts {
						peerOf := func(i int) int { // the host itself asks if it can be a gRPC peer (IP host)
							if p.hosts[i].IP {
								return i
							}
							return -1
						}
						// AS-host K_{X,Y:h}: handed to h by the CS of Y; derived on the issuer side by X's engine
						out = append(out, pack(c39Req{kind: kASHost, at: y, peer: peerOf(h), proto: pr, t: t, x: x, y: y, ha: -1, hb: h}, ti))
						if x != y {
							out = append(out, pack(c39Req{kind: kASHost, at: x, peer: -1, proto: pr, t: t, x: x, y: y, ha: -1, hb: h}, ti))
						}
						// host-AS K_{X:h,Y}: handed to h by the CS of X; subject side derivation by Y's engine
						out = append(out, pack(c39Req{kind: kHostAS, at: x, peer: peerOf(h), proto: pr, t: t, x: x, y: y, ha: h, hb: -1}, ti))
						if x != y {
							out = append(out, pack(c39Req{kind: kHostAS, at: y, peer: -1, proto: pr, t: t, x: x, y: y, ha: h, hb: -1}, ti))
						}
						for h2 := range p.hosts {
							// host-host K_{X:h,Y:h2}: handed to h by the CS of X and to h2 by the CS of Y
							out = append(out, pack(c39Req{kind: kHostHost, at: x, peer: peerOf(h), proto: pr, t: t, x: x, y: y, ha: h, hb: h2}, ti))
							if x != y || peerOf(h2) >= 0 {
								out = append(out, pack(c39Req{kind: kHostHost, at: y, peer: peerOf(h2), proto: pr, t: t, x: x, y: y, ha: h, hb: h2}, ti))
							}
						}
					}
				}
			}
		}
	}
	return out
}

// c39Packed is the stored form of a request (validity instant by index) -- millions are kept per world.
type c39Packed struct {
	kind, at, peer, x, y, ha, hb int8
	proto                        uint16
	ti                           int16
}

func pack(q c39Req, ti int) c39Packed {
	return c39Packed{int8(q.kind), int8(q.at), int8(q.peer), int8(q.x), int8(q.y), int8(q.ha), int8(q.hb), q.proto, int16(ti)}
}

func (c c39Packed) unpack(times []time.Time) c39Req {
	return c39Req{kind: int(c.kind), at: int(c.at), peer: int(c.peer), x: int(c.x), y: int(c.y), ha: int(c.ha), hb: int(c.hb),
		proto: c.proto, t: times[c.ti]}
}

// hostSide re-derives every level 1/2/3 key the way an end host / router does: with the real specific.Deriver /
// generic.Deriver, starting (a) from the secret value the control service of X serves and (b) from the level-1
// key the control service of Y serves, and compares with the key the control services served for the same request.
func (c *c39Checker) hostSide(wi int, w *c39World, p c39Params) {
	r := c.r
	nn := len(w.nodes)
	look := func(q c39Req, b, e time.Time) (refKey, bool) {
		c.mu.Lock()
		defer c.mu.Unlock()
		k, ok := c.byDes[c39Desc(w, q, p.hosts, b, e)]
		return k, ok
	}
	type l2 interface {
		DeriveASHost(string, drkey.Key) (drkey.Key, error)
		DeriveHostAS(string, drkey.Key) (drkey.Key, error)
		DeriveHostHost(string, drkey.Key) (drkey.Key, error)
	}
	cmp := func(from, kind string, proto uint16, q c39Req, b, e time.Time, got drkey.Key, err error) {
		class := fmt.Sprintf("hostside-mismatch:%s:%s:%s", from, kind, hier(proto))
		served, ok := look(q, b, e)
		if !ok {
			if r.Violations() == 0 && c.herr.Add(1) <= 5 {
				r.HarnessError("no served key recorded for %s %+v", class, q)
			}
			return
		}
		r.Case(fmt.Sprintf("hs|w%d|%s|%+v", wi, from, q), true)
		if err != nil || refKey(got) != served {
			r.Violation(class, map[string]any{"request": w.reqStr(q, p.hosts), "hosts": hostStr(q, p.hosts),
				"host_derived": fmt.Sprintf("%x", got[:]), "err": fmt.Sprint(err), "served": fmt.Sprintf("%x", served)})
			return
		}
		r.Outcome("host-derived==served:" + from)
	}
	for _, t := range p.times {
		for x := 0; x < nn; x++ {
			for y := 0; y < nn; y++ {
				for _, pr := range p.protos {
					l0 := pr
					var der l2 = specific.Deriver{}
					if !refPredefined(pr) {
						l0 = 0
						der = generic.Deriver{Proto: drkey.Protocol(pr)}
					}
					svGot, err := w.serve(c39Req{kind: kSV, at: x, proto: l0, t: t, x: x, y: x}, p.hosts)
					if err != nil {
						r.HarnessError("secret value not served: %v", err)
						return
					}
					b, e := svGot.begin, svGot.end
					l1FromSV, err1 := specific.Deriver{}.DeriveLevel1(w.nodes[y].ia, drkey.Key(svGot.key))
					cmp("from-sv", "lvl1", pr, c39Req{kind: kLvl1Intra, x: x, y: y, proto: l0, ha: -1, hb: -1}, b, e, l1FromSV, err1)
					l1Got, err := w.serve(c39Req{kind: kLvl1Intra, at: y, proto: l0, t: t, x: x, y: y}, p.hosts)
					if err != nil {
						r.HarnessError("level-1 key not served: %v", err)
						return
					}
					for _, src := range []struct {
						from string
						l1   drkey.Key
					}{{"from-sv", l1FromSV}, {"from-lvl1", drkey.Key(l1Got.key)}} {
						for h := range p.hosts {
							k, err := der.DeriveASHost(p.hosts[h].Str, src.l1)
							cmp(src.from, "as-host", pr, c39Req{kind: kASHost, x: x, y: y, proto: pr, ha: -1, hb: h}, b, e, k, err)
							ha, err := der.DeriveHostAS(p.hosts[h].Str, src.l1)
							cmp(src.from, "host-as", pr, c39Req{kind: kHostAS, x: x, y: y, proto: pr, ha: h, hb: -1}, b, e, ha, err)
							for h2 := range p.hosts {
								k, err := der.DeriveHostHost(p.hosts[h2].Str, ha)
								cmp(src.from, "host-host", pr, c39Req{kind: kHostHost, x: x, y: y, proto: pr, ha: h, hb: h2}, b, e, k, err)
							}
						}
					}
				}
			}
		}
	}
}

func TestC39(t *testing.T) {
	r := mc.NewRun(t, "C39", mc.Exploration)
	r.Rule = "part 1: every request (key type x serving side x protocol x validity instant x ordered AS pair x src/dst host) of " +
		"the stated alphabet (plus the secret values and level-1 keys of niche protocol ids, asked from the ServiceEngine) against a network of real control-service DRKey stacks, each world evaluated in canonical order, " +
		"again in reverse order on the warm stores, and in reverse order on fresh stores; every served key is compared with a " +
		"clean-room derivation from the issuer's master secret, every key is re-derived host-side from the served secret value " +
		"and the served level-1 key with the real derivers, and all served keys of different descriptors must be pairwise " +
		"distinct. part 2: FakeProvider.GetKeyWithinAcceptanceWindow on a grid of receive instants x claimed send instants " +
		"(+-1ns around every window/epoch/grace boundary) x sender epoch. A case is distinct by its full request tuple; " +
		"non-trivial = a key was served / selected"
	p := c39Alphabet()
	c := &c39Checker{r: r, byKey: map[refKey]string{}, byDes: map[string]refKey{}, epoch: map[string]map[[2]int64]bool{},
		svRef: map[string]refKey{}}

	type job struct {
		wi    int
		order string
	}
	var jobs []job
	for wi := range p.worlds {
		jobs = append(jobs, job{wi, "forward+reverse-warm"}, job{wi, "reverse-fresh"})
	}
	var fetches atomic.Int64
	var capped atomic.Bool
	mc.ParallelFor(len(jobs), func(j int) {
		jb := jobs[j]
		w, err := newC39World(p.worlds[jb.wi])
		if err != nil {
			r.HarnessError("world: %v", err)
			return
		}
		defer w.close()
		reqs := c39Requests(w, p)
		run := func(rev bool, pass string) {
			for i := range reqs {
				q := reqs[i].unpack(p.times)
				if rev {
					q = reqs[len(reqs)-1-i].unpack(p.times)
				}
				if i%512 == 0 && r.OutOfBudget() {
					capped.Store(true)
					return
				}
				c.check(jb.wi, w, q, p.hosts, pass)
			}
		}
		if jb.order == "reverse-fresh" {
			run(true, "reverse order, fresh stores")
		} else {
			run(false, "canonical order, fresh stores")
			run(true, "reverse order, warm stores")
			if !capped.Load() {
				c.hostSide(jb.wi, w, p)
			}
		}
		for _, n := range w.nodes {
			fetches.Add(n.fetches.Load())
		}
		if j == 0 {
			q := reqs[len(reqs)/2].unpack(p.times)
			r.Sample(map[string]any{"world": jb.wi, "requests_per_pass": len(reqs), "example_request": map[string]any{
				"key_type": c39KindName[q.kind], "served_by": w.nodes[q.at].ia.String(), "protocol": q.proto,
				"val_time": q.t.UTC().Format(time.RFC3339Nano), "src_ia": w.nodes[q.x].ia.String(),
				"dst_ia": w.nodes[q.y].ia.String(), "hosts": hostStr(q, p.hosts), "via_grpc_handler": q.peer >= 0}})
		}
	})
	if capped.Load() {
		r.Capped("internal budget reached during part 1")
	}
	// epochs of one issuer and level-0 protocol must not overlap
	for ek, set := range c.epoch {
		var es [][2]int64
		for e := range set {
			es = append(es, e)
		}
		sort.Slice(es, func(i, j int) bool { return es[i][0] < es[j][0] })
		for i := 1; i < len(es); i++ {
			if es[i][0] < es[i-1][1] {
				r.Violation("epochs-overlap", map[string]any{"issuer/proto": ek, "a": es[i-1], "b": es[i]})
			}
		}
		r.Extra["epochs_seen_max"] = max(len(es), intOr0(r.Extra["epochs_seen_max"]))
	}
	r.Extra["distinct_served_keys"] = len(c.byKey)
	r.Extra["inter_as_level1_requests_served"] = fetches.Load()
	r.Extra["worlds"] = len(p.worlds)
	r.Extra["protocols_level2_3"] = p.protos
	r.Extra["protocols_level0_1_niche"] = p.svProtos
	r.Extra["hosts"] = func() (s []string) {
		for _, h := range p.hosts {
			s = append(s, h.Str)
		}
		return
	}()
	r.Extra["validity_instants"] = len(p.times)

	// generic protocol at level 2/3 is refused by the service (judged by C40; here only to show that the input
	// collision it would allow -- specific input 01|00|a.b.c.d vs generic input 01|proto(2)|00|.. -- is not servable)
	func() {
		w, err := newC39World(p.worlds[0])
		if err != nil {
			r.HarnessError("world: %v", err)
			return
		}
		defer w.close()
		_, err = w.serve(c39Req{kind: kASHost, at: 0, peer: 0, proto: 0, t: p.times[1], x: 1, y: 0, ha: -1, hb: 0}, p.hosts)
		if err != nil {
			r.Outcome("generic-protocol-level2-refused")
		} else {
			r.Outcome("generic-protocol-level2-served")
		}
	}()

	c39AcceptanceWindow(r)

	r.Assumptions = []string{
		"secret value: the doc fixes the KDF input layout and suggests PBKDF2; salt 'Derive DRKey Key', 1000 iterations, " +
			"HMAC-SHA256 and 16 byte output are taken as the implementation's constants",
		"PRF input is zero padded to the AES block size; host identity is the packed (DT/DL nibble, address bytes) form, " +
			"i.e. IPv4-mapped IPv6 spellings, alternative textual spellings and IPv6 zones name the same host",
		"epoch placement is the issuer's choice: only required to contain the validity instant (half-open), to have the " +
			"issuer's configured length and not to overlap other epochs of the same issuer and protocol",
		"validity instants lie between 1970 and 2106 (32 bit second counters)",
		"service-address hosts cannot be gRPC peers: their level 2/3 keys are requested from the ServiceEngine directly " +
			"or by the IP host on the other side",
		"acceptance window: instants exactly on a boundary of the window or of epoch+grace may be judged either way; " +
			"only soundness of a selected key is demanded (that legitimate senders are accepted is counted, not judged)",
	}
	r.Finish(12)
}

func intOr0(v any) int {
	if i, ok := v.(int); ok {
		return i
	}
	return 0
}

// ---------------------------------------------------------------------------------------------
// part 2: acceptance window
// ---------------------------------------------------------------------------------------------

func c39AcceptanceWindow(r *mc.Run) {
	const ns = time.Nanosecond
	grace := 5 * time.Second // doc: GRACE_PERIOD = 5 seconds
	if drkey.GRACE_PERIOD != grace {
		r.Violation("grace-period-constant", fmt.Sprintf("GRACE_PERIOD=%v, documented 5s", drkey.GRACE_PERIOD))
	}
	type conf struct{ D, aw time.Duration }
	confs := []conf{{360 * time.Second, 60 * time.Second}, {360 * time.Second, 5 * time.Minute},
		{24 * time.Hour, 5 * time.Minute}, {3600 * time.Second, 2 * time.Second}}
	if mc.Thorough() {
		confs = append(confs, conf{360 * time.Second, 0}, conf{360 * time.Second, 10 * time.Second}, conf{72 * time.Hour, 5 * time.Minute},
			conf{3600 * time.Second, 11 * time.Second}, conf{600 * time.Second, 9 * time.Second})
	}
	var legitRejected, legitWrongEpoch, legit int64
	awSamples := 0
	for _, cf := range confs {
		D, aw := cf.D, cf.aw
		prov := &drkeyutil.FakeProvider{EpochDuration: D, AcceptanceWindow: aw}
		k0 := (c39T0 / int64(D/time.Second)) + 1
		epochStart := func(i int64) time.Time { return time.Unix(i*int64(D/time.Second), 0) }
		// receive instants around the boundary between epoch k0-1 and k0, and mid epoch
		var tOffs []time.Duration
		for _, base := range []time.Duration{-aw / 2, -grace, 0, grace, aw / 2, aw/2 + grace, aw} {
			for _, d := range []time.Duration{-ns, 0, ns} {
				tOffs = append(tOffs, base+d)
			}
		}
		tOffs = append(tOffs, -time.Second, time.Second, D/2, D-aw/2-ns, -(D / 2))
		var sOffs []time.Duration // claimed send instant relative to the receive instant
		for _, base := range []time.Duration{-aw / 2, 0, aw / 2} {
			for _, d := range []time.Duration{-ns, 0, ns} {
				sOffs = append(sOffs, base+d)
			}
		}
		sOffs = append(sOffs, -time.Second, time.Second, -aw/2-time.Second, aw/2+time.Second, -aw/4, aw/4)
		var bOffs []time.Duration // claimed send instant relative to an epoch boundary
		for _, base := range []time.Duration{0, grace} {
			for _, d := range []time.Duration{-ns, 0, ns} {
				bOffs = append(bOffs, base+d)
			}
		}
		bOffs = append(bOffs, -time.Second, time.Second, grace-time.Second, grace+time.Second)
		for _, to := range tOffs {
			now := epochStart(k0).Add(to)
			kNow := now.Unix() / int64(D/time.Second) // epoch containing the receive instant
			var claims []time.Time
			for _, so := range sOffs {
				claims = append(claims, now.Add(so))
			}
			for i := int64(-1); i <= 2; i++ {
				for _, bo := range bOffs {
					claims = append(claims, epochStart(kNow+i).Add(bo))
				}
			}
			for _, s := range claims {
				for se := int64(-2); se <= 2; se++ {
					// the sender authenticated with the key of epoch kNow+se and wrote rel = s - begin(epoch)
					E := epochStart(kNow + se)
					rel := s.Sub(E)
					if rel < 0 || rel >= 1<<48 {
						continue
					}
					key := fmt.Sprintf("aw|D%v|aw%v|t%v|s%v|e%d", D, aw, to, s.Sub(now), se)
					// sender-side helpers (pkg/spao): rel/abs round trip
					sndEpoch := drkey.Epoch{NotBefore: E, NotAfter: E.Add(D)}
					if rt, err := spao.RelativeTimestamp(sndEpoch, s); err != nil || rt != uint64(rel) ||
						!spao.AbsoluteTimestamp(sndEpoch, rt).Equal(s) {
						r.Violation("timestamp-roundtrip", map[string]any{"case": key, "rel": rt, "err": fmt.Sprint(err)})
					}
					var k drkey.ASHostKey
					var err error
					if p := mc.Safely(func() {
						k, err = prov.GetKeyWithinAcceptanceWindow(now, uint64(rel), addr.MustParseIA("1-ff00:0:110"),
							addr.MustParseHost("10.0.0.1"))
					}); p != nil {
						r.Violation("aw-panic", map[string]any{"case": key, "panic": p})
						continue
					}
					// was this a legitimate sender? (sent strictly inside the window, with a key strictly valid at s)
					isLegit := s.After(now.Add(-aw/2)) && s.Before(now.Add(aw/2)) && !s.Before(E) && s.Before(E.Add(D).Add(grace))
					if isLegit {
						legit++
					}
					if err != nil {
						r.Case(key, false)
						if isLegit {
							legitRejected++
							r.Outcome("aw-rejected-legitimate-sender")
						} else {
							r.Outcome("aw-rejected")
						}
						continue
					}
					r.Case(key, true)
					if awSamples < 2 && rel > D {
						awSamples++
						r.Sample(map[string]any{"acceptance_window_case": key, "selected_epoch_begin": k.Epoch.NotBefore.UTC().String()})
					}
					Eb, Ee := k.Epoch.NotBefore, k.Epoch.NotAfter
					abs := Eb.Add(time.Duration(rel))
					detail := map[string]any{"epoch_len": D.String(), "acceptance_window": aw.String(), "now": now.UTC().String(),
						"timestamp_ns": int64(rel), "selected_epoch": fmt.Sprintf("[%s, %s)", Eb.UTC(), Ee.UTC()),
						"absolute_time": abs.UTC().String(), "now_offset_from_epoch_start": to.String()}
					// the selected epoch must be one the sender side hands out keys for
					if sk, e2 := prov.GetASHostKey(Eb, 0, addr.Host{}); e2 != nil || !sk.Epoch.NotBefore.Equal(Eb) ||
						!sk.Epoch.NotAfter.Equal(Ee) || Ee.Sub(Eb) != D {
						r.Violation("aw-selected-epoch-not-an-epoch", detail)
						continue
					}
					if abs.Before(now.Add(-aw/2)) || abs.After(now.Add(aw/2)) {
						r.Violation("aw-abs-time-outside-acceptance-window", detail)
						continue
					}
					if abs.Before(Eb) || abs.After(Ee.Add(grace)) {
						r.Violation("aw-abs-time-outside-epoch-plus-grace", detail)
						continue
					}
					which := map[int64]string{-1: "previous", 0: "current", 1: "next"}[Eb.Unix()/int64(D/time.Second)-kNow]
					if which == "" {
						which = "other"
					}
					if isLegit && !Eb.Equal(E) && aw < D {
						legitWrongEpoch++
					}
					inGrace := !abs.Before(Ee)
					if inGrace {
						r.Outcome("aw-selected-" + which + "-epoch-in-grace")
					} else {
						r.Outcome("aw-selected-" + which + "-epoch")
					}
				}
			}
		}
	}
	r.Extra["aw_legitimate_senders"] = legit
	r.Extra["aw_legitimate_senders_rejected"] = legitRejected
	r.Extra["aw_legitimate_senders_other_epoch_selected"] = legitWrongEpoch
	r.Extra["aw_configurations"] = len(confs)
}
