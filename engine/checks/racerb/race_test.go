// Package racerb: free-running pass of the ring-buffer scenarios with real goroutines, compiled with -race and
// WITHOUT the scheduler overlay. It can only add alarms (data races the cooperative scheduler's hand-offs would hide);
// its silence is not counted as coverage.
package racerb

import (
	"sync"
	"testing"

	"github.com/scionproto/scion/private/ringbuf"
)

func TestRingbufRace(t *testing.T) {
	for capacity := 1; capacity <= 4; capacity++ {
		for iter := 0; iter < 200; iter++ {
			r := ringbuf.New(capacity, nil, "race")
			var wg sync.WaitGroup
			for w := 0; w < 3; w++ {
				wg.Add(1)
				go func(w int) {
					defer wg.Done()
					for i := 0; i < 6; i++ {
						el := make(ringbuf.EntryList, 1+(i+w)%(capacity+1))
						for k := range el {
							el[k] = w*1000 + i*10 + k
						}
						r.Write(el, i%2 == 0)
					}
				}(w)
			}
			for rd := 0; rd < 3; rd++ {
				wg.Add(1)
				go func(rd int) {
					defer wg.Done()
					for i := 0; i < 8; i++ {
						el := make(ringbuf.EntryList, 1+(i+rd)%(capacity+1))
						if n, _ := r.Read(el, i%2 == 1); n < 0 {
							return
						}
					}
				}(rd)
			}
			wg.Add(1)
			go func() {
				defer wg.Done()
				for i := 0; i < 40; i++ {
					el := make(ringbuf.EntryList, capacity)
					r.Read(el, false)
				}
				r.Close()
			}()
			wg.Wait()
		}
	}
}
