package net

import (
	"fmt"
	"testing"

	"verif/mc"
	"verif/netsim"
)

func TestC02(t *testing.T) {
	r := mc.NewRun(t, "C02", mc.ModelChecking)
	r.Rule = "topology family (core meshes, trees, multi-homing, parallel links, peering subsets, 2 ISDs) x border-router " +
		"split {1 BR, 1 BR per interface, 2 BRs} x all loop-free beacon propagation walks (real extender) x all ordered AS pairs x " +
		"findAllIdentical {false,true} x every path the real combinator returns; each path = one hop-by-hop walk through real routers; " +
		"distinct key = topology + src + dst + interface sequence; non-trivial = all"
	level := mc.Pick(0, 1)
	maxLen := mc.Pick(4, 6)
	topos := netsim.Family(level)
	// long paths (more than 32 hop fields: the pointer fields use their full width) on linear topologies
	longFrom := len(topos)
	topos = append(topos, netsim.Chain(36, 1, 1, 0), netsim.Chain(12, 14, 12, 2))
	if mc.Thorough() {
		topos = append(topos, netsim.Chain(62, 1, 1, 1), netsim.Chain(21, 22, 21, 0), netsim.Chain(1, 40, 20, 2))
	}
	bubble(t, func(t *testing.T) {
		var hops, paths int64
		for ti, tp := range topos {
			maxLen := maxLen
			if ti >= longFrom {
				maxLen = 64
			}
			if r.OutOfBudget() {
				r.Capped(fmt.Sprintf("budget reached after %d of %d topologies", ti, len(topos)))
				break
			}
			for i := range tp.ASes {
				tp.ASes[i].EPIC = true // AS entries carry the detachable EPIC extension
			}
			n, err := netsim.Build(tp)
			if err != nil {
				r.HarnessError("build %s: %v", tp.Name, err)
				continue
			}
			if err := n.Beacon(maxLen); err != nil {
				r.HarnessError("beaconing %s: %v", tp.Name, err)
				continue
			}
			for src := range tp.ASes {
				for dst := range tp.ASes {
					if src == dst {
						continue
					}
					if ti >= longFrom && !(src < 2 || dst < 2 || src >= len(tp.ASes)-2 || dst >= len(tp.ASes)-2 || (src+dst)%5 == 0) {
						continue // long chains: pairs involving an end or join AS plus a stripe
					}
					for _, all := range []bool{false, true} {
						ps := pathsBetween(n, src, dst, all)
						if len(ps) == 0 {
							r.Outcome("no-path")
						}
						for _, p := range ps {
							for _, carriage := range []string{"scion", "epic"} {
								pk := packetFor(n, src, dst, p, []byte("c02-payload"))
								if carriage == "epic" {
									// the combinator also hands out the authenticators of the EPIC variant of the path
									ep := epicPacketFor(n, src, dst, p, []byte("c02-payload"))
									if ep == nil || all {
										continue
									}
									pk = *ep
								}
								raw, _ := pk.Serialize()
								o := n.Inject(raw, src, firstBR(n, src, p))
								key := fmt.Sprintf("%s|%s|%s>%s|%s|all=%v", tp.Name, carriage, tp.ASes[src].IA, tp.ASes[dst].IA, metaSeq(p), all)
								r.Case(key, true)
								paths++
								hops += int64(len(o.Steps))
								det := map[string]any{"case": key, "outcome": o.String(), "crossings": ifaceSeq(n, o.Crossings), "packet": fmt.Sprintf("%x", raw)}
								if len(o.Steps) > 0 {
									last := o.Steps[len(o.Steps)-1]
									det["last_step"] = fmt.Sprintf("AS %s br %d in=%v disp=%d egress=%d scmp=(%d,%d,%d)", tp.ASes[last.AS].IA, last.BR, last.In, last.Disp, last.Egress, last.SPType, last.SPCode, last.SPPtr)
								}
								switch {
								case o.Err != "":
									r.Violation("walk-error", det)
								case (!o.Delivered || o.SCMPFrom >= 0) && carriage == "epic":
									r.Violation("epic-variant-not-accepted-by-every-router", det)
								case !o.Delivered || o.SCMPFrom >= 0:
									r.Violation("not-accepted-by-every-router", det)
								case o.DeliveredAS != dst || o.DeliveredTo != "10."+fmt.Sprint(dst+1)+".2.20:50000":
									r.Violation("delivered-to-wrong-host", det)
								case ifaceSeq(n, o.Crossings) != metaSeq(p):
									r.Violation("interfaces-differ-from-metadata", det)
								default:
									r.Outcome(fmt.Sprintf("delivered/%s/%d-crossings", carriage, len(o.Crossings)))
								}
								if paths%997 == 1 {
									r.Sample(det)
								}
							}
						}
					}
				}
			}
		}
		r.AddGraph(paths, hops, paths)
		r.Extra["topologies"] = len(topos)
		r.Extra["paths_walked"] = paths
		r.Extra["router_traversals"] = hops
		r.Extra["max_beacon_walk_len"] = maxLen
	})
	r.Assumptions = []string{"one forwarding key per AS (derived exactly like control.DeriveHFMacKey), ECDSA-signed AS entries (signatures are not verified on this path)",
		"the walk moves bytes between real data planes according to the topology; sockets and queues are not involved (C14 covers those)"}
	r.Finish(3)
}
