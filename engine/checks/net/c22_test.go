package net

import (
	"encoding/binary"
	"fmt"
	"testing"

	seg "github.com/scionproto/scion/pkg/segment"

	"verif/mc"
	"verif/netsim"
)

// c22Sigma maps a hop field (as it appears in packets) to the accumulator value its MAC was created with, computed
// from the registered segments only: beta_0 = SegmentID, beta_{i+1} = beta_i xor MAC_i[0:2]; a regular hop entry of AS
// entry i was created with beta_i, its peer entries with beta_{i+1}.
func c22Sigma(n *netsim.Net) map[string]uint16 {
	m := map[string]uint16{}
	add := func(s *seg.PathSegment) {
		beta := s.Info.SegmentID
		for _, e := range s.ASEntries {
			hf := e.HopEntry.HopField
			next := beta ^ binary.BigEndian.Uint16(hf.MAC[:2])
			m[fmt.Sprintf("%d/%d/%x/%d", hf.ConsIngress, hf.ConsEgress, hf.MAC, s.Info.Timestamp.Unix())] = beta
			for _, p := range e.PeerEntries {
				m[fmt.Sprintf("%d/%d/%x/%d", p.HopField.ConsIngress, p.HopField.ConsEgress, p.HopField.MAC, s.Info.Timestamp.Unix())] = next
			}
			beta = next
		}
	}
	for _, ss := range n.Up {
		for _, s := range ss {
			add(s)
		}
	}
	for _, s := range n.Core {
		add(s)
	}
	return m
}

type c22Hop struct {
	consDir, peerFlag bool
	segID             uint16
	ts                uint32
	in, eg            uint16
	mac               [6]byte
	firstOfSeg        bool
	lastOfSeg         bool
	last              bool
}

// c22Decode reads hop h of the SCION path in raw (clean-room layout knowledge).
func c22Decode(raw []byte, metaOff int, h int) c22Hop {
	lens := segLensOf(raw, metaOff)
	ninf := len(lens)
	s, start := 0, 0
	for s = 0; s < ninf; s++ {
		if h < start+lens[s] {
			break
		}
		start += lens[s]
	}
	io := metaOff + 4 + 8*s
	ho := metaOff + 4 + 8*ninf + 12*h
	total := 0
	for _, l := range lens {
		total += l
	}
	c := c22Hop{consDir: raw[io]&1 != 0, peerFlag: raw[io]&2 != 0, segID: binary.BigEndian.Uint16(raw[io+2:]), ts: binary.BigEndian.Uint32(raw[io+4:]),
		in: binary.BigEndian.Uint16(raw[ho+2:]), eg: binary.BigEndian.Uint16(raw[ho+4:]), firstOfSeg: h == start, lastOfSeg: h == start+lens[s]-1, last: h == total-1}
	copy(c.mac[:], raw[ho+6:ho+12])
	return c
}

func TestC22(t *testing.T) {
	r := mc.NewRun(t, "C22", mc.ModelChecking)
	r.Rule = "linear chains with up/core/down segments totalling up to 64 hop fields and comb-shaped trees (shortcut joins at every " +
		"depth, peering links at every depth) x 3 key sets x 3 border-router layouts x all AS pairs (both directions) x every " +
		"combinator path; at every router traversal the accumulator value the router uses for each hop field it validates is " +
		"compared with the construction-time value recovered from the registered segments; x faults at every segment-boundary hop " +
		"field and one rotating further hop field of every path: the SCMP error reply of the real router is walked back to the " +
		"source under the same comparison"
	type tcase struct {
		tp     *netsim.Topo
		maxLen int
	}
	var cases []tcase
	chains := mc.Pick([][3]int{{5, 1, 1}, {3, 2, 3}, {62, 1, 1}, {21, 22, 21}}, [][3]int{{5, 1, 1}, {3, 2, 3}, {9, 3, 9}, {62, 1, 1}, {1, 62, 1}, {21, 22, 21}, {31, 2, 31}, {2, 31, 31}})
	for _, c := range chains {
		for split := 0; split < mc.Pick(2, 3); split++ {
			cases = append(cases, tcase{netsim.Chain(c[0], c[1], c[2], split), 64})
		}
	}
	for _, k := range mc.Pick([]int{3}, []int{3, 5}) {
		var all []int
		for d := 1; d <= k; d++ {
			all = append(all, d)
			for split := 0; split < 3; split++ {
				cases = append(cases, tcase{netsim.Comb(k, []int{d}, split), k + 3})
			}
		}
		cases = append(cases, tcase{netsim.Comb(k, nil, 1), k + 3}, tcase{netsim.Comb(k, all, 2), k + 3})
	}
	bubble(t, func(t *testing.T) {
		var walks, hops, checked int64
		var fx c22xStats
		maxHops := 0
		for _, salt := range mc.Pick([]string{"", "/k2"}, []string{"", "/k2", "/k3"}) {
			netsim.KeySalt = salt
			for ci, tc := range cases {
				if r.OutOfBudget() {
					r.Capped(fmt.Sprintf("budget reached at case %d of %d (key set %q)", ci, len(cases), salt))
					break
				}
				// rebuild the topology under the current key set
				tp := tc.tp
				for i := range tp.ASes {
					tp.ASes[i].Key = []byte(fmt.Sprintf("master-key-of-%02d-%s%s", i, tp.ASes[i].IA, salt))
				}
				n, err := netsim.Build(tp)
				if err != nil {
					r.HarnessError("build %s: %v", tp.Name, err)
					continue
				}
				if err := n.Beacon(tc.maxLen); err != nil {
					r.HarnessError("beaconing %s: %v", tp.Name, err)
					continue
				}
				sigma := c22Sigma(n)
				pairs := 0
				for src := range tp.ASes {
					for dst := range tp.ASes {
						if src == dst {
							continue
						}
						// long chains: all pairs would be quadratic in 64; take every pair involving an end or a join AS, and a stripe
						if len(tp.ASes) > 20 && !(src < 2 || dst < 2 || src >= len(tp.ASes)-2 || dst >= len(tp.ASes)-2 || (src+dst)%7 == 0) {
							continue
						}
						pairs++
						for _, p := range pathsBetween(n, src, dst, false) {
							pk := packetFor(n, src, dst, p, []byte("c22"))
							raw, lay := pk.Serialize()
							o := n.Inject(raw, src, firstBR(n, src, p))
							walks++
							hops += int64(len(o.Steps))
							if len(lay.HopOff) > maxHops {
								maxHops = len(lay.HopOff)
							}
							key := fmt.Sprintf("%s|keys%s|%s>%s|%d-hops|%s", tp.Name, salt, tp.ASes[src].IA, tp.ASes[dst].IA, len(lay.HopOff), trunc(metaSeq(p), 120))
							r.Case(key, true)
							det := map[string]any{"case": key, "outcome": o.String()}
							if !o.Delivered || o.SCMPFrom >= 0 || o.DeliveredAS != dst {
								if len(o.Steps) > 0 {
									l := o.Steps[len(o.Steps)-1]
									det["last_step"] = fmt.Sprintf("AS %s br %d in=%v disp=%d scmp=(%d,%d,%d)", tp.ASes[l.AS].IA, l.BR, l.In, l.Disp, l.SPType, l.SPCode, l.SPPtr)
								}
								r.Violation("path-not-accepted(accumulator-desynchronised)", det)
								continue
							}
							bad := ""
							for _, st := range o.Steps {
								h := int(st.InBytes[lay.MetaOff]) & 63
								cur := c22Decode(st.InBytes, lay.MetaOff, h)
								peerHop := cur.peerFlag && (cur.lastOfSeg && h < len(lay.HopOff)-1 && !cur.firstOfSeg || cur.firstOfSeg && h > 0 || len(lay.HopOff) == 2 && cur.peerFlag)
								used := cur.segID
								if !cur.consDir && st.In.Kind == 1 && !peerHop {
									used ^= binary.BigEndian.Uint16(cur.mac[:2])
								}
								want, ok := sigma[fmt.Sprintf("%d/%d/%x/%d", cur.in, cur.eg, cur.mac, cur.ts)]
								if !ok {
									bad = fmt.Sprintf("hop %d at AS %s is not a hop field of any registered segment", h, tp.ASes[st.AS].IA)
									break
								}
								checked++
								if used != want {
									bad = fmt.Sprintf("AS %s hop %d: router validates with accumulator %#04x, construction-time value %#04x", tp.ASes[st.AS].IA, h, used, want)
									break
								}
								if cur.lastOfSeg && !cur.last && !peerHop && st.In.Kind != 2 || (cur.lastOfSeg && !cur.last && !peerHop && st.In.Kind == 2 && h == int(st.InBytes[lay.MetaOff])&63) {
									// cross-over: the same router also validates the first hop field of the next segment
									nx := c22Decode(st.InBytes, lay.MetaOff, h+1)
									want2, ok := sigma[fmt.Sprintf("%d/%d/%x/%d", nx.in, nx.eg, nx.mac, nx.ts)]
									if !ok {
										bad = fmt.Sprintf("hop %d is not a hop field of any registered segment", h+1)
										break
									}
									checked++
									if nx.segID != want2 {
										bad = fmt.Sprintf("AS %s hop %d (after cross-over): accumulator %#04x, construction-time value %#04x", tp.ASes[st.AS].IA, h+1, nx.segID, want2)
										break
									}
								}
							}
							if bad != "" {
								det["problem"] = bad
								r.Violation("accumulator-differs-from-construction-value", det)
								continue
							}
							r.Outcome(fmt.Sprintf("synchronised/%d-segments", len(lay.InfoOff)))
							// router-generated return traffic: SCMP replies to faults planted along this path
							c22FaultWalks(r, n, sigma, src, p, raw, key, walks, &fx)
							if walks%701 == 1 {
								r.Sample(det)
							}
						}
					}
				}
			}
		}
		netsim.KeySalt = ""
		r.AddGraph(walks+fx.walks, hops+fx.hops, walks+fx.walks)
		r.Extra["scmp_fault_walks"] = fx.walks
		r.Extra["scmp_reply_hop_validations_compared"] = fx.checked
		r.Extra["paths_walked"] = walks
		r.Extra["hop_validations_compared"] = checked
		r.Extra["max_hop_fields_in_a_path"] = maxHops
	})
	r.Assumptions = []string{"MAC values are concrete AES-CMAC outputs under 2-3 key sets, not symbolic: a desynchronised accumulator is observed as an explicit value mismatch at the router and (with probability 1-2^-48 per hop) as a rejected packet",
		"SCMP replies: the fault is an invalid hop-field MAC (last MAC byte), raised by the external-ingress router of the AS (after the cross-over at a segment change); when the quoted packet is truncated below its L4 header (1232-byte SCMP limit, paths of about 45+ hop fields) delivery to the host is not demanded, only acceptance up to and including the source-AS router",
		"long chains: AS pairs are restricted to those involving an end or join AS plus a stripe; comb topologies: all pairs"}
	r.Finish(2)
}

func trunc(s string, n int) string {
	if len(s) > n {
		return s[:n] + "..."
	}
	return s
}
