package net

import (
	"bytes"
	"encoding/binary"
	"fmt"
	"hash"
	"strings"
	"testing"
	"time"

	"github.com/scionproto/scion/pkg/addr"
	"github.com/scionproto/scion/pkg/scrypto"
	"github.com/scionproto/scion/private/path/combinator"

	"verif/mc"
	"verif/netsim"
)

// c28TopoWalk validates an interface list against the topology (ground truth independent of the segments): it must
// be a chain of existing links from src to dst; it returns the minimum over the internal MTU of every AS on the way
// and the MTU of every link crossed.
func c28TopoWalk(n *netsim.Net, src, dst addr.IA, ifs []c28Iface) (int, string) {
	if len(ifs) == 0 || len(ifs)%2 != 0 {
		return 0, fmt.Sprintf("%d interfaces: not a non-empty list of link ends", len(ifs))
	}
	if ifs[0].IA != src || ifs[len(ifs)-1].IA != dst {
		return 0, "interface list does not lead from the source AS to the destination AS"
	}
	mtu := 1 << 30
	for i := 0; i < len(ifs); i += 2 {
		as := n.ASIndex(ifs[i].IA)
		if as < 0 {
			return 0, "unknown AS " + ifs[i].IA.String()
		}
		e, ok := n.T.End(as, ifs[i].ID)
		if !ok {
			return 0, fmt.Sprintf("AS %s has no interface %d", ifs[i].IA, ifs[i].ID)
		}
		if n.T.ASes[e.Remote].IA != ifs[i+1].IA || e.RemoteIf != ifs[i+1].ID {
			return 0, fmt.Sprintf("%s#%d is not connected to %s#%d", ifs[i].IA, ifs[i].ID, ifs[i+1].IA, ifs[i+1].ID)
		}
		if i+2 < len(ifs) && ifs[i+1].IA != ifs[i+2].IA {
			return 0, fmt.Sprintf("enters %s but leaves from %s", ifs[i+1].IA, ifs[i+2].IA)
		}
		mtu = min(mtu, int(e.L.MTU), int(n.T.ASes[as].MTU), int(n.T.ASes[e.Remote].MTU))
	}
	return mtu, ""
}

func c28MetaIfaces(p combinator.Path) []c28Iface {
	var out []c28Iface
	for _, f := range p.Metadata.Interfaces {
		out = append(out, c28Iface{f.IA, uint16(f.ID)})
	}
	return out
}

// c28MACsKey identifies a forwarding path by its segment lengths and hop-field MACs only.
func c28MACsKey(segs []c28Seg) string {
	k := ""
	for _, s := range segs {
		k += "["
		for _, h := range s.Hops {
			k += fmt.Sprintf("%x ", h.MAC)
		}
		k += "]"
	}
	return k
}

func c28UsesString(c *c28Cand) []string {
	var out []string
	for _, u := range c.Uses {
		out = append(out, u.String())
	}
	return out
}

var c28MacCache = map[string]func() hash.Hash{}

// c28FullMAC recomputes the full 16-byte hop-field MAC (scion-header.rst: MAC over 0|beta|timestamp|0|ExpTime|
// ConsIngress|ConsEgress|0 with the AS's forwarding key); its first 6 bytes are the MAC in the hop field, the EPIC
// authenticator of a hop is the full value.
func c28FullMAC(key []byte, ts uint32, h c28Hop) []byte {
	f := c28MacCache[string(key)]
	if f == nil {
		var err error
		if f, err = scrypto.HFMacFactory(key); err != nil {
			return nil
		}
		c28MacCache[string(key)] = f
	}
	in := make([]byte, 16)
	binary.BigEndian.PutUint16(in[2:], h.Beta)
	binary.BigEndian.PutUint32(in[4:], ts)
	in[9] = h.Exp
	binary.BigEndian.PutUint16(in[10:], h.ConsIn)
	binary.BigEndian.PutUint16(in[12:], h.ConsEg)
	m := f()
	m.Write(in)
	return m.Sum(nil)
}

// c28EpicSide classifies Metadata.EpicAuths of a returned path against the model (side comparison, see Assumptions):
// the authenticators are expected iff the AS entries of the last two hops carry the EPIC extension, and each should
// be the full MAC of the hop field actually traversed.
func c28EpicSide(n *netsim.Net, c *c28Cand, p combinator.Path) string {
	type th struct {
		ts uint32
		h  c28Hop
	}
	var hops []th
	for _, s := range c.Segs {
		for _, h := range s.Hops {
			hops = append(hops, th{s.TS, h})
		}
	}
	ea := p.Metadata.EpicAuths
	have := len(ea.AuthPHVF) > 0 || len(ea.AuthLHVF) > 0
	want := len(hops) >= 2 && hops[len(hops)-1].h.HasEpic && hops[len(hops)-2].h.HasEpic
	anyEpic := false
	for _, x := range hops {
		anyEpic = anyEpic || x.h.HasEpic
	}
	switch {
	case !anyEpic && !have:
		return ""
	case !want && !have:
		return "absent-as-expected(last two hops not both EPIC)"
	case want && !have:
		return "MISSING-although-last-two-hops-carry-the-extension"
	case !want && have:
		return "PRESENT-although-last-two-hops-do-not-both-carry-the-extension"
	}
	res := "present"
	for k, got := range [][]byte{ea.AuthPHVF, ea.AuthLHVF} {
		x := hops[len(hops)-2+k]
		full := c28FullMAC(n.T.ASes[n.ASIndex(x.h.IA)].Key, x.ts, x.h)
		kind := "regular-hop"
		if x.h.PeerHop {
			kind = "peer-hop"
		}
		switch {
		case full == nil || !bytes.Equal(full[:6], x.h.MAC[:]):
			return "model-mac-recomputation-failed"
		case len(got) != 16:
			res += fmt.Sprintf("/%s:WRONG-LENGTH", kind)
		case bytes.Equal(got, full):
			res += fmt.Sprintf("/%s:full-mac", kind)
		case bytes.Equal(got[6:], full[6:]):
			res += fmt.Sprintf("/%s:TAIL-OK-HEAD-IS-NOT-THE-HOP-FIELD-MAC", kind)
		default:
			res += fmt.Sprintf("/%s:TAIL-OF-ANOTHER-ENTRY", kind)
		}
	}
	return res
}

func TestC28(t *testing.T) {
	r := mc.NewRun(t, "C28", mc.Exploration)
	r.Rule = "topology family (netsim.CombFamily: core meshes, trees, multi-homing, parallel links, peering subsets incl. parallel / leaf / " +
		"core peering, 2-3 ISDs, also with the ISDs re-using the same AS numbers) x parameter perturbations re-beaconed through the real extender (each AS: MTU and MaxExpTime lowered; each link: " +
		"MTU lowered; second, older beacon generation in both supply orders; newer generation expiring earlier via one AS; all segments of " +
		"all ASes supplied; segments re-built through pkg/segment with peer entries whose ExpTime / MTU / egress differ from the hop entry of their AS entry " +
		"and with per-entry lifetimes and MTUs (MACs recomputed, own signer); detachable EPIC extension on all / every second / each single AS and on one of two generations; static-info + discovery extensions on all / every second AS, also with EPIC; thorough: also all ordered pairs of these) x all ordered AS pairs x findAllIdentical {false,true} x every returned " +
		"path; distinct key = variant + pair + mode + info/hop fields of the path; non-trivial = all returned paths"
	thorough := mc.Thorough()
	maxLen := mc.Pick(5, 6)
	topos := netsim.CombFamily(mc.Pick(0, 1))
	var nVariants, nCombine, nPaths, nCands int64
	mtuKinds := map[string]int64{}
	expSegs := map[string]int64{}
	epicSide := map[string]int64{}
	extSeen := map[string]int64{}
	bubble(t, func(t *testing.T) {
	topoLoop:
		for ti, tp := range topos {
			for _, v := range c28Variants(tp, thorough) {
				if r.OutOfBudget() {
					r.Capped(fmt.Sprintf("budget reached in topology %d of %d (%s)", ti+1, len(topos), tp.Name))
					break topoLoop
				}
				vname := tp.Name + "|" + v.Name
				ss, err := c28Beacon(v, maxLen)
				if err != nil {
					r.HarnessError("%s: %v", vname, err)
					continue
				}
				nVariants++
				for src := range tp.ASes {
					for dst := range tp.ASes {
						if src == dst {
							continue
						}
						srcIA, dstIA := tp.ASes[src].IA, tp.ASes[dst].IA
						ups, cores, downs := ss.inputs(v, src, dst)
						cands := c28Enumerate(srcIA, dstIA, ups, cores, downs)
						nCands += int64(len(cands))
						byRaw := map[string][]*c28Cand{}
						byMACs := map[string]*c28Cand{}
						latest := map[string]time.Time{} // interface sequence -> latest expiry over loop-free candidates
						nBySeq := map[string]int{}
						differing := map[string]bool{}
						for i := range cands {
							c := &cands[i]
							if c.Err != "" {
								r.HarnessError("%s %s>%s: candidate %v: %s", vname, srcIA, dstIA, c28UsesString(c), c.Err)
								continue
							}
							k := c28SegsKey(c.Segs)
							byRaw[k] = append(byRaw[k], c)
							byMACs[c28MACsKey(c.Segs)] = c
							if c28MaxPerAS(c.Ifaces) > 2 {
								continue
							}
							ik := c28IfaceKey(c.Ifaces)
							old, ok := latest[ik]
							if ok && !old.Equal(c.Expiry) {
								differing[ik] = true
							}
							if !ok || c.Expiry.After(old) {
								latest[ik] = c.Expiry
							}
							nBySeq[ik]++
						}
						for _, all := range []bool{false, true} {
							ctx := map[string]any{"variant": vname, "src": srcIA.String(), "dst": dstIA.String(), "findAllIdentical": all,
								"segments_supplied": fmt.Sprintf("%d up, %d core, %d down", len(ups), len(cores), len(downs))}
							det := func(kv ...any) map[string]any {
								m := map[string]any{}
								for k, v := range ctx {
									m[k] = v
								}
								for i := 0; i+1 < len(kv); i += 2 {
									m[fmt.Sprint(kv[i])] = kv[i+1]
								}
								return m
							}
							var paths []combinator.Path
							if pn := mc.Safely(func() { paths = combinator.Combine(srcIA, dstIA, ups, cores, downs, all) }); pn != nil {
								r.Violation("combine-panics-on-beacon-built-segments", det("panic", pn))
								continue
							}
							nCombine++
							if len(paths) == 0 {
								r.Outcome("no-path")
							}
							seen := map[string]int{}
							prevW, prevHops := -1, -1
							for pi, p := range paths {
								nPaths++
								mifs := c28MetaIfaces(p)
								ik := c28IfaceKey(mifs)
								pd := func(kv ...any) map[string]any {
									return det(append([]any{"path_index", pi, "metadata_interfaces", ik, "metadata_mtu", p.Metadata.MTU,
										"metadata_expiry", p.Metadata.Expiry.UTC().Format(time.RFC3339), "weight", p.Weight,
										"raw_path", fmt.Sprintf("%x", p.SCIONPath.Raw)}, kv...)...)
								}
								// (1) wire format: consistent segment lengths, pointers at the start, nothing reserved set
								raw, err := c28ParseRaw(p.SCIONPath.Raw)
								if err != nil {
									r.Violation("raw-path-malformed", pd("problem", err.Error()))
									continue
								}
								rk := c28SegsKey(raw.Segs)
								r.Case(fmt.Sprintf("%s|%s>%s|%v|%s", vname, srcIA, dstIA, all, rk), true)
								// (2) <= 1 up, core, down in order; info + hop fields are those of the input segments
								cs := byRaw[rk]
								if len(cs) == 0 {
									// same hop-field MACs as a model join but other bytes differ: a field was not copied from the entry it belongs to
									if near := byMACs[c28MACsKey(raw.Segs)]; near != nil {
										r.Violation("info-or-hop-field-not-byte-for-byte-from-the-input-entry/"+near.Kind, pd("parsed", rk,
											"expected", c28SegsKey(near.Segs), "segments", c28UsesString(near)))
									} else {
										r.Violation("path-is-not-a-join-of-up-core-down-input-segments", pd("parsed", rk))
									}
									continue
								}
								c := cs[0]
								// (3) interfaces: derived from the hop fields on the wire by the data-plane rules
								var ias [][]addr.IA
								for _, s := range c.Segs {
									var l []addr.IA
									for _, h := range s.Hops {
										l = append(l, h.IA)
									}
									ias = append(ias, l)
								}
								wifs := c28WalkIfaces(raw.Segs, ias)
								if c28IfaceKey(wifs) != c28IfaceKey(c.Ifaces) {
									r.HarnessError("%s: the two interface derivations of the model disagree: %s vs %s (%v)", vname, c28IfaceKey(wifs), c28IfaceKey(c.Ifaces), c28UsesString(c))
									continue
								}
								if ik != c28IfaceKey(wifs) {
									r.Violation("metadata-interfaces-differ-from-hop-fields/"+c.Kind, pd("expected_interfaces", c28IfaceKey(wifs), "segments", c28UsesString(c)))
								}
								topoMTU, problem := c28TopoWalk(ss.N, srcIA, dstIA, mifs)
								if ss.Rebuilt { // re-built entries deliberately deviate from the topology: model only
									topoMTU, problem = c.MTU, ""
								}
								if problem != "" {
									r.Violation("metadata-interfaces-not-a-link-chain-from-src-to-dst", pd("problem", problem, "segments", c28UsesString(c)))
								}
								// (4) no AS more than twice
								if m := c28MaxPerAS(mifs); m > 2 {
									r.Violation("as-passed-more-than-twice", pd("occurrences", m))
								}
								// (5) expiry = earliest hop-field expiry (from the wire fields)
								var exp time.Time
								for si, s := range raw.Segs {
									for hi, h := range s.Hops {
										if e := c28Expiry(s.TS, h.Exp); (si == 0 && hi == 0) || e.Before(exp) {
											exp = e
										}
									}
								}
								if !exp.Equal(c.Expiry) {
									r.HarnessError("%s: expiry derivations of the model disagree", vname)
								}
								if !p.Metadata.Expiry.Equal(exp) {
									r.Violation("metadata-expiry-not-earliest-hop-expiry/"+c.Kind, pd("expected_expiry", exp.UTC().Format(time.RFC3339), "segments", c28UsesString(c)))
								}
								// (6) MTU = min over AS-internal and link MTUs along the traversed part: from the AS entries and,
								// independently, from the topology the beacons were built on
								if int(p.Metadata.MTU) != c.MTU {
									r.Violation("metadata-mtu-not-minimum-along-path/"+c.Kind, pd("expected_mtu", c.MTU, "minimum_is_a", c.MTUKind, "segments", c28UsesString(c)))
								} else if problem == "" && int(p.Metadata.MTU) != topoMTU {
									r.Violation("metadata-mtu-differs-from-topology/"+c.Kind, pd("topology_mtu", topoMTU, "segments", c28UsesString(c)))
								}
								mtuKinds[c.MTUKind]++
								es := fmt.Sprintf("segment-%d-of-%d", c.ExpSeg+1, len(c.Segs))
								if c.ExpTie {
									es = "tie-across-segments"
								}
								expSegs[es]++
								// (7) order
								hops := len(mifs) / 2
								if p.Weight < prevW {
									r.Violation("not-ordered-by-weight", pd("previous_weight", prevW))
								}
								if hops < prevHops {
									r.Violation("not-ordered-by-number-of-as-hops", pd("previous_hops", prevHops, "hops", hops))
								}
								prevW, prevHops = p.Weight, hops
								// (8) uniqueness / representative
								seen[ik]++
								if !all {
									if seen[ik] > 1 {
										r.Violation("duplicate-interface-sequence-without-findAllIdentical", pd())
									}
									want, ok := latest[ik]
									switch {
									case !ok:
										// reported above (more than twice through an AS, or not a candidate)
									case !p.Metadata.Expiry.Equal(want):
										r.Violation("kept-duplicate-not-latest-expiry", pd("latest_expiry_among_alternatives", want.UTC().Format(time.RFC3339),
											"alternatives", nBySeq[ik], "segments", c28UsesString(c)))
									case nBySeq[ik] == 1:
										r.Outcome("unique/single-construction")
									case differing[ik]:
										r.Outcome("unique/latest-of-differing-expiries-kept")
									default:
										r.Outcome("unique/alternatives-with-equal-expiry")
									}
								}
								if es := c28EpicSide(ss.N, c, p); es != "" {
									epicSide[es]++
									switch {
									case es == "model-mac-recomputation-failed":
										r.HarnessError("%s: the model's beta chain does not reproduce the hop field MAC (%v)", vname, c28UsesString(c))
									case strings.Contains(es, "WRONG-LENGTH") || strings.Contains(es, "TAIL-") || strings.Contains(es, "PRESENT-although"):
										r.Violation("epic-authenticator-is-not-the-full-mac-of-the-traversed-hop/"+c.Kind, pd("classification", es,
											"auth_phvf", fmt.Sprintf("%x", p.Metadata.EpicAuths.AuthPHVF), "auth_lhvf", fmt.Sprintf("%x", p.Metadata.EpicAuths.AuthLHVF), "segments", c28UsesString(c)))
									}
								}
								for _, nt := range p.Metadata.Notes {
									if nt != "" {
										extSeen["paths_with_a_note"]++
										break
									}
								}
								for _, di := range p.Metadata.DiscoveryInformation {
									if len(di.ControlServices) > 0 {
										extSeen["paths_with_discovery_information"]++
										break
									}
								}
								for _, l := range p.Metadata.Latency {
									if l >= 0 {
										extSeen["paths_with_announced_latency"]++
										break
									}
								}
								if c.PeerDiffers {
									r.Outcome("ok-peer-hop-field-differs-from-hop-entry-of-its-as-entry")
									if c.ExpPeer && !c.ExpTie {
										expSegs["(of which: earliest expiry is a peer hop field's that differs from its hop entry)"]++
									}
								}
								if c28SharedNumber(mifs) {
									r.Outcome("ok-through-ases-sharing-an-as-number")
								}
								r.Outcome("ok/" + c.Kind)
								if nPaths%4001 == 1 {
									r.Sample(pd("segments", c28UsesString(c), "kind", c.Kind))
								}
							}
							if all {
								for _, k := range seen {
									if k > 1 {
										r.Outcome("identical-alternatives-returned")
										break
									}
								}
							}
						}
					}
				}
			}
		}
	})
	r.Extra["topologies"] = len(topos)
	r.Extra["segment_sets"] = nVariants
	r.Extra["combine_calls"] = nCombine
	r.Extra["paths_checked"] = nPaths
	r.Extra["model_candidates"] = nCands
	r.Extra["mtu_minimum_realised_by"] = mtuKinds
	r.Extra["earliest_expiry_in"] = expSegs
	r.Extra["max_beacon_walk_len"] = maxLen
	r.Extra["epic_authenticators_side_comparison"] = epicSide
	r.Extra["static_info_extension_reached_metadata"] = extSeen
	r.Assumptions = []string{
		"'passes no AS more than twice' is read as documented at filterLongPaths: no AS owns more than two entries of the interface list",
		"weight = number of inter-AS links of the path (package doc: number of transited AS hops); both the Weight field and this count must be non-decreasing",
		"segments are produced by the real DefaultExtender (ECDSA signatures, per-AS keys); single-entry changes are realised by changing the topology parameter " +
			"the entry is computed from, not by editing signed segments",
		"'latest expiry' representative: compared with the latest expiry over ALL valid combinations with that interface sequence found by the clean-room enumerator",
		"Metadata.EpicAuths is not named in the property statement ('metadata is accurate' is read to include it where present): on segment sets carrying the EPIC " +
			"extension Combine must neither panic nor return anything but model joins, and authenticators that ARE returned must be the independently recomputed " +
			"full MACs of the penultimate and last hop fields actually traversed; whether they are present whenever the last two hops carry the extension is only " +
			"recorded (coverage.epic_authenticators_side_comparison)",
		"the topology MTU ground truth assumes the extender copies interface/AS MTUs faithfully (a mismatch is reported under its own key)",
	}
	r.Finish(8)
}
