package net

// Re-built segment variants for C28: beacon-built segments are taken apart and put together again through
// pkg/segment (CreateSegment + AddASEntry, own ECDSA signer) with single fields of the hop / peer entries changed, so
// that values which the real extender always produces identical inside one AS entry (ExpTime of the hop entry and of
// its peer entries, egress interface of hop and peer hop fields) or correlated (MTUs) differ. All hop-field MACs are
// recomputed with the ASes' forwarding keys along the beta chain (scion-header.rst), i.e. the segments are what an
// extender with per-entry lifetimes / values would emit.

import (
	"context"
	"crypto/ecdsa"
	"crypto/elliptic"
	"crypto/rand"
	"encoding/binary"
	"fmt"
	"time"

	"github.com/scionproto/scion/pkg/proto/crypto"
	"github.com/scionproto/scion/pkg/scrypto/signed"
	seg "github.com/scionproto/scion/pkg/segment"

	"verif/netsim"
)

type c28Signer struct{ key *ecdsa.PrivateKey }

func (s c28Signer) Sign(_ context.Context, msg []byte, ad ...[]byte) (*crypto.SignedMessage, error) {
	l := 0
	for _, d := range ad {
		l += len(d)
	}
	hdr := signed.Header{SignatureAlgorithm: signed.ECDSAWithSHA256, VerificationKeyID: []byte("c28-resign"), Timestamp: time.Now(),
		AssociatedDataLength: l}
	return signed.Sign(hdr, msg, s.key, ad...)
}

var c28ResignKey *ecdsa.PrivateKey

// c28ResignModes: name -> perturbation of one AS entry (position i of n+1 entries) before MACs are recomputed.
var c28ResignModes = []struct {
	name string
	f    func(e *seg.ASEntry, i, n int)
}{
	// peer entries expire earlier than the hop entry of their AS entry (each peer entry at another instant)
	{"peer-exp-lower", func(e *seg.ASEntry, i, n int) {
		for k := range e.PeerEntries {
			e.PeerEntries[k].HopField.ExpTime = e.HopEntry.HopField.ExpTime - uint8(5+3*k)
		}
	}},
	// peer entries outlive the hop entry
	{"peer-exp-higher", func(e *seg.ASEntry, i, n int) {
		for k := range e.PeerEntries {
			e.PeerEntries[k].HopField.ExpTime = e.HopEntry.HopField.ExpTime + uint8(7+3*k)
		}
	}},
	// every hop field of the segment has its own lifetime; the shortest is a peer entry's in even and the hop entry's in
	// odd positions
	{"exp-all-distinct", func(e *seg.ASEntry, i, n int) {
		e.HopEntry.HopField.ExpTime = uint8(60 + 17*i)
		for k := range e.PeerEntries {
			d := uint8(3 + 2*k)
			if i%2 == 0 {
				d = -d
			}
			e.PeerEntries[k].HopField.ExpTime = e.HopEntry.HopField.ExpTime + d
		}
	}},
	// the peering links are the bottleneck (every peer entry another value)
	{"peer-mtu-lowest", func(e *seg.ASEntry, i, n int) {
		for k := range e.PeerEntries {
			e.PeerEntries[k].PeerMTU = 1000 + 10*i + k
		}
	}},
	// the link to the parent is narrow, the peering links are wide (but narrower than the AS)
	{"ingress-mtu-lowest", func(e *seg.ASEntry, i, n int) {
		if e.HopEntry.IngressMTU != 0 {
			e.HopEntry.IngressMTU = 1000 + 10*i
		}
		for k := range e.PeerEntries {
			e.PeerEntries[k].PeerMTU = 1390 + k
		}
	}},
	// the AS-internal MTU is the bottleneck in every second AS entry
	{"as-mtu-staggered", func(e *seg.ASEntry, i, n int) {
		if i%2 == 1 {
			e.MTU = 1100 + i
		}
	}},
	// peer hop fields name another egress interface than the hop entry (a peer entry is an independent hop field)
	{"peer-egress-differs", func(e *seg.ASEntry, i, n int) {
		for k := range e.PeerEntries {
			if e.PeerEntries[k].HopField.ConsEgress != 0 {
				e.PeerEntries[k].HopField.ConsEgress += uint16(100 + k)
			}
		}
	}},
}

func init() {
	// everything at once
	ms := c28ResignModes
	c28ResignModes = append(c28ResignModes, struct {
		name string
		f    func(e *seg.ASEntry, i, n int)
	}{"all-fields-distinct", func(e *seg.ASEntry, i, n int) {
		ms[2].f(e, i, n)
		ms[3].f(e, i, n)
		ms[5].f(e, i, n)
		ms[6].f(e, i, n)
	}})
}

func c28ResignMode(name string) func(e *seg.ASEntry, i, n int) {
	for _, m := range c28ResignModes {
		if m.name == name {
			return m.f
		}
	}
	return nil
}

// c28Resign rebuilds one segment with the perturbation applied to every AS entry.
func c28Resign(n *netsim.Net, s *seg.PathSegment, f func(e *seg.ASEntry, i, n int)) (*seg.PathSegment, error) {
	if c28ResignKey == nil {
		k, err := ecdsa.GenerateKey(elliptic.P256(), rand.Reader)
		if err != nil {
			return nil, err
		}
		c28ResignKey = k
	}
	out, err := seg.CreateSegment(s.Info.Timestamp, s.Info.SegmentID)
	if err != nil {
		return nil, err
	}
	ts := uint32(s.Info.Timestamp.Unix())
	beta := s.Info.SegmentID
	last := len(s.ASEntries) - 1
	for i := range s.ASEntries {
		e := s.ASEntries[i] // copy
		e.Signed = nil
		e.PeerEntries = append([]seg.PeerEntry(nil), e.PeerEntries...)
		f(&e, i, last)
		as := n.ASIndex(e.Local)
		if as < 0 {
			return nil, fmt.Errorf("unknown AS %s", e.Local)
		}
		key := n.T.ASes[as].Key
		hf := &e.HopEntry.HopField
		full := c28FullMAC(key, ts, c28Hop{Beta: beta, Exp: hf.ExpTime, ConsIn: hf.ConsIngress, ConsEg: hf.ConsEgress})
		if full == nil {
			return nil, fmt.Errorf("MAC computation failed")
		}
		copy(hf.MAC[:], full[:6])
		beta ^= binary.BigEndian.Uint16(hf.MAC[:2])
		for k := range e.PeerEntries {
			pf := &e.PeerEntries[k].HopField
			full := c28FullMAC(key, ts, c28Hop{Beta: beta, Exp: pf.ExpTime, ConsIn: pf.ConsIngress, ConsEg: pf.ConsEgress})
			copy(pf.MAC[:], full[:6])
		}
		if err := out.AddASEntry(context.Background(), e, c28Signer{c28ResignKey}); err != nil {
			return nil, err
		}
	}
	return out, nil
}

func c28ResignAll(n *netsim.Net, l []*seg.PathSegment, mode string) ([]*seg.PathSegment, error) {
	f := c28ResignMode(mode)
	if f == nil {
		return nil, fmt.Errorf("unknown re-sign mode %q", mode)
	}
	var out []*seg.PathSegment
	for _, s := range l {
		r, err := c28Resign(n, s, f)
		if err != nil {
			return nil, err
		}
		out = append(out, r)
	}
	return out, nil
}
