package net

import (
	"encoding/binary"
	"fmt"
	"testing"
	"testing/synctest"

	"github.com/scionproto/scion/pkg/addr"
	seg "github.com/scionproto/scion/pkg/segment"
	"github.com/scionproto/scion/private/path/combinator"

	"verif/netsim"
	"verif/rtr"
)

func bubble(t *testing.T, f func(t *testing.T)) { synctest.Test(t, f) }

// pathsBetween runs the real combinator for (src,dst) on the registered segments of the network.
func pathsBetween(n *netsim.Net, src, dst int, all bool) []combinator.Path {
	var ups, downs []*seg.PathSegment
	if !n.T.ASes[src].Core {
		ups = n.Up[src]
	}
	if !n.T.ASes[dst].Core {
		downs = n.Up[dst]
	}
	return combinator.Combine(n.T.ASes[src].IA, n.T.ASes[dst].IA, ups, n.Core, downs, all)
}

// srcHostV6 makes the sending hosts IPv6 hosts (checks that vary the address family of the source set it per case; each
// check runs in its own process).
var srcHostV6 bool

func hostOf(as int, which string) rtr.Host {
	if which == "src" {
		if srcHostV6 {
			return rtr.V6(fmt.Sprintf("fd00:%x::10", as+1))
		}
		return rtr.V4(fmt.Sprintf("10.%d.1.10", as+1))
	}
	return rtr.V4(fmt.Sprintf("10.%d.2.20", as+1))
}

// packetFor builds the UDP packet a host in src sends to a host in dst along path p.
func packetFor(n *netsim.Net, src, dst int, p combinator.Path, payload []byte) rtr.Pkt {
	pk := rtr.Pkt{TrafficClass: 0x20, FlowID: 0x12345, PathType: rtr.PathSCION, RawPath: p.SCIONPath.Raw,
		SrcIA: uint64(n.T.ASes[src].IA), DstIA: uint64(n.T.ASes[dst].IA), Src: hostOf(src, "src"), Dst: hostOf(dst, "dst")}
	pk.SetUDP(40000, 50000, payload)
	return pk
}

// epicPacketFor carries the same path as an EPIC packet (nil if the combinator supplied no authenticators). The
// hop validation fields are computed with the clean-room EPIC MAC from the combinator's authenticators.
func epicPacketFor(n *netsim.Net, src, dst int, p combinator.Path, payload []byte) *rtr.Pkt {
	ea := p.Metadata.EpicAuths
	if !ea.SupportsEpic() {
		return nil
	}
	pk := packetFor(n, src, dst, p, payload)
	pk.PathType, pk.EpicTS, pk.EpicCtr = rtr.PathEPIC, 0, 0x02000001
	infoTS := binary.BigEndian.Uint32(pk.RawPath[8:12])
	var a1, a2 [16]byte
	copy(a1[:], ea.AuthPHVF)
	copy(a2[:], ea.AuthLHVF)
	pk.PHVF = rtr.EpicHVF(a1, infoTS, pk.EpicTS, pk.EpicCtr, pk.SrcIA, pk.Src, uint16(len(pk.Payload)))
	pk.LHVF = rtr.EpicHVF(a2, infoTS, pk.EpicTS, pk.EpicCtr, pk.SrcIA, pk.Src, uint16(len(pk.Payload)))
	return &pk
}

// firstBR: the border router of src owning the first interface of the path.
func firstBR(n *netsim.Net, src int, p combinator.Path) int {
	return n.T.ASes[src].BROf[uint16(p.Metadata.Interfaces[0].ID)]
}

func ifaceSeq(n *netsim.Net, cr []netsim.Crossing) string {
	s := ""
	for _, c := range cr {
		s += fmt.Sprintf("%s#%d>%s#%d ", n.T.ASes[c.From].IA, c.FromIf, n.T.ASes[c.To].IA, c.ToIf)
	}
	return s
}

func metaSeq(p combinator.Path) string {
	s := ""
	ifs := p.Metadata.Interfaces
	for i := 0; i+1 < len(ifs); i += 2 {
		s += fmt.Sprintf("%s#%d>%s#%d ", ifs[i].IA, ifs[i].ID, ifs[i+1].IA, ifs[i+1].ID)
	}
	return s
}

var _ = addr.IA(0)
