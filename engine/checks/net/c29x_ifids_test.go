package net

import (
	"fmt"

	"github.com/scionproto/scion/pkg/addr"

	"verif/netsim"
)

// Interface-number dimension of C29: two different interface sequences over the same AS sequence exist exactly where
// parallel links join the same pair of ASes. Whatever the combinator uses to tell such sequences apart (the path
// fingerprint of filterDuplicates, map keys, sort keys) must look at the whole 16-bit interface number at both ends.
// c29AliasIfIDs renumbers the interfaces of the 2nd, 3rd, ... link of every group of parallel links so that, at BOTH
// ends, they differ from the numbers of the first link of the group in the chosen bit(s) only:
// bit 8..15 (the low byte is equal: anything reduced to 8 bits collides), and "lowbyte" (only bit 0..7 differ while a
// common high byte is set: anything reduced to the high byte collides).

// c29ParallelGroups returns the link indices per unordered AS pair that is joined by two or more links.
func c29ParallelGroups(tp *netsim.Topo) [][]int {
	idx := map[[2]int]int{}
	var groups [][]int
	for li, l := range tp.Links {
		k := [2]int{min(l.A, l.B), max(l.A, l.B)}
		g, ok := idx[k]
		if !ok {
			g = len(groups)
			idx[k] = g
			groups = append(groups, nil)
		}
		groups[g] = append(groups[g], li)
	}
	var out [][]int
	for _, g := range groups {
		if len(g) > 1 {
			out = append(out, g)
		}
	}
	return out
}

// c29AliasIfIDs returns a renumbered deep copy, nil if the topology has no parallel links or the numbering would not
// stay unique per AS. mode: "bit8".."bit15" or "lowbyte".
func c29AliasIfIDs(tp *netsim.Topo, mode string) *netsim.Topo {
	groups := c29ParallelGroups(tp)
	if len(groups) == 0 {
		return nil
	}
	for _, l := range tp.Links {
		if l.IfA >= 128 || l.IfB >= 128 {
			return nil
		}
	}
	c := tp.Clone()
	c.Name = tp.Name + "/ifid-alias=" + mode
	var bit int
	if _, err := fmt.Sscanf(mode, "bit%d", &bit); err != nil {
		bit = -1
	}
	if bit < 0 {
		// every interface gets the common high byte 0x5a; parallel links keep distinct low bytes
		for li := range c.Links {
			c.Links[li].IfA |= 0x5a00
			c.Links[li].IfB |= 0x5a00
		}
	} else {
		for _, g := range groups {
			first := c.Links[g[0]]
			for j, li := range g[1:] {
				l := &c.Links[li]
				swap := l.A != first.A
				a, b := first.IfA, first.IfB
				if swap {
					a, b = b, a
				}
				// j-th further link: bit, bit+1 (wrapping within 8..15), ... keeps the low byte of the first link
				off := uint16(0)
				for k := 0; k <= j; k++ {
					off ^= 1 << (8 + (bit-8+k)%8)
				}
				if j >= 8 {
					return nil
				}
				l.IfA, l.IfB = a|off, b|off
			}
		}
	}
	// interface -> border router table follows the numbers (single router)
	for i := range c.ASes {
		c.ASes[i].BROf = map[uint16]int{}
		seen := map[uint16]bool{}
		for _, e := range c.Ends(i) {
			if seen[e.If] {
				return nil
			}
			seen[e.If] = true
			c.ASes[i].BROf[e.If] = 0
		}
	}
	return c
}

// c29ParallelShape: every link kind doubled: two core links c1=c2, two parent-child links c1>a, c2>b and a>s, two
// peering links a~b; s and t are leaves (t single-homed below b), so up, core, down, shortcut-free three-segment and
// peering joins all exist in two (or 2^k) interface sequences over the same AS sequence.
func c29ParallelShape() *netsim.Topo {
	t := &netsim.Topo{Name: "parallel-all-kinds/split=0"}
	as := func(ia string, core bool) int {
		i := len(t.ASes)
		t.ASes = append(t.ASes, netsim.AS{IA: addr.MustParseIA(ia), Core: core, Key: []byte(fmt.Sprintf("master-key-of-%02d-%s%s", i, ia, netsim.KeySalt)),
			MTU: uint16(1400 + 8*i), BROf: map[uint16]int{}, NumBR: 1})
		return i
	}
	next := uint16(0)
	link := func(a, b int, k netsim.LinkKind) {
		next += 2
		t.Links = append(t.Links, netsim.Link{A: a, B: b, IfA: next - 1, IfB: next, Kind: k, MTU: uint16(1300 + 4*len(t.Links))})
		t.ASes[a].BROf[next-1], t.ASes[b].BROf[next] = 0, 0
	}
	c1, c2 := as("1-ff00:0:110", true), as("1-ff00:0:120", true)
	a, b := as("1-ff00:0:111", false), as("1-ff00:0:121", false)
	s, tt := as("1-ff00:0:112", false), as("1-ff00:0:122", false)
	for i := 0; i < 2; i++ {
		link(c1, c2, netsim.CoreLink)
		link(c1, a, netsim.ParentChild)
		link(c2, b, netsim.ParentChild)
		link(a, s, netsim.ParentChild)
	}
	link(b, tt, netsim.ParentChild)
	link(a, b, netsim.PeerLink)
	link(a, b, netsim.PeerLink)
	return t
}

// c29AliasTopos: the renumbered members for the given base family.
func c29AliasTopos(family []*netsim.Topo, thorough bool) []*netsim.Topo {
	modes := []string{"bit8", "bit15", "lowbyte"}
	if thorough {
		modes = []string{"bit8", "bit9", "bit10", "bit11", "bit12", "bit13", "bit14", "bit15", "lowbyte"}
	}
	var out []*netsim.Topo
	own := c29ParallelShape()
	out = append(out, own)
	for _, tp := range append([]*netsim.Topo{own}, family...) {
		for mi, m := range modes {
			if !thorough && tp != own && mi > 0 {
				break // quick: family members with the bit-8 alias (equal low byte) only
			}
			if c := c29AliasIfIDs(tp, m); c != nil {
				out = append(out, c)
			}
		}
	}
	return out
}
