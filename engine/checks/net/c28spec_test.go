package net

// Clean-room model of SCION path combination used by C28 (soundness + metadata) and C29 (completeness).
//
// It is written from the property statements and doc/protocols/scion-header.rst ("Path Calculation", "Peering
// Links", ExpTime), works directly on the AS entries / peer entries of pkg/segment objects and does not import
// private/path/combinator. A candidate is a way of joining at most one up, one core and one down segment; for each
// candidate the model derives, by following the packet AS by AS, the forwarding path that must be emitted (info and
// hop fields), the interfaces traversed, the earliest hop expiry and the minimum of the AS-internal and link MTUs.

import (
	"encoding/binary"
	"fmt"
	"sort"
	"strings"
	"time"

	"github.com/scionproto/scion/pkg/addr"
	seg "github.com/scionproto/scion/pkg/segment"
)

type c28Iface struct {
	IA addr.IA
	ID uint16
}

// c28Hop is one hop field as it has to appear in the forwarding path, plus the AS it belongs to.
type c28Hop struct {
	IA      addr.IA
	Exp     uint8
	ConsIn  uint16
	ConsEg  uint16
	MAC     [6]byte
	PeerHop bool
	// not on the wire: the SegID accumulator the hop field's MAC was computed with (beta chain of the segment) and
	// whether the AS entry carries the detachable EPIC extension
	Beta    uint16
	HasEpic bool
	// for a peer hop: does any of ExpTime / ConsEgress differ from the regular hop entry of the same AS entry
	DiffersFromEntry bool
}

// c28Seg is one path segment of a forwarding path (hops in travel order).
type c28Seg struct {
	TS      uint32
	SegID   uint16
	ConsDir bool
	Peer    bool
	Hops    []c28Hop
}

const (
	c28Up = iota
	c28Core
	c28Down
)

// c28Use is one way of using an input segment: as up/core segment it is travelled from its last AS entry towards
// entry idx, as down segment from entry idx to its last entry. peer >= 0: the segment is left (up) / entered (down)
// at entry idx over the peering link of that entry's peer entry number peer.
type c28Use struct {
	s    *seg.PathSegment
	typ  int
	idx  int
	peer int
}

func (u c28Use) last() int { return len(u.s.ASEntries) - 1 }

// joinAS is the AS at which the used part of the segment ends (up, core) or starts (down).
func (u c28Use) joinAS() addr.IA { return u.s.ASEntries[u.idx].Local }

func (u c28Use) String() string {
	t := []string{"up", "core", "down"}[u.typ]
	var ias []string
	for _, e := range u.s.ASEntries {
		ias = append(ias, e.Local.String())
	}
	p := ""
	if u.peer >= 0 {
		p = fmt.Sprintf(" peer#%d", u.peer)
	}
	return fmt.Sprintf("%s[%s ts=%d id=%x]@%d%s", t, strings.Join(ias, ","), u.s.Info.Timestamp.Unix(), u.s.Info.SegmentID, u.idx, p)
}

// c28Beta returns beta_i of the segment: the SegID accumulator before the i-th hop entry was created.
func c28Beta(s *seg.PathSegment, i int) uint16 {
	b := s.Info.SegmentID
	for k := 0; k < i; k++ {
		b ^= binary.BigEndian.Uint16(s.ASEntries[k].HopEntry.HopField.MAC[:2])
	}
	return b
}

// c28Part is what one used segment contributes to a path.
type c28Part struct {
	seg     c28Seg
	ifaces  []c28Iface
	mtus    []int // AS-internal MTUs of every AS touched and MTUs of every link crossed inside this part
	mtuKind []string
	err     string
}

func c28Expiry(ts uint32, exp uint8) time.Time {
	// scion-header.rst: absolute expiry = Timestamp + (1 + ExpTime) * 24h/256
	return time.Unix(int64(ts), 0).Add(time.Duration(int64(exp)+1) * (24 * time.Hour / 256))
}

// build follows the packet through the used part of the segment.
func (u c28Use) build() c28Part {
	var p c28Part
	es := u.s.ASEntries
	n := u.last()
	p.seg.TS = uint32(u.s.Info.Timestamp.Unix())
	p.seg.Peer = u.peer >= 0
	hopOf := func(i int) c28Hop {
		e := es[i]
		hf := e.HopEntry.HopField
		h := c28Hop{IA: e.Local, Beta: c28Beta(u.s, i), HasEpic: e.UnsignedExtensions.EpicDetached != nil}
		if i == u.idx && u.peer >= 0 {
			hf = e.PeerEntries[u.peer].HopField
			h.PeerHop = true
			h.Beta = c28Beta(u.s, i+1) // scion-header.rst, Peering Links: chained to beta_{i+1}
			h.DiffersFromEntry = hf.ExpTime != e.HopEntry.HopField.ExpTime || hf.ConsEgress != e.HopEntry.HopField.ConsEgress
		}
		h.Exp, h.ConsIn, h.ConsEg, h.MAC = hf.ExpTime, hf.ConsIngress, hf.ConsEgress, hf.MAC
		return h
	}
	addMTU := func(v int, kind string) {
		p.mtus = append(p.mtus, v)
		p.mtuKind = append(p.mtuKind, kind)
	}
	// structural sanity of the input segment (a beacon-built segment always satisfies it)
	for i, e := range es {
		hf := e.HopEntry.HopField
		if (i == 0) != (hf.ConsIngress == 0) || (i == n) != (hf.ConsEgress == 0) {
			p.err = fmt.Sprintf("segment entry %d has unexpected zero/non-zero interfaces", i)
			return p
		}
	}
	if u.typ == c28Down {
		p.seg.ConsDir = true
		p.seg.SegID = c28Beta(u.s, u.idx)
		if u.peer >= 0 {
			p.seg.SegID = c28Beta(u.s, u.idx+1)
		}
		for i := u.idx; i <= n; i++ {
			h := hopOf(i)
			p.seg.Hops = append(p.seg.Hops, h)
			addMTU(es[i].MTU, "as")
			switch {
			case i > u.idx: // entered from the parent over the link at ConsIngress
				p.ifaces = append(p.ifaces, c28Iface{h.IA, h.ConsIn})
				addMTU(es[i].HopEntry.IngressMTU, "link")
			case u.peer >= 0: // entered over the peering link
				p.ifaces = append(p.ifaces, c28Iface{h.IA, h.ConsIn})
				addMTU(es[i].PeerEntries[u.peer].PeerMTU, "peerlink")
			}
			if i < n { // leaves towards the child
				p.ifaces = append(p.ifaces, c28Iface{h.IA, h.ConsEg})
			}
		}
		return p
	}
	// up and core segments: against construction direction, from the last entry to entry idx
	p.seg.SegID = c28Beta(u.s, n)
	if u.peer >= 0 && u.idx == n {
		p.seg.SegID = c28Beta(u.s, n+1)
	}
	for i := n; i >= u.idx; i-- {
		h := hopOf(i)
		p.seg.Hops = append(p.seg.Hops, h)
		addMTU(es[i].MTU, "as")
		if i < n { // entered from the child
			p.ifaces = append(p.ifaces, c28Iface{h.IA, h.ConsEg})
		}
		switch {
		case i > u.idx: // leaves towards the parent over the link at ConsIngress
			p.ifaces = append(p.ifaces, c28Iface{h.IA, h.ConsIn})
			addMTU(es[i].HopEntry.IngressMTU, "link")
		case u.peer >= 0: // leaves over the peering link
			p.ifaces = append(p.ifaces, c28Iface{h.IA, h.ConsIn})
			addMTU(es[i].PeerEntries[u.peer].PeerMTU, "peerlink")
		}
	}
	return p
}

// c28Cand is one valid combination.
type c28Cand struct {
	Kind        string
	Uses        []c28Use
	Segs        []c28Seg
	Ifaces      []c28Iface
	Expiry      time.Time
	ExpSeg      int // index of the path segment holding the earliest hop expiry (first one on ties)
	ExpTie      bool
	ExpPeer     bool // the earliest expiry is (also) that of a peer hop field
	PeerDiffers bool // some peer hop on the path differs in ExpTime / egress from its AS entry's hop entry
	MTU         int
	MTUKind     string // kind of the element realising the minimum: as / link / peerlink (joined with + on ties)
	Err         string
}

func c28Combine(kind string, uses ...c28Use) c28Cand {
	c := c28Cand{Kind: kind, Uses: uses, MTU: 1 << 30}
	first := true
	kinds := map[string]bool{}
	for si, u := range uses {
		p := u.build()
		if p.err != "" {
			c.Err = p.err
			return c
		}
		c.Segs = append(c.Segs, p.seg)
		c.Ifaces = append(c.Ifaces, p.ifaces...)
		for k, m := range p.mtus {
			if m < c.MTU {
				c.MTU = m
				kinds = map[string]bool{}
			}
			if m == c.MTU {
				kinds[p.mtuKind[k]] = true
			}
		}
		for _, h := range p.seg.Hops {
			e := c28Expiry(p.seg.TS, h.Exp)
			c.PeerDiffers = c.PeerDiffers || h.DiffersFromEntry
			switch {
			case first || e.Before(c.Expiry):
				c.Expiry, c.ExpSeg, c.ExpTie, first = e, si, false, false
				c.ExpPeer = h.PeerHop
			case e.Equal(c.Expiry):
				c.ExpTie = c.ExpTie || si != c.ExpSeg
				c.ExpPeer = c.ExpPeer || h.PeerHop
			}
		}
	}
	var ks []string
	for k := range kinds {
		ks = append(ks, k)
	}
	sort.Strings(ks)
	c.MTUKind = strings.Join(ks, "+")
	return c
}

func c28IfaceKey(ifs []c28Iface) string {
	var sb strings.Builder
	for _, f := range ifs {
		fmt.Fprintf(&sb, "%s#%d ", f.IA, f.ID)
	}
	return sb.String()
}

// c28MaxPerAS returns the largest number of interface occurrences of one AS in the interface list.
func c28MaxPerAS(ifs []c28Iface) int {
	cnt := map[addr.IA]int{}
	m := 0
	for _, f := range ifs {
		cnt[f.IA]++
		m = max(m, cnt[f.IA])
	}
	return m
}

// c28SharedNumber reports whether the (loop-free) interface list has more than two entries in ASes that share an AS
// number but are different ASes (different ISD): only an implementation that identifies ASes by ISD-AS keeps it.
func c28SharedNumber(ifs []c28Iface) bool {
	cnt := map[addr.AS]int{}
	for _, f := range ifs {
		cnt[f.IA.AS()]++
		if cnt[f.IA.AS()] > 2 {
			return c28MaxPerAS(ifs) <= 2
		}
	}
	return false
}

// c28SegsKey renders everything the forwarding path carries (without the AS names, which are not on the wire).
func c28SegsKey(segs []c28Seg) string {
	var sb strings.Builder
	for _, s := range segs {
		fmt.Fprintf(&sb, "[ts=%d id=%04x c=%v p=%v:", s.TS, s.SegID, s.ConsDir, s.Peer)
		for _, h := range s.Hops {
			fmt.Fprintf(&sb, " %d/%d/%d/%x", h.Exp, h.ConsIn, h.ConsEg, h.MAC)
		}
		sb.WriteString("]")
	}
	return sb.String()
}

// c28Enumerate lists every way of joining at most one up, one core and one down segment (in that order) into a
// path from src to dst:
//   - an up segment is usable if it ends (last AS entry) at src; it is travelled towards its first entry and may
//     be left at any earlier entry (entry 0: whole segment; otherwise a shortcut / on-path end),
//   - a core segment is usable as a whole, from its last to its first AS entry,
//   - a down segment is usable if it ends at dst; it may be entered at any entry before the last,
//   - consecutive parts must meet in the same AS; an up and a down part may alternatively meet over a peering link
//     if the up part's final AS entry and the down part's initial AS entry carry peer entries that name each other
//     (peer AS and both interface numbers agree).
func c28Enumerate(src, dst addr.IA, ups, cores, downs []*seg.PathSegment) []c28Cand {
	var up, upPeer, core, down, downPeer []c28Use
	for _, s := range ups {
		n := len(s.ASEntries) - 1
		if n < 0 || s.ASEntries[n].Local != src {
			continue
		}
		for i := 0; i <= n; i++ {
			if i < n {
				up = append(up, c28Use{s, c28Up, i, -1})
			}
			for k := range s.ASEntries[i].PeerEntries {
				upPeer = append(upPeer, c28Use{s, c28Up, i, k})
			}
		}
	}
	for _, s := range cores {
		if len(s.ASEntries) >= 2 {
			core = append(core, c28Use{s, c28Core, 0, -1})
		}
	}
	for _, s := range downs {
		n := len(s.ASEntries) - 1
		if n < 0 || s.ASEntries[n].Local != dst {
			continue
		}
		for i := 0; i <= n; i++ {
			if i < n {
				down = append(down, c28Use{s, c28Down, i, -1})
			}
			for k := range s.ASEntries[i].PeerEntries {
				downPeer = append(downPeer, c28Use{s, c28Down, i, k})
			}
		}
	}
	coreFrom := func(c c28Use) addr.IA { return c.s.ASEntries[c.last()].Local }
	coreTo := func(c c28Use) addr.IA { return c.s.ASEntries[0].Local }
	sc := func(u c28Use) string { // decorate the kind with the way the segment is cut
		if u.idx > 0 {
			return "(cut)"
		}
		return ""
	}
	var out []c28Cand
	for _, u := range up {
		if u.joinAS() == dst {
			out = append(out, c28Combine("up"+sc(u), u))
		}
		for _, c := range core {
			if u.joinAS() != coreFrom(c) {
				continue
			}
			if coreTo(c) == dst {
				out = append(out, c28Combine("up"+sc(u)+"+core", u, c))
			}
			for _, d := range down {
				if coreTo(c) == d.joinAS() {
					out = append(out, c28Combine("up"+sc(u)+"+core+down"+sc(d), u, c, d))
				}
			}
		}
		for _, d := range down {
			if u.joinAS() == d.joinAS() {
				out = append(out, c28Combine("up"+sc(u)+"+down"+sc(d), u, d))
			}
		}
	}
	for _, c := range core {
		if coreFrom(c) != src {
			continue
		}
		if coreTo(c) == dst {
			out = append(out, c28Combine("core", c))
		}
		for _, d := range down {
			if coreTo(c) == d.joinAS() {
				out = append(out, c28Combine("core+down"+sc(d), c, d))
			}
		}
	}
	for _, d := range down {
		if d.joinAS() == src {
			out = append(out, c28Combine("down"+sc(d), d))
		}
	}
	for _, u := range upPeer {
		pu := u.s.ASEntries[u.idx].PeerEntries[u.peer]
		for _, d := range downPeer {
			pd := d.s.ASEntries[d.idx].PeerEntries[d.peer]
			if pu.Peer == d.joinAS() && pd.Peer == u.joinAS() &&
				pu.PeerInterface == pd.HopField.ConsIngress && pd.PeerInterface == pu.HopField.ConsIngress {
				k := "up|peer|down"
				if u.idx == u.last() || d.idx == d.last() {
					k = "up|peer|down(peering at end AS)"
				}
				if u.idx == 0 || d.idx == 0 {
					k = "up|peer|down(peering at first AS)"
				}
				out = append(out, c28Combine(k, u, d))
			}
		}
	}
	return out
}

// ---- wire format of the SCION path (doc/protocols/scion-header.rst), parsed independently ----

type c28Raw struct {
	Segs []c28Seg // hops without IA
}

func c28ParseRaw(raw []byte) (c28Raw, error) {
	var r c28Raw
	if len(raw) < 4 {
		return r, fmt.Errorf("path shorter than the meta header")
	}
	m := binary.BigEndian.Uint32(raw)
	currINF, currHF, rsv := m>>30, m>>24&0x3f, m>>18&0x3f
	lens := []int{int(m >> 12 & 0x3f), int(m >> 6 & 0x3f), int(m & 0x3f)}
	if currINF != 0 || currHF != 0 || rsv != 0 {
		return r, fmt.Errorf("meta header: CurrINF=%d CurrHF=%d RSV=%d, want all 0", currINF, currHF, rsv)
	}
	if lens[0] == 0 || (lens[2] > 0 && lens[1] == 0) {
		return r, fmt.Errorf("meta header: segment lengths %v not contiguous from the first", lens)
	}
	numINF, numHF := 0, 0
	for _, l := range lens {
		if l > 0 {
			numINF++
			numHF += l
		}
	}
	if want := 4 + 8*numINF + 12*numHF; len(raw) != want {
		return r, fmt.Errorf("path is %d bytes, segment lengths %v need %d", len(raw), lens, want)
	}
	off := 4
	for i := 0; i < numINF; i++ {
		b := raw[off : off+8]
		off += 8
		if b[0]&^3 != 0 || b[1] != 0 {
			return r, fmt.Errorf("info field %d has reserved bits set", i)
		}
		r.Segs = append(r.Segs, c28Seg{Peer: b[0]&2 != 0, ConsDir: b[0]&1 != 0, SegID: binary.BigEndian.Uint16(b[2:]),
			TS: binary.BigEndian.Uint32(b[4:])})
	}
	for i := 0; i < numINF; i++ {
		for k := 0; k < lens[i]; k++ {
			b := raw[off : off+12]
			off += 12
			if b[0] != 0 {
				return r, fmt.Errorf("hop field has flags/reserved bits %02x set", b[0])
			}
			h := c28Hop{Exp: b[1], ConsIn: binary.BigEndian.Uint16(b[2:]), ConsEg: binary.BigEndian.Uint16(b[4:])}
			copy(h.MAC[:], b[6:12])
			r.Segs[i].Hops = append(r.Segs[i].Hops, h)
		}
	}
	return r, nil
}

// c28WalkIfaces derives the interfaces a packet with these info/hop fields traverses, following the data-plane rules:
// each hop is entered through its travel-ingress and left through its travel-egress interface (ConsIngress /
// ConsEgress swapped when travelling against construction direction); interface 0 means "inside the AS"; the first
// hop of the path is not entered from outside and the last hop is not left (source / destination AS); at a
// segment change the last hop of the old and the first hop of the new segment belong to the same AS, which is entered
// through the former's ingress and left through the latter's egress -- unless the segments are peering segments, in
// which case the two hops belong to the two peering ASes and are both traversed completely.
// ias gives the AS of every hop (the wire format does not carry it).
func c28WalkIfaces(segs []c28Seg, ias [][]addr.IA) []c28Iface {
	var out []c28Iface
	for si, s := range segs {
		for hi, h := range s.Hops {
			in, eg := h.ConsIn, h.ConsEg
			if !s.ConsDir {
				in, eg = eg, in
			}
			firstOfLater := hi == 0 && si > 0
			lastOfEarlier := hi == len(s.Hops)-1 && si < len(segs)-1
			if firstOfLater && !s.Peer || si == 0 && hi == 0 { // cross-over, or the source AS (packet starts inside)
				in = 0
			}
			if lastOfEarlier && !s.Peer || si == len(segs)-1 && hi == len(s.Hops)-1 { // cross-over / destination AS
				eg = 0
			}
			if in != 0 {
				out = append(out, c28Iface{ias[si][hi], in})
			}
			if eg != 0 {
				out = append(out, c28Iface{ias[si][hi], eg})
			}
		}
	}
	return out
}
