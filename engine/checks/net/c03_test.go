package net

import (
	"fmt"
	"testing"

	_ "github.com/scionproto/scion/pkg/slayers" // registers the path types
	"github.com/scionproto/scion/pkg/slayers/path"
	"github.com/scionproto/scion/pkg/slayers/path/onehop"
	"github.com/scionproto/scion/pkg/slayers/path/scion"
	"github.com/scionproto/scion/pkg/snet"
	routercontrol "github.com/scionproto/scion/router/control"

	"verif/mc"
	"verif/netsim"
	"verif/rtr"
)

const c03PathOff = 36 // common header + 2 ISD-AS + 2 IPv4 hosts

// pathBytesOf cuts the path out of a delivered packet (our packets always carry IPv4 hosts).
func pathBytesOf(raw []byte) (ptype uint8, pb []byte) {
	hdr := int(raw[5]) * 4
	return raw[8], append([]byte{}, raw[c03PathOff:hdr]...)
}

func serPath(p path.Path) ([]byte, error) {
	b := make([]byte, p.Len())
	err := p.SerializeTo(b)
	return b, err
}

// reversals: the three ways a destination reverses a received path.
func c03Reverse(method string, ptype uint8, pb []byte) ([]byte, error) {
	switch method {
	case "Decoded.Reverse":
		if ptype == rtr.PathEPIC {
			pb = pb[16:]
		}
		var d scion.Decoded
		if err := d.DecodeFromBytes(pb); err != nil {
			return nil, err
		}
		r, err := d.Reverse()
		if err != nil {
			return nil, err
		}
		return serPath(r)
	case "Raw.Reverse":
		if ptype == rtr.PathEPIC {
			pb = pb[16:]
		}
		var d scion.Raw
		if err := d.DecodeFromBytes(append([]byte{}, pb...)); err != nil {
			return nil, err
		}
		r, err := d.Reverse()
		if err != nil {
			return nil, err
		}
		return serPath(r)
	case "ReplyPather":
		rp, err := snet.DefaultReplyPather{}.ReplyPath(snet.RawPath{PathType: path.Type(ptype), Raw: pb})
		if err != nil {
			return nil, err
		}
		return serPath(rp.(snet.RawReplyPath).Path)
	case "onehop.Reverse":
		var o onehop.Path
		if err := o.DecodeFromBytes(pb); err != nil {
			return nil, err
		}
		r, err := o.Reverse()
		if err != nil {
			return nil, err
		}
		return serPath(r)
	}
	panic(method)
}

func reverseCrossings(cr []netsim.Crossing) []netsim.Crossing {
	out := make([]netsim.Crossing, len(cr))
	for i, c := range cr {
		out[len(cr)-1-i] = netsim.Crossing{From: c.To, FromIf: c.ToIf, To: c.From, ToIf: c.FromIf}
	}
	return out
}

func TestC03(t *testing.T) {
	r := mc.NewRun(t, "C03", mc.ModelChecking)
	r.Rule = "the path space of C02 (topology family x beacon walks x AS pairs x combinator paths) carried as SCION and, where " +
		"the combinator supplies authenticators, as EPIC, plus a one-hop packet over every inter-AS link in both directions; every " +
		"delivered packet is answered with each of Decoded.Reverse, Raw.Reverse and DefaultReplyPather (one-hop: onehop.Path.Reverse + " +
		"ReplyPather) and the reply is walked back through the real routers"
	level := mc.Pick(0, 1)
	maxLen := mc.Pick(4, 6)
	topos := netsim.Family(level)
	bubble(t, func(t *testing.T) {
		var walks, hops, epicUndelivered, epicDelivered int64
		reply := func(n *netsim.Net, tp *netsim.Topo, key string, req netsim.Outcome, src, dst int, methods []string) {
			ptype, pb := pathBytesOf(req.DeliveredRaw)
			last := req.Crossings[len(req.Crossings)-1]
			for _, m := range methods {
				rev, err := c03Reverse(m, ptype, pb)
				det := map[string]any{"case": key, "method": m, "request_crossings": ifaceSeq(n, req.Crossings)}
				if err != nil {
					det["error"] = err.Error()
					r.Violation("reversal-failed:"+m, det)
					continue
				}
				pk := rtr.Pkt{TrafficClass: 0x20, FlowID: 0x54321, PathType: rtr.PathSCION, RawPath: rev,
					SrcIA: uint64(tp.ASes[dst].IA), DstIA: uint64(tp.ASes[src].IA), Src: hostOf(dst, "dst"), Dst: hostOf(src, "src")}
				pk.SetUDP(50000, 40000, []byte("c03-reply"))
				raw, _ := pk.Serialize()
				o := n.Inject(raw, dst, tp.ASes[dst].BROf[last.ToIf])
				walks++
				hops += int64(len(o.Steps))
				r.Case(key+"|"+m, true)
				det["outcome"], det["reply_crossings"], det["reply_packet"] = o.String(), ifaceSeq(n, o.Crossings), fmt.Sprintf("%x", raw)
				want := fmt.Sprintf("10.%d.1.10:40000", src+1)
				switch {
				case o.Err != "":
					r.Violation("walk-error", det)
				case !o.Delivered || o.SCMPFrom >= 0:
					if len(o.Steps) > 0 {
						l := o.Steps[len(o.Steps)-1]
						det["last_step"] = fmt.Sprintf("AS %s br %d disp=%d scmp=(%d,%d,%d)", tp.ASes[l.AS].IA, l.BR, l.Disp, l.SPType, l.SPCode, l.SPPtr)
					}
					r.Violation("reply-not-accepted:"+m, det)
				case o.DeliveredAS != src || o.DeliveredTo != want:
					r.Violation("reply-delivered-to-wrong-host:"+m, det)
				case ifaceSeq(n, o.Crossings) != ifaceSeq(n, reverseCrossings(req.Crossings)):
					r.Violation("reply-crosses-other-interfaces:"+m, det)
				default:
					r.Outcome("reply-delivered:" + m)
				}
				if walks%1499 == 1 {
					r.Sample(det)
				}
			}
		}
		for ti, tp := range topos {
			if r.OutOfBudget() {
				r.Capped(fmt.Sprintf("budget reached after %d of %d topologies", ti, len(topos)))
				break
			}
			for i := range tp.ASes {
				tp.ASes[i].EPIC = true
			}
			n, err := netsim.Build(tp)
			if err != nil {
				r.HarnessError("build %s: %v", tp.Name, err)
				continue
			}
			if err := n.Beacon(maxLen); err != nil {
				r.HarnessError("beaconing %s: %v", tp.Name, err)
				continue
			}
			for src := range tp.ASes {
				for dst := range tp.ASes {
					if src == dst {
						continue
					}
					for _, p := range pathsBetween(n, src, dst, false) {
						for _, kind := range []string{"scion", "epic"} {
							pk := packetFor(n, src, dst, p, []byte("c03-request"))
							if kind == "epic" {
								ep := epicPacketFor(n, src, dst, p, []byte("c03-request"))
								if ep == nil {
									r.Outcome("no-epic-authenticators")
									continue
								}
								pk = *ep
							}
							raw, _ := pk.Serialize()
							req := n.Inject(raw, src, firstBR(n, src, p))
							key := fmt.Sprintf("%s|%s|%s>%s|%s", tp.Name, kind, tp.ASes[src].IA, tp.ASes[dst].IA, metaSeq(p))
							if !req.Delivered || req.SCMPFrom >= 0 || req.DeliveredAS != dst {
								if kind == "epic" {
									epicUndelivered++ // outside C03 (the statement is about packets that were delivered); recorded
									r.Outcome("epic-request-not-delivered(recorded)")
									if epicUndelivered == 1 {
										r.Extra["epic_request_not_delivered_example"] = key + " -> " + req.String()
									}
								}
								continue // SCION requests are C02's business
							}
							if kind == "epic" {
								epicDelivered++
							}
							reply(n, tp, key, req, src, dst, []string{"Decoded.Reverse", "Raw.Reverse", "ReplyPather"})
						}
					}
				}
			}
			// one-hop paths over every link, both directions
			for _, l := range tp.Links {
				for _, dir := range [][4]int{{l.A, int(l.IfA), l.B, int(l.IfB)}, {l.B, int(l.IfB), l.A, int(l.IfA)}} {
					a, ifA, b := dir[0], uint16(dir[1]), dir[2]
					ts := uint32(946684800 - 10)
					key := routercontrol.DeriveHFMacKey(tp.ASes[a].Key)
					segID := uint16(0x4242)
					full := rtr.FullHopMAC(key, segID, ts, 63, 0, ifA)
					hop := rtr.Hop{In: 0, Eg: ifA, Exp: 63}
					copy(hop.Mac[:], full[:6])
					pk := rtr.Pkt{TrafficClass: 0, FlowID: 1, PathType: rtr.PathOneHop, SrcIA: uint64(tp.ASes[a].IA), DstIA: uint64(tp.ASes[b].IA),
						Src: hostOf(a, "src"), Dst: hostOf(b, "dst"), Segs: []rtr.Seg{{ConsDir: true, SegID: segID, TS: ts, Hops: []rtr.Hop{hop}}}}
					pk.SetUDP(40000, 50000, []byte("c03-onehop"))
					raw, _ := pk.Serialize()
					req := n.Inject(raw, a, tp.ASes[a].BROf[ifA])
					okey := fmt.Sprintf("%s|onehop|%s#%d>%s", tp.Name, tp.ASes[a].IA, ifA, tp.ASes[b].IA)
					if !req.Delivered || req.DeliveredAS != b || len(req.Crossings) != 1 {
						r.Outcome("onehop-request-not-delivered(recorded)")
						r.Extra["onehop_request_not_delivered_example"] = okey + " -> " + req.String()
						continue
					}
					reply(n, tp, okey, req, a, b, []string{"onehop.Reverse", "ReplyPather"})
				}
			}
		}
		r.AddGraph(walks, hops, walks)
		r.Extra["reply_walks"] = walks
		r.Extra["epic_requests_delivered"] = epicDelivered
		r.Extra["epic_requests_not_delivered"] = epicUndelivered
	})
	r.Assumptions = []string{"the precondition 'delivered along a valid path' is established by walking the request through the real routers first; requests that are not delivered are outside the statement (EPIC ones are counted and one example is recorded)",
		"the reply is sent by the destination host to the border router that owns the interface the request entered the AS on"}
	r.Finish(3)
}
