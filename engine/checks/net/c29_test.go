package net

import (
	"fmt"
	"strings"
	"testing"

	"github.com/scionproto/scion/pkg/addr"
	seg "github.com/scionproto/scion/pkg/segment"
	"github.com/scionproto/scion/private/path/combinator"

	"verif/mc"
	"verif/netsim"
)

// c29Supply is one choice of the segments handed to Combine for a pair.
type c29Supply struct {
	name              string
	ups, cores, downs []*seg.PathSegment
}

// c29Supplies enumerates the supplied sets for one pair: the full sets, then every single up segment / every single
// down segment / every (up, down) pair with all core segments, without core segments, and (triples) with every
// single core segment.
func c29Supplies(ups, cores, downs []*seg.PathSegment, triples bool) []c29Supply {
	out := []c29Supply{{"all", ups, cores, downs}}
	one := func(l []*seg.PathSegment, i int) []*seg.PathSegment {
		if i < 0 {
			return nil
		}
		return l[i : i+1]
	}
	if len(cores) > 0 && (len(ups) > 0 || len(downs) > 0) {
		out = append(out, c29Supply{"all-but-cores", ups, nil, downs})
	}
	for u := -1; u < len(ups); u++ {
		for d := -1; d < len(downs); d++ {
			sameAsAll := (u == 0 && len(ups) == 1 || u < 0 && len(ups) == 0) && (d == 0 && len(downs) == 1 || d < 0 && len(downs) == 0)
			if u < 0 && d < 0 {
				continue
			}
			if !sameAsAll {
				out = append(out, c29Supply{fmt.Sprintf("up%d,cores,down%d", u, d), one(ups, u), cores, one(downs, d)})
			}
			if len(cores) > 0 && u >= 0 && d >= 0 && !sameAsAll {
				out = append(out, c29Supply{fmt.Sprintf("up%d,-,down%d", u, d), one(ups, u), nil, one(downs, d)})
			}
			if triples {
				for c := range cores {
					out = append(out, c29Supply{fmt.Sprintf("up%d,core%d,down%d", u, c, d), one(ups, u), one(cores, c), one(downs, d)})
				}
			}
		}
	}
	if triples {
		for c := range cores {
			out = append(out, c29Supply{fmt.Sprintf("-,core%d,-", c), nil, one(cores, c), nil})
		}
	}
	return out
}

func TestC29(t *testing.T) {
	r := mc.NewRun(t, "C29", mc.Exploration)
	r.Rule = "topology family (netsim.CombFamily incl. multi-ISD members whose ISDs re-use the same AS numbers, a shape with every link kind doubled, and every member with parallel links renumbered so that the " +
		"parallel links differ, at both ends, only in one high bit (8..15) resp. only in the low byte of the 16-bit interface number; real beaconing along all loop-free walks) x segment-set variants (one generation; two generations in " +
		"both supply orders; newer generation expiring earlier through one AS; older generation lacking the last peering link; segments of all ASes " +
		"supplied; detachable EPIC extension on all ASes / every second AS / each single AS / one of two generations; static-info + discovery extensions on all / every second AS, also together with EPIC) x all ordered AS pairs x supplied subsets (everything; without cores; every single up / single down / (up,down) pair with all, " +
		"none and each single core segment) x findAllIdentical {false,true} x every join found by the clean-room enumerator; distinct key = " +
		"variant + pair + subset + mode + join (segments, cut points, peering entry); non-trivial = joins that are not excluded as loops"
	thorough := mc.Thorough()
	maxLen := mc.Pick(5, 6)
	topos := netsim.CombFamily(mc.Pick(0, 1))
	// interface-number dimension (c29x_ifids_test.go): a shape with every link kind doubled, and every member with
	// parallel links renumbered so that the parallel links differ in one part of the 16-bit interface number only
	nFamily := len(topos)
	topos = append(topos, c29AliasTopos(topos, thorough)...)
	var nSets, nCombine, nJoins, nLoops, nSeqs int64
	bubble(t, func(t *testing.T) {
	topoLoop:
		for ti, tp := range topos {
			for _, v := range c28Variants(tp, thorough) {
				// MTU-only perturbations do not change which joins exist
				if !(strings.HasPrefix(v.Name, "base") || strings.HasPrefix(v.Name, "2gen") || strings.HasPrefix(v.Name, "epic") || strings.HasPrefix(v.Name, "ext")) {
					continue
				}
				// renumbered members: one generation, two generations, EPIC (the joins are those of the base member)
				if ti >= nFamily && strings.Contains(tp.Name, "/ifid-alias=") && !(v.Name == "base" || thorough && (v.Name == "2gen/old-first" || v.Name == "epic:all")) {
					continue
				}
				if r.OutOfBudget() {
					r.Capped(fmt.Sprintf("budget reached in topology %d of %d (%s)", ti+1, len(topos), tp.Name))
					break topoLoop
				}
				vname := tp.Name + "|" + v.Name
				ss, err := c28Beacon(v, maxLen)
				if err != nil {
					r.HarnessError("%s: %v", vname, err)
					continue
				}
				nSets++
				// subsets are enumerated on one-generation sets and on the plain two-generation sets; the remaining variants
				// are checked with everything supplied
				subsets := v.Name == "base" || v.Name == "2gen/old-first" || v.Name == "2gen/old-lacks-last-peering-link" || v.Name == "epic:all" || v.Name == "ext:all+epic:all"
				for src := range tp.ASes {
					for dst := range tp.ASes {
						if src == dst {
							continue
						}
						srcIA, dstIA := tp.ASes[src].IA, tp.ASes[dst].IA
						ups, cores, downs := ss.inputs(v, src, dst)
						supplies := []c29Supply{{"all", ups, cores, downs}}
						if subsets {
							supplies = c29Supplies(ups, cores, downs, thorough || v.Name == "base")
						}
						for _, sup := range supplies {
							c29Check(r, vname, srcIA, dstIA, sup, &nCombine, &nJoins, &nLoops, &nSeqs)
						}
					}
				}
			}
		}
	})
	r.Extra["topologies"] = len(topos)
	r.Extra["topologies_with_aliased_interface_numbers"] = len(topos) - nFamily - 1
	r.Extra["segment_sets"] = nSets
	r.Extra["combine_calls"] = nCombine
	r.Extra["joins_required"] = nJoins
	r.Extra["joins_excluded_as_loops"] = nLoops
	r.Extra["distinct_interface_sequences_required"] = nSeqs
	r.Extra["max_beacon_walk_len"] = maxLen
	r.Assumptions = []string{
		"an up segment is usable from its last AS entry (= source) only, a down segment towards its last AS entry (= destination) only, a core segment as a whole " +
			"from its last to its first entry (the direction in which the combinator is documented to use them)",
		"a destination lying inside the up segment (or a source inside the down segment) counts as a join with a cut segment (on-path case)",
		"'passes some AS more than twice' = some AS owns more than two entries of the interface sequence (filterLongPaths documentation)",
		"the interface sequence of a returned path is taken from the model join whose info/hop fields equal the returned raw path, or from Metadata.Interfaces " +
			"if there is none (C28 checks that the two agree)",
	}
	r.Finish(8)
}

func c29Check(r *mc.Run, vname string, srcIA, dstIA addr.IA, sup c29Supply, nCombine, nJoins, nLoops, nSeqs *int64) {
	cands := c28Enumerate(srcIA, dstIA, sup.ups, sup.cores, sup.downs)
	byRaw := map[string]string{}
	for i := range cands {
		if cands[i].Err != "" {
			r.HarnessError("%s %s>%s: candidate %v: %s", vname, srcIA, dstIA, c28UsesString(&cands[i]), cands[i].Err)
			return
		}
		byRaw[c28SegsKey(cands[i].Segs)] = c28IfaceKey(cands[i].Ifaces)
	}
	for _, all := range []bool{false, true} {
		var paths []combinator.Path
		det := map[string]any{"variant": vname, "src": srcIA.String(), "dst": dstIA.String(), "findAllIdentical": all, "supplied": sup.name,
			"segments_supplied": fmt.Sprintf("%d up, %d core, %d down", len(sup.ups), len(sup.cores), len(sup.downs))}
		if pn := mc.Safely(func() { paths = combinator.Combine(srcIA, dstIA, sup.ups, sup.cores, sup.downs, all) }); pn != nil {
			// nothing is returned for this pair: every required join is lost
			lost := 0
			for i := range cands {
				if c28MaxPerAS(cands[i].Ifaces) <= 2 {
					lost++
				}
			}
			det["panic"], det["required_joins_lost"] = pn, lost
			r.Violation("combine-panics-on-beacon-built-segments", det)
			continue
		}
		*nCombine++
		got := map[string]bool{}
		for _, p := range paths {
			ik := c28IfaceKey(c28MetaIfaces(p))
			if raw, err := c28ParseRaw(p.SCIONPath.Raw); err == nil {
				if mk, ok := byRaw[c28SegsKey(raw.Segs)]; ok {
					ik = mk
				}
			}
			got[ik] = true
		}
		if len(cands) == 0 {
			r.Outcome("no-join-exists")
			if len(paths) == 0 {
				r.Case(fmt.Sprintf("%s|%s>%s|%s|%v|none", vname, srcIA, dstIA, sup.name, all), false)
			}
			continue
		}
		seqs := map[string]bool{}
		for i := range cands {
			c := &cands[i]
			ik := c28IfaceKey(c.Ifaces)
			key := fmt.Sprintf("%s|%s>%s|%s|%v|%v", vname, srcIA, dstIA, sup.name, all, c28UsesString(c))
			if c28MaxPerAS(c.Ifaces) > 2 {
				*nLoops++
				r.Case(key, false)
				r.Outcome("excluded-as-loop/" + c.Kind)
				continue
			}
			r.Case(key, true)
			*nJoins++
			if !seqs[ik] {
				seqs[ik] = true
				*nSeqs++
			}
			if c28SharedNumber(c.Ifaces) {
				r.Outcome("required-though-as-numbers-repeat-across-isds")
			}
			if got[ik] {
				r.Outcome("returned/" + c.Kind)
				if *nJoins%20011 == 1 {
					r.Sample(map[string]any{"case": det, "join": c28UsesString(c), "kind": c.Kind, "interfaces": ik, "paths_returned": len(paths)})
				}
				continue
			}
			d := map[string]any{"join": c28UsesString(c), "kind": c.Kind, "interfaces_expected": ik, "paths_returned": len(paths)}
			for k, v := range det {
				d[k] = v
			}
			var ret []string
			for k := range got {
				ret = append(ret, k)
			}
			d["interface_sequences_returned"] = ret
			r.Violation("join-not-returned/"+c.Kind, d)
		}
	}
}
