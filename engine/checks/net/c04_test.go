package net

import (
	"fmt"
	"testing"

	"verif/mc"
	"verif/netsim"
	"verif/rtr"
)

// c04Field is one MAC-protected value of a path.
type c04Field struct {
	name string
	off  int // byte offset in the packet
	bits int
	hop  int // hop index (hop fields) or -1
	inf  int // info index (info fields) or -1
}

func TestC04(t *testing.T) {
	r := mc.NewRun(t, "C04", mc.ModelChecking)
	r.Rule = "every valid forwarding path of the C02 generator (quick: every 2nd topology) x every hop field {ConsIngress, ConsEgress, " +
		"ExpTime, MAC} and every info field {Timestamp, SegID} x single-bit flips (quick: bits 0,7,15,.. of each value; thorough: every " +
		"bit); the tampered packet is walked through the real routers. distinct key = path + field + bit"
	level := mc.Pick(0, 1)
	maxLen := mc.Pick(4, 5)
	topos := netsim.Family(level)
	bubble(t, func(t *testing.T) {
		var walks, hops int64
		for ti, tp := range topos {
			if !mc.Thorough() && ti%2 == 1 {
				continue
			}
			if r.OutOfBudget() {
				r.Capped(fmt.Sprintf("budget reached after %d of %d topologies", ti, len(topos)))
				break
			}
			n, err := netsim.Build(tp)
			if err != nil {
				r.HarnessError("build %s: %v", tp.Name, err)
				continue
			}
			if err := n.Beacon(maxLen); err != nil {
				r.HarnessError("beaconing %s: %v", tp.Name, err)
				continue
			}
			for src := range tp.ASes {
				for dst := range tp.ASes {
					if src == dst {
						continue
					}
					for _, p := range pathsBetween(n, src, dst, false) {
						pk := packetFor(n, src, dst, p, []byte("c04-payload"))
						raw, lay := pk.Serialize()
						base := n.Inject(raw, src, firstBR(n, src, p))
						if !base.Delivered || base.SCMPFrom >= 0 || base.DeliveredAS != dst {
							continue // C02's business
						}
						// which AS validates hop h first? AS sequence of the untampered walk: the k-th AS visited owns
						// the hop fields current while the packet is inside it.
						asSeq := []int{src}
						for _, c := range base.Crossings {
							asSeq = append(asSeq, c.To)
						}
						// owner position of every hop field: hop fields are traversed in order; an AS at a cross-over owns two
						hopOwner := c04HopOwner(raw, lay)
						infOwner := make([]int, len(lay.InfoOff))
						{
							h := 0
							for s, l := range segLensOf(raw, lay.MetaOff) {
								infOwner[s] = hopOwner[h] // first hop of the segment in travel order is validated first
								h += l
							}
						}
						var fields []c04Field
						for h, o := range lay.HopOff {
							fields = append(fields, c04Field{"hop.ExpTime", o + 1, 8, h, -1}, c04Field{"hop.ConsIngress", o + 2, 16, h, -1},
								c04Field{"hop.ConsEgress", o + 4, 16, h, -1}, c04Field{"hop.MAC", o + 6, 48, h, -1})
						}
						for s, o := range lay.InfoOff {
							fields = append(fields, c04Field{"info.SegID", o + 2, 16, -1, s}, c04Field{"info.Timestamp", o + 4, 32, -1, s})
						}
						pkey := fmt.Sprintf("%s|%s>%s|%s", tp.Name, tp.ASes[src].IA, tp.ASes[dst].IA, metaSeq(p))
						for _, f := range fields {
							for bit := 0; bit < f.bits; bit++ {
								if !mc.Thorough() && bit%8 != 0 && bit%8 != 7 {
									continue
								}
								tam := append([]byte{}, raw...)
								tam[f.off+bit/8] ^= 0x80 >> (bit % 8)
								o := n.Inject(tam, src, firstBR(n, src, p))
								walks++
								hops += int64(len(o.Steps))
								key := fmt.Sprintf("%s|%s[h%d,i%d]bit%d", pkey, f.name, f.hop, f.inf, bit)
								r.Case(key, true)
								det := map[string]any{"case": key, "outcome": o.String(), "crossings": ifaceSeq(n, o.Crossings), "packet": fmt.Sprintf("%x", tam)}
								ownerPos := 0
								if f.hop >= 0 {
									ownerPos = hopOwner[f.hop]
								} else {
									ownerPos = infOwner[f.inf]
								}
								// where was it rejected? position = number of crossings made before the rejecting router
								rejectPos := -1
								if o.SCMPFrom >= 0 {
									rejectPos = crossingsBefore(o, o.SCMPStep)
								} else if o.Dropped {
									rejectPos = len(o.Crossings)
								}
								switch {
								case o.Err != "":
									r.Violation("walk-error", det)
								case o.Delivered && o.SCMPFrom < 0 && o.DeliveredAS == dst:
									r.Violation("tampered-packet-delivered:"+f.name, det)
								case o.Delivered && o.SCMPFrom < 0:
									r.Violation("tampered-packet-delivered-to-a-host-elsewhere:"+f.name, det)
								case rejectPos > ownerPos:
									det["rejected_after_crossings"], det["owner_after_crossings"] = rejectPos, ownerPos
									r.Violation("rejected-too-late:"+f.name, det)
								case o.SCMPFrom >= 0:
									r.Outcome("rejected-scmp:" + f.name)
								default:
									r.Outcome("rejected-drop:" + f.name)
								}
								if walks%20011 == 1 {
									r.Sample(det)
								}
							}
						}
					}
				}
			}
		}
		r.AddGraph(walks, hops, walks)
		r.Extra["tampered_walks"] = walks
	})
	r.Assumptions = []string{"'the first border router that validates a hop field whose MAC input depends on the value' is the AS owning the hop field, and for info-field values the AS owning the first hop field of that segment in travel direction",
		"an SCMP error returned to the source host counts as rejection, not as delivery"}
	r.Finish(2)
}

func segLensOf(raw []byte, metaOff int) []int {
	w := uint32(raw[metaOff])<<24 | uint32(raw[metaOff+1])<<16 | uint32(raw[metaOff+2])<<8 | uint32(raw[metaOff+3])
	var out []int
	for _, sh := range []uint{12, 6, 0} {
		if l := int(w>>sh) & 63; l > 0 {
			out = append(out, l)
		}
	}
	return out
}

// crossingsBefore: number of inter-AS crossings made before step k of the walk.
func crossingsBefore(o netsim.Outcome, k int) int {
	n := 0
	for i := 1; i <= k && i < len(o.Steps); i++ {
		if o.Steps[i].AS != o.Steps[i-1].AS {
			n++
		}
	}
	return n
}

// c04HopOwner: position (number of crossings made before) of the AS owning each hop field: hop fields are traversed in
// order; an AS at a cross-over owns the last hop field of one segment and the first of the next, unless the segments
// are joined by a peering link (then those are two ASes).
func c04HopOwner(raw []byte, lay rtr.Layout) []int {
	hopOwner := make([]int, len(lay.HopOff))
	pos, h := 0, 0
	segLens := segLensOf(raw, lay.MetaOff)
	segEnd := 0
	for s, l := range segLens {
		segEnd += l
		for ; h < segEnd; h++ {
			hopOwner[h] = pos
			if h < segEnd-1 {
				pos++
			}
		}
		if s+1 < len(segLens) && (raw[lay.InfoOff[s]]&2) != 0 {
			pos++
		}
	}
	return hopOwner
}
