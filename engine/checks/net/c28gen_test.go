package net

// Enumeration of the segment sets for the combinator checks C28/C29: topology family x parameter perturbations.
// Segments are signed by the real extender, so "one entry's ExpTime / MTU / ingress MTU changed" is realised by
// changing the corresponding topology parameter (per-AS MaxExpTime, per-AS MTU, per-link MTU) and re-running the real
// beaconing; duplicate segments with other timestamps come from a second, older beaconing generation.

import (
	"fmt"
	"time"

	seg "github.com/scionproto/scion/pkg/segment"

	"verif/netsim"
)

type c28Variant struct {
	Name     string
	New      *netsim.Topo // beaconed at the build instant
	Old      *netsim.Topo // if non-nil: an older generation of beacons (10 minutes earlier) from this topology
	OldFirst bool         // order in which the two generations are handed to the combinator
	Superset bool         // hand the combinator the up/down segments of every AS, not only those of src / dst
	// Ext: ASes (by index) whose AS entries carry the optional signed extensions static info + discovery information
	Ext func(as int) bool
	// Resign: name of a c28ResignModes perturbation; the segments of the newer generation are rebuilt with it
	Resign string
}

func c28Variants(tp *netsim.Topo, thorough bool) []c28Variant {
	var vs []c28Variant
	mod := func(f func(c *netsim.Topo)) *netsim.Topo {
		c := tp.Clone()
		if f != nil {
			f(c)
		}
		return c
	}
	vs = append(vs, c28Variant{Name: "base", New: mod(nil)})
	vs = append(vs, c28Variant{Name: "base/superset", New: mod(nil), Superset: true})
	for a := range tp.ASes {
		vs = append(vs, c28Variant{Name: fmt.Sprintf("as%d:mtu=1200,maxexp=20", a), New: mod(func(c *netsim.Topo) {
			c.ASes[a].MTU, c.ASes[a].MaxExp = 1200, 20
		})})
	}
	for l := range tp.Links {
		vs = append(vs, c28Variant{Name: fmt.Sprintf("link%d:mtu=1100", l), New: mod(func(c *netsim.Topo) { c.Links[l].MTU = 1100 })})
	}
	// two generations with identical parameters: every interface sequence exists with two timestamps
	vs = append(vs, c28Variant{Name: "2gen/old-first", New: mod(nil), Old: mod(nil), OldFirst: true})
	vs = append(vs, c28Variant{Name: "2gen/new-first", New: mod(nil), Old: mod(nil)})
	vs = append(vs, c28Variant{Name: "2gen/superset", New: mod(nil), Old: mod(nil), OldFirst: true, Superset: true})
	// the newer generation expires EARLIER wherever it passes AS a (short MaxExpTime there): latest timestamp and
	// latest expiry disagree
	for a := range tp.ASes {
		vs = append(vs, c28Variant{Name: fmt.Sprintf("2gen/new:as%d:maxexp=10", a), Old: mod(nil), OldFirst: a%2 == 0,
			New: mod(func(c *netsim.Topo) { c.ASes[a].MaxExp = 10 })})
	}
	// segments carrying the detachable EPIC extension (unsigned, per AS entry: authenticators of the hop entry and of
	// every peer entry): on every AS, on every second AS, on a single AS, and generations with / without it mixed
	epic := func(on func(a int) bool) func(c *netsim.Topo) {
		return func(c *netsim.Topo) {
			for a := range c.ASes {
				c.ASes[a].EPIC = on(a)
			}
		}
	}
	everyAS := func(int) bool { return true }
	vs = append(vs, c28Variant{Name: "epic:all", New: mod(epic(everyAS))})
	vs = append(vs, c28Variant{Name: "epic:even-ases", New: mod(epic(func(a int) bool { return a%2 == 0 }))})
	vs = append(vs, c28Variant{Name: "epic:odd-ases", New: mod(epic(func(a int) bool { return a%2 == 1 }))})
	for a := range tp.ASes {
		vs = append(vs, c28Variant{Name: fmt.Sprintf("epic:only-as%d", a), New: mod(epic(func(x int) bool { return x == a }))})
	}
	vs = append(vs, c28Variant{Name: "2gen/new:epic:all", New: mod(epic(everyAS)), Old: mod(nil), OldFirst: true})
	vs = append(vs, c28Variant{Name: "2gen/old:epic:all", New: mod(nil), Old: mod(epic(everyAS))})
	// optional signed extensions (static info, discovery information), alone and together with EPIC
	vs = append(vs, c28Variant{Name: "ext:all", New: mod(nil), Ext: everyAS})
	vs = append(vs, c28Variant{Name: "ext:even-ases", New: mod(nil), Ext: func(a int) bool { return a%2 == 0 }})
	vs = append(vs, c28Variant{Name: "ext:odd-ases", New: mod(nil), Ext: func(a int) bool { return a%2 == 1 }})
	vs = append(vs, c28Variant{Name: "ext:all+epic:all", New: mod(epic(everyAS)), Ext: everyAS})
	vs = append(vs, c28Variant{Name: "2gen/new:ext:all+epic:all", New: mod(epic(everyAS)), Old: mod(nil), Ext: everyAS})
	if thorough {
		for a := range tp.ASes {
			vs = append(vs, c28Variant{Name: fmt.Sprintf("ext:only-as%d", a), New: mod(nil), Ext: func(x int) bool { return x == a }})
		}
		vs = append(vs, c28Variant{Name: "epic:all/superset", New: mod(epic(everyAS)), Superset: true})
		for a := range tp.ASes {
			vs = append(vs, c28Variant{Name: fmt.Sprintf("epic:all-but-as%d", a), New: mod(epic(func(x int) bool { return x != a }))})
		}
	}
	// re-built segments whose hop / peer entries carry values the real extender never combines (see c28resign_test.go):
	// quick on the members with peering links, thorough everywhere; also as the newer of two generations
	hasPeer := false
	for _, l := range tp.Links {
		hasPeer = hasPeer || l.Kind == netsim.PeerLink
	}
	if hasPeer || thorough {
		for _, m := range c28ResignModes {
			vs = append(vs, c28Variant{Name: "resign:" + m.name, New: mod(nil), Resign: m.name})
		}
		vs = append(vs, c28Variant{Name: "2gen/new:resign:peer-exp-lower", New: mod(nil), Old: mod(nil), OldFirst: true, Resign: "peer-exp-lower"})
		vs = append(vs, c28Variant{Name: "2gen/new:resign:exp-all-distinct", New: mod(nil), Old: mod(nil), Resign: "exp-all-distinct"})
	}
	// the older generation predates the last peering link: its segments do not announce it (a peering link announced
	// by one side only must not be used when generations are mixed)
	if nl := len(tp.Links); nl > 0 && tp.Links[nl-1].Kind == netsim.PeerLink {
		vs = append(vs, c28Variant{Name: "2gen/old-lacks-last-peering-link", New: mod(nil), OldFirst: true,
			Old: mod(func(c *netsim.Topo) { c.Links = c.Links[:nl-1] })})
	}
	if !thorough {
		return vs
	}
	for a := range tp.ASes {
		for b := range tp.ASes {
			if a == b {
				continue
			}
			vs = append(vs, c28Variant{Name: fmt.Sprintf("as%d:mtu=1200,maxexp=20;as%d:mtu=1210,maxexp=25", a, b), New: mod(func(c *netsim.Topo) {
				c.ASes[a].MTU, c.ASes[a].MaxExp = 1200, 20
				c.ASes[b].MTU, c.ASes[b].MaxExp = 1210, 25
			})})
		}
		for l := range tp.Links {
			vs = append(vs, c28Variant{Name: fmt.Sprintf("as%d:mtu=1200;link%d:mtu=1190", a, l), New: mod(func(c *netsim.Topo) {
				c.ASes[a].MTU = 1200
				c.Links[l].MTU = 1190
			})})
			vs = append(vs, c28Variant{Name: fmt.Sprintf("as%d:mtu=1200;link%d:mtu=1210", a, l), New: mod(func(c *netsim.Topo) {
				c.ASes[a].MTU = 1200
				c.Links[l].MTU = 1210
			})})
		}
	}
	for l := range tp.Links {
		for m := range tp.Links {
			if l != m {
				vs = append(vs, c28Variant{Name: fmt.Sprintf("link%d:mtu=1100;link%d:mtu=1110", l, m), New: mod(func(c *netsim.Topo) {
					c.Links[l].MTU, c.Links[m].MTU = 1100, 1110
				})})
			}
		}
	}
	for a := range tp.ASes {
		for b := range tp.ASes {
			if a < b {
				vs = append(vs, c28Variant{Name: fmt.Sprintf("2gen/new:as%d:maxexp=10;old:as%d:maxexp=5", a, b), OldFirst: (a+b)%2 == 0,
					New: mod(func(c *netsim.Topo) { c.ASes[a].MaxExp = 10 }), Old: mod(func(c *netsim.Topo) { c.ASes[b].MaxExp = 5 })})
			}
		}
	}
	return vs
}

// c28SegSet is one input to the combinator checks.
type c28SegSet struct {
	N    *netsim.Net // network of the newer generation (topology ground truth: MTUs, links)
	Up   map[int][]*seg.PathSegment
	Core []*seg.PathSegment
	All  []*seg.PathSegment // every up/down segment of every AS (for the superset variants)
	// Rebuilt: the segments were re-built with perturbed entries; MTUs / interfaces no longer mirror the topology
	Rebuilt bool
}

// c28Beacon builds the network(s) of the variant and runs the real beaconing. Must run inside the bubble.
func c28Beacon(v c28Variant, maxLen int) (*c28SegSet, error) {
	n, err := netsim.BuildControlPlaneExt(v.New, v.Ext)
	if err != nil {
		return nil, fmt.Errorf("build: %w", err)
	}
	if err := n.Beacon(maxLen); err != nil {
		return nil, fmt.Errorf("beaconing: %w", err)
	}
	s := &c28SegSet{N: n, Up: map[int][]*seg.PathSegment{}}
	gens := []*netsim.Net{n}
	if v.Old != nil {
		o, err := netsim.BuildControlPlane(v.Old)
		if err != nil {
			return nil, fmt.Errorf("build (old generation): %w", err)
		}
		if err := o.BeaconAt(n.BuiltAt().Add(-10*time.Minute), maxLen); err != nil {
			return nil, fmt.Errorf("beaconing (old generation): %w", err)
		}
		if v.OldFirst {
			gens = []*netsim.Net{o, n}
		} else {
			gens = []*netsim.Net{n, o}
		}
	}
	for _, g := range gens {
		for as := range v.New.ASes {
			up := g.Up[as]
			if v.Resign != "" && g == n {
				if up, err = c28ResignAll(n, up, v.Resign); err != nil {
					return nil, fmt.Errorf("re-building segments: %w", err)
				}
			}
			s.Up[as] = append(s.Up[as], up...)
		}
		core := g.Core
		if v.Resign != "" && g == n {
			if core, err = c28ResignAll(n, core, v.Resign); err != nil {
				return nil, fmt.Errorf("re-building segments: %w", err)
			}
		}
		s.Core = append(s.Core, core...)
	}
	s.Rebuilt = v.Resign != ""
	for as := range v.New.ASes {
		s.All = append(s.All, s.Up[as]...)
	}
	return s, nil
}

// c28Inputs returns the segment lists handed to Combine for (src,dst).
func (s *c28SegSet) inputs(v c28Variant, src, dst int) (ups, cores, downs []*seg.PathSegment) {
	if v.Superset {
		return s.All, s.Core, s.All
	}
	if !s.N.T.ASes[src].Core {
		ups = s.Up[src]
	}
	if !s.N.T.ASes[dst].Core {
		downs = s.Up[dst]
	}
	return ups, s.Core, downs
}
