package net

import (
	"encoding/binary"
	"fmt"
	"testing"
	"time"

	"github.com/scionproto/scion/router"

	"verif/mc"
	"verif/netsim"
	"verif/rtr"
)

type downLink struct{ router.Link }

func (downLink) IsUp() bool { return false }

// c10Reply parses what the source host received: SCMP type/code and the message body (after the 4-byte SCMP header).
func c10Reply(raw []byte) (typ, code uint8, body []byte, ok bool) {
	if len(raw) < 12 {
		return
	}
	hdr := int(raw[5]) * 4
	next := raw[4]
	off := hdr
	for next == rtr.L4HBH || next == rtr.L4E2E {
		if off+2 > len(raw) {
			return
		}
		next = raw[off]
		off += (int(raw[off+1]) + 1) * 4
	}
	if next != rtr.L4SCMP || off+4 > len(raw) {
		return
	}
	return raw[off], raw[off+1], raw[off+4:], true
}

func TestC10(t *testing.T) {
	r := mc.NewRun(t, "C10", mc.ModelChecking)
	r.Rule = "the path space of C02 (SCION carriage) x a fault injected at every position: (a) invalid MAC on each later hop field, " +
		"(b) each used egress interface down at its owner, and the sibling link towards the owner down at the ingress router, " +
		"(c) a hop field expired at one AS only (that AS issues short-lived hop fields, virtual clock advanced), (d) a traceroute " +
		"request with the ingress or egress router-alert flag on each hop field; each with an IPv4 and an IPv6 source host; the SCMP message the real router produces is walked " +
		"back through the real routers to the source host"
	level := mc.Pick(0, 1)
	maxLen := mc.Pick(4, 5)
	bubble(t, func(t *testing.T) {
		var walks, hops int64
		judge := func(n *netsim.Net, tp *netsim.Topo, key string, o netsim.Outcome, src int, wantFrom int, wantType uint8, wantPort int, check func(body []byte) string) {
			walks++
			hops += int64(len(o.Steps))
			r.Case(key, true)
			det := map[string]any{"case": key, "outcome": o.String(), "crossings": ifaceSeq(n, o.Crossings)}
			if len(o.Steps) > 0 {
				det["packet"] = fmt.Sprintf("%x", o.Steps[0].InBytes)
				l := o.Steps[len(o.Steps)-1]
				det["last_step"] = fmt.Sprintf("AS %s br %d in=%v disp=%d scmp=(%d,%d,%d)", tp.ASes[l.AS].IA, l.BR, l.In, l.Disp, l.SPType, l.SPCode, l.SPPtr)
			}
			cls := key[:indexByte(key, ':')]
			switch {
			case o.Err != "":
				r.Violation("walk-error", det)
			case o.SCMPFrom < 0:
				r.HarnessError("fault did not trigger an SCMP message: %s -> %s", key, o.String())
			case wantFrom >= 0 && o.SCMPFrom != wantFrom:
				det["scmp_from"] = tp.ASes[o.SCMPFrom].IA.String()
				r.Violation("answered-by-another-as:"+cls, det)
			case !o.Delivered || o.DeliveredAS != src:
				r.Violation("scmp-reply-lost-on-the-way-back:"+cls, det)
			case o.SCMPFrom == src && len(o.Crossings) == 0 && o.DeliveredTo == netsim.HostUnderlay(src):
				// answered by the first router: the message goes back to the underlay address the packet came from
				r.Outcome("reply-delivered-by-first-router:" + cls)
			case !srcHostV6 && o.DeliveredTo != fmt.Sprintf("10.%d.1.10:%d", src+1, wantPort),
				srcHostV6 && o.DeliveredTo != fmt.Sprintf("[fd00:%x::10]:%d", src+1, wantPort):
				r.Violation("scmp-reply-delivered-to-wrong-host-or-port:"+cls, det)
			default:
				typ, _, body, ok := c10Reply(o.DeliveredRaw)
				if !ok || typ != wantType {
					det["delivered"] = fmt.Sprintf("%x", o.DeliveredRaw)
					r.Violation("delivered-message-is-not-the-expected-scmp:"+cls, det)
					break
				}
				if check != nil {
					if msg := check(body); msg != "" {
						det["problem"] = msg
						r.Violation("scmp-content:"+cls, det)
						break
					}
				}
				r.Outcome("reply-delivered:" + cls)
			}
			if walks%4001 == 1 {
				r.Sample(det)
			}
		}
		type job struct {
			tp      *netsim.Topo
			shortAS int // AS issuing short-lived hop fields (-1: none)
		}
		var jobs []job
		for ti, tp := range netsim.Family(level) {
			if !mc.Thorough() && ti%2 != 0 {
				continue
			}
			jobs = append(jobs, job{tp, -1})
		}
		for ti, tp := range netsim.Family(level) {
			if !mc.Thorough() && ti%9 != 1 {
				continue
			}
			for as := range tp.ASes {
				jobs = append(jobs, job{tp, as})
			}
		}
		for ji, jb := range jobs {
			if r.OutOfBudget() {
				r.Capped(fmt.Sprintf("budget reached after %d of %d jobs", ji, len(jobs)))
				break
			}
			tp := jb.tp
			for i := range tp.ASes {
				tp.ASes[i].MaxExp = 63
				if i == jb.shortAS {
					tp.ASes[i].MaxExp = 1 // 675 s
				}
			}
			n, err := netsim.Build(tp)
			if err != nil {
				r.HarnessError("build %s: %v", tp.Name, err)
				continue
			}
			if err := n.Beacon(maxLen); err != nil {
				r.HarnessError("beaconing %s: %v", tp.Name, err)
				continue
			}
			if jb.shortAS >= 0 {
				time.Sleep(700 * time.Second) // the hop fields of shortAS (and only those) are expired now
			}
			for src := range tp.ASes {
				for dst := range tp.ASes {
					if src == dst {
						continue
					}
					for _, p := range pathsBetween(n, src, dst, false) {
						for _, v6 := range []bool{false, true} { // address family of the source host: the reply is addressed to it
							srcHostV6 = v6
							pkey := fmt.Sprintf("%s|%s>%s|%s", tp.Name, tp.ASes[src].IA, tp.ASes[dst].IA, metaSeq(p))
							if v6 {
								pkey += "|src-host-ipv6"
							}
							pk := packetFor(n, src, dst, p, []byte("c10-payload"))
							raw, lay := pk.Serialize()
							if jb.shortAS >= 0 {
								// (c) expiry at one AS
								base := n.Inject(raw, src, firstBR(n, src, p))
								onPath := src == jb.shortAS
								for _, ifc := range p.Metadata.Interfaces {
									if ifc.IA == tp.ASes[jb.shortAS].IA {
										onPath = true
									}
								}
								if !onPath {
									continue
								}
								judge(n, tp, "expired:"+pkey+fmt.Sprintf("|as=%s", tp.ASes[jb.shortAS].IA), base, src, jb.shortAS, 4, 40000,
									func(b []byte) string { return "" })
								continue
							}
							base := n.Inject(raw, src, firstBR(n, src, p))
							if !base.Delivered || base.SCMPFrom >= 0 || base.DeliveredAS != dst {
								continue
							}
							asSeq := []int{src}
							for _, c := range base.Crossings {
								asSeq = append(asSeq, c.To)
							}
							// (a) invalid MAC on each hop field
							for h, off := range lay.HopOff {
								tam := append([]byte{}, raw...)
								tam[off+9] ^= 0x10
								o := n.Inject(tam, src, firstBR(n, src, p))
								judge(n, tp, fmt.Sprintf("badmac:%s|hop=%d", pkey, h), o, src, -1, 4, 40000, nil)
							}
							// (b) interfaces down
							for k, c := range base.Crossings {
								owner := tp.ASes[c.From].BROf[c.FromIf]
								rt := n.Routers[c.From][owner]
								orig := rt.VerifLink(c.FromIf)
								rt.VerifSetLink(c.FromIf, downLink{orig})
								o := n.Inject(raw, src, firstBR(n, src, p))
								rt.VerifSetLink(c.FromIf, orig)
								judge(n, tp, fmt.Sprintf("ifdown:%s|crossing=%d", pkey, k), o, src, c.From, 5, 40000, func(b []byte) string {
									if len(b) < 16 || binary.BigEndian.Uint64(b) != uint64(tp.ASes[c.From].IA) || binary.BigEndian.Uint64(b[8:]) != uint64(c.FromIf) {
										return fmt.Sprintf("external-interface-down body %x, want IA %s interface %d", b[:min(16, len(b))], tp.ASes[c.From].IA, c.FromIf)
									}
									return ""
								})
								// the sibling link towards the owner, at every other router of that AS the packet passes
								for _, st := range base.Steps {
									if st.AS != c.From || st.BR == owner || st.Egress != c.FromIf {
										continue
									}
									rt2 := n.Routers[c.From][st.BR]
									orig2 := rt2.VerifLink(c.FromIf)
									rt2.VerifSetLink(c.FromIf, downLink{orig2})
									o := n.Inject(raw, src, firstBR(n, src, p))
									rt2.VerifSetLink(c.FromIf, orig2)
									judge(n, tp, fmt.Sprintf("sibdown:%s|crossing=%d", pkey, k), o, src, c.From, 6, 40000, func(b []byte) string {
										if len(b) < 24 || binary.BigEndian.Uint64(b) != uint64(tp.ASes[c.From].IA) || binary.BigEndian.Uint64(b[16:]) != uint64(c.FromIf) {
											return fmt.Sprintf("internal-connectivity-down body %x, want IA %s egress %d", b[:min(24, len(b))], tp.ASes[c.From].IA, c.FromIf)
										}
										return ""
									})
								}
							}
							// (d) traceroute with a router-alert flag on each hop field / side
							body := make([]byte, 20)
							binary.BigEndian.PutUint16(body, 40001)
							binary.BigEndian.PutUint16(body[2:], 7)
							for extv := 0; extv < 4; extv++ {
								if extv > 0 && (extv != 1+int(walks)%3) {
									continue // plain request always; one of the three extension-header layouts per path, rotating
								}
								tr := packetFor(n, src, dst, p, nil)
								pad := []byte{1, 4, 0, 0, 0, 0}
								tr.HasHBH, tr.HasE2E = extv&1 != 0, extv&2 != 0
								if tr.HasHBH {
									tr.HBH = pad
								}
								if tr.HasE2E {
									tr.E2E = pad
								}
								tr.SetSCMP(130, 0, body)
								traw, tlay := tr.Serialize()
								for h, off := range tlay.HopOff {
									for _, flag := range []byte{2, 1} { // I: ConsIngress alert, E: ConsEgress alert
										ifID := binary.BigEndian.Uint16(traw[off+2:])
										if flag == 1 {
											ifID = binary.BigEndian.Uint16(traw[off+4:])
										}
										if ifID == 0 {
											continue // no interface on that side of the hop field
										}
										tam := append([]byte{}, traw...)
										tam[off] |= flag
										o := n.Inject(tam, src, firstBR(n, src, p))
										// the AS owning hop h (by position on the walked path) and whether the path really uses ifID there
										wantAS := asSeq[c04HopOwner(traw, tlay)[h]]
										used := false
										for _, c := range base.Crossings {
											if (c.From == wantAS && c.FromIf == ifID) || (c.To == wantAS && c.ToIf == ifID) {
												used = true
											}
										}
										if !used {
											continue // interface of a cut shortcut hop field, not traversed
										}
										trCheck := func(o netsim.Outcome) func(b []byte) string {
											return func(b []byte) string {
												if len(b) < 20 || binary.BigEndian.Uint16(b) != 40001 || binary.BigEndian.Uint16(b[2:]) != 7 ||
													binary.BigEndian.Uint64(b[4:]) != uint64(tp.ASes[wantAS].IA) || binary.BigEndian.Uint64(b[12:]) != uint64(ifID) {
													return fmt.Sprintf("traceroute reply body %x, want id 40001 seq 7 IA %s interface %d", b[:min(20, len(b))], tp.ASes[wantAS].IA, ifID)
												}
												st := o.Steps[o.SCMPStep]
												if tp.ASes[wantAS].BROf[ifID] != st.BR {
													return fmt.Sprintf("answered by border router %d, interface %d is owned by %d", st.BR, ifID, tp.ASes[wantAS].BROf[ifID])
												}
												return ""
											}
										}
										// the flagged interface is an egress interface of the path and its link is down: the traceroute request
										// is still answered by the router owning the interface (the statement makes no exception)
										for _, c := range base.Crossings {
											if c.From != wantAS || c.FromIf != ifID {
												continue
											}
											rtd := n.Routers[c.From][tp.ASes[c.From].BROf[c.FromIf]]
											origL := rtd.VerifLink(c.FromIf)
											rtd.VerifSetLink(c.FromIf, downLink{origL})
											od := n.Inject(tam, src, firstBR(n, src, p))
											rtd.VerifSetLink(c.FromIf, origL)
											judge(n, tp, fmt.Sprintf("traceroute+ifdown:%s|hop=%d|flag=%d|ext=%d", pkey, h, flag, extv), od, src, wantAS, 131, 40001, trCheck(od))
										}
										judge(n, tp, fmt.Sprintf("traceroute:%s|hop=%d|flag=%d|ext=%d", pkey, h, flag, extv), o, src, wantAS, 131, 40001, func(b []byte) string {
											if len(b) < 20 || binary.BigEndian.Uint16(b) != 40001 || binary.BigEndian.Uint16(b[2:]) != 7 ||
												binary.BigEndian.Uint64(b[4:]) != uint64(tp.ASes[wantAS].IA) || binary.BigEndian.Uint64(b[12:]) != uint64(ifID) {
												return fmt.Sprintf("traceroute reply body %x, want id 40001 seq 7 IA %s interface %d", b[:min(20, len(b))], tp.ASes[wantAS].IA, ifID)
											}
											// answered by the router owning the flagged interface
											st := o.Steps[o.SCMPStep]
											if tp.ASes[wantAS].BROf[ifID] != st.BR {
												return fmt.Sprintf("answered by border router %d, interface %d is owned by %d", st.BR, ifID, tp.ASes[wantAS].BROf[ifID])
											}
											return ""
										})
									}
								}
							}
						}
					}
				}
			}
		}
		srcHostV6 = false
		r.AddGraph(walks, hops, walks)
		r.Extra["fault_walks"] = walks
	})
	r.Assumptions = []string{"SCMP errors quoting a UDP packet are delivered to the quoted source port, traceroute replies to the identifier (C11's rule)",
		"interface-down is injected by replacing the link object with one whose IsUp() is false (real BFD sessions: C15/C16)",
		"expiry at one AS only: that AS issues hop fields with ExpTime 1 (675 s), all others 63; the virtual clock is advanced by 700 s"}
	r.Finish(3)
}

func indexByte(s string, c byte) int {
	for i := 0; i < len(s); i++ {
		if s[i] == c {
			return i
		}
	}
	return len(s)
}
