package misc

import (
	"fmt"
	"net/netip"
	"sort"
	"strconv"
	"sync"
	"testing"
	"time"

	"github.com/scionproto/scion/pkg/addr"

	"verif/mc"
)

// C46: ISD / AS / ISD-AS / SVC / host / full address text formats round-trip; parsers reject instead of mis-parsing.
//
// Part A (values -> text -> value): enumerates values and formatting options, compares the produced text with the
//   clean-room formatter of c46_ref.go and demands parse(format(v)) == v.
// Part B (text -> value): enumerates texts (all short strings over a small alphabet; all single/double edits of seed
//   texts) and compares every parser with the clean-room three-verdict parser: the implementation must accept
//   canonical texts, may accept lenient spellings but only with the reference value, and must reject the rest.

// ---- formatting options ----

type c46Opt struct {
	name   string
	prefix bool
	sepSet bool   // WithSeparator(sep) given
	file   bool   // WithFileSeparator()
	sep    string // separator the *reference* should use ("" when sepSet means the documented ':' fallback)
	swap   bool   // options passed in the other order
}

func (o c46Opt) opts() []addr.FormatOption {
	var out []addr.FormatOption
	if o.prefix {
		out = append(out, addr.WithDefaultPrefix())
	}
	if o.file {
		out = append(out, addr.WithFileSeparator())
	} else if o.sepSet {
		out = append(out, addr.WithSeparator(o.sep))
	}
	if o.swap && len(out) == 2 {
		out[0], out[1] = out[1], out[0]
	}
	return out
}

func (o c46Opt) emptySep() bool { return o.sepSet && o.sep == "" }

// refSepOf: separator of the reference (":" by default).
func (o c46Opt) refSepOf() string {
	switch {
	case o.file:
		return "_"
	case o.sepSet:
		return o.sep // "" -> ':' inside the reference
	}
	return ":"
}

// c46Separators: every printable ASCII character that is neither a hex digit nor '-' (those make the text
// ambiguous by construction), some multi-character and non-ASCII separators, and the empty one.
func c46Separators() []string {
	var seps []string
	for c := byte(0x20); c < 0x7f; c++ {
		if c == '-' || (c >= '0' && c <= '9') || (c >= 'a' && c <= 'f') || (c >= 'A' && c <= 'F') {
			continue
		}
		seps = append(seps, string(c))
	}
	seps = append(seps, "::", "~~", "_:_", ": ", "xyz", "→", "\t", "")
	return seps
}

func c46Options(all bool) []c46Opt {
	var out []c46Opt
	seps := c46Separators()
	if !all {
		seps = []string{"~", ""}
	}
	for _, prefix := range []bool{false, true} {
		p := ""
		if prefix {
			p = "prefix+"
		}
		out = append(out, c46Opt{name: p + "default", prefix: prefix})
		out = append(out, c46Opt{name: p + "file", prefix: prefix, file: true})
		for _, s := range seps {
			out = append(out, c46Opt{name: p + fmt.Sprintf("sep(%q)", s), prefix: prefix, sepSet: true, sep: s})
		}
	}
	out = append(out, c46Opt{name: "sep(\"_\")+prefix(swapped)", prefix: true, sepSet: true, sep: "_", swap: true})
	return out
}

// ---- value alphabets ----

func c46ASValues(thorough bool) []uint64 {
	parts := []uint64{0, 1, 9, 0xa, 0xf, 0x10, 0xff, 0x100, 0xfff, 0x1000, 0x7fff, 0x8000, 0xffff}
	if thorough {
		parts = nil
		for i := uint64(0); i < 16; i++ {
			parts = append(parts, i, i<<4, i<<8, i<<12, i<<12|0xfff, i<<8|0xff)
		}
		parts = append(parts, 0xffff, 0x7fff, 0x8001, 0x0101, 0x1010, 0xfffe)
	}
	set := map[uint64]struct{}{}
	for _, a := range parts {
		for _, b := range parts {
			for _, c := range parts {
				set[a<<32|b<<16|c] = struct{}{}
			}
		}
	}
	p := uint64(1)
	for d := 0; d < 15; d++ {
		p *= 10
		if p-1 <= refMaxAS {
			set[p-1] = struct{}{}
		}
		if p <= refMaxAS {
			set[p] = struct{}{}
			set[p+1] = struct{}{}
		}
	}
	for _, v := range []uint64{1<<16 - 1, 1 << 16, 1 << 31, 1<<32 - 2, 1<<32 - 1, 1 << 32, 1<<32 + 1, 1<<48 - 2, 1<<48 - 1,
		0xff00_0000_0110, 0xff00_0000_0111, 64512, 4200000000} {
		set[v] = struct{}{}
	}
	out := make([]uint64, 0, len(set))
	for v := range set {
		out = append(out, v)
	}
	sort.Slice(out, func(i, j int) bool { return out[i] < out[j] })
	return out
}

var c46FewAS = []uint64{0, 64512, 1<<32 - 1, 1 << 32, 0xff00_0000_0110, 1<<48 - 1}
var c46FewISD = []uint64{0, 1, 9, 10, 99, 100, 999, 1000, 9999, 10000, 65534, 65535}

// ---- bookkeeping ----

type c46Ctx struct {
	r  *mc.Run
	mu sync.Mutex
	// all discrepancies seen with WithSeparator("") are one root cause; they are collected per kind (smallest
	// example kept, so the report is deterministic) and raised as ONE finding at the end.
	emptySep map[string]c46Example
	found    map[string]c46Example // every other discrepancy: finding key -> smallest example (deterministic report)
	tallies  map[string]int64
	evals    int64
	distinct int64
}

type c46Example struct {
	Call     string `json:"call"`
	Input    string `json:"input"`
	Observed string `json:"observed"`
	Expected string `json:"expected"`
}

func (c *c46Ctx) emptySepFinding(kind string, ex c46Example) {
	c.mu.Lock()
	defer c.mu.Unlock()
	if old, ok := c.emptySep[kind]; !ok || c46Less(ex, old) {
		c.emptySep[kind] = ex
	}
}

func c46Less(a, b c46Example) bool {
	if len(a.Input) != len(b.Input) {
		return len(a.Input) < len(b.Input)
	}
	return a.Input+"\x00"+a.Call < b.Input+"\x00"+b.Call
}

func (c *c46Ctx) finding(key string, ex c46Example) {
	c.mu.Lock()
	defer c.mu.Unlock()
	if old, ok := c.found[key]; !ok || c46Less(ex, old) {
		c.found[key] = ex
	}
}

// local tally, merged once per worker chunk
type c46Tally struct {
	out      map[string]int64
	evals    int64
	distinct int64
}

func newTally() *c46Tally { return &c46Tally{out: map[string]int64{}} }

func (c *c46Ctx) merge(t *c46Tally) {
	c.mu.Lock()
	for k, v := range t.out {
		c.tallies[k] += v
	}
	c.evals += t.evals
	c.distinct += t.distinct
	c.mu.Unlock()
}

// ---- Part B machinery: one parser of the implementation against the reference ----

type c46Target struct {
	name     string
	wrap     string // fixed prefix put in front of the enumerated text before it is handed to the parser
	emptySep bool
	// impl returns a rendering of the parsed value built from the numeric fields only (no pkg/addr formatter).
	impl func(s string) (string, error)
	ref  func(s string) (string, refVerdict)
}

func u(v uint64) string { return strconv.FormatUint(v, 10) }

func renderHost(h addr.Host) string {
	switch h.Type() {
	case addr.HostTypeIP:
		ip := h.IP()
		return "ip:" + fmt.Sprintf("%x", ip.As16()) + "/" + strconv.FormatBool(ip.Is4()) + "/" + ip.Zone()
	case addr.HostTypeSVC:
		return "svc:" + u(uint64(h.SVC()))
	}
	return "none"
}

func renderRefHost(h refHost) string {
	switch h.kind {
	case 1:
		return "ip:" + fmt.Sprintf("%x", h.ip.As16()) + "/" + strconv.FormatBool(h.ip.Is4()) + "/" + h.ip.Zone()
	case 2:
		return "svc:" + u(uint64(h.svc))
	}
	return "none"
}

func c46Targets() []c46Target {
	asT := func(name string, o c46Opt, wrap string) c46Target {
		opts := o.opts()
		return c46Target{name: name, emptySep: o.emptySep(), wrap: wrap,
			impl: func(s string) (string, error) {
				v, err := addr.ParseFormattedAS(wrap+s, opts...)
				return u(uint64(v)), err
			},
			ref: func(s string) (string, refVerdict) {
				v, vd := refParseAS(s, o.refSepOf())
				return u(v), vd
			}}
	}
	iaT := func(name string, o c46Opt) c46Target {
		opts := o.opts()
		return c46Target{name: name, emptySep: o.emptySep(),
			impl: func(s string) (string, error) {
				v, err := addr.ParseFormattedIA(s, opts...)
				return u(uint64(v)), err
			},
			ref: func(s string) (string, refVerdict) {
				v, vd := refParseIA(s, o.prefix, o.refSepOf())
				return u(v), vd
			}}
	}
	return []c46Target{
		{name: "ParseISD",
			impl: func(s string) (string, error) { v, err := addr.ParseISD(s); return u(uint64(v)), err },
			ref:  func(s string) (string, refVerdict) { v, vd := refParseISD(s); return u(v), vd }},
		{name: "ParseFormattedISD(prefix)", wrap: "ISD",
			impl: func(s string) (string, error) {
				v, err := addr.ParseFormattedISD("ISD"+s, addr.WithDefaultPrefix())
				return u(uint64(v)), err
			},
			ref: func(s string) (string, refVerdict) { v, vd := refParseISD(s); return u(v), vd }},
		{name: "ParseAS",
			impl: func(s string) (string, error) { v, err := addr.ParseAS(s); return u(uint64(v)), err },
			ref:  func(s string) (string, refVerdict) { v, vd := refParseAS(s, ":"); return u(v), vd }},
		{name: "AS.UnmarshalText",
			impl: func(s string) (string, error) { var v addr.AS; err := v.UnmarshalText([]byte(s)); return u(uint64(v)), err },
			ref:  func(s string) (string, refVerdict) { v, vd := refParseAS(s, ":"); return u(v), vd }},
		asT("ParseFormattedAS(file)", c46Opt{file: true}, ""),
		asT("ParseFormattedAS(sep(\"::\"))", c46Opt{sepSet: true, sep: "::"}, ""),
		asT("ParseFormattedAS(sep(\" \"))", c46Opt{sepSet: true, sep: " "}, ""),
		asT("ParseFormattedAS(sep(\"\"))", c46Opt{sepSet: true, sep: ""}, ""),
		asT("ParseFormattedAS(prefix)", c46Opt{prefix: true}, "AS"),
		{name: "ParseIA",
			impl: func(s string) (string, error) { v, err := addr.ParseIA(s); return u(uint64(v)), err },
			ref:  func(s string) (string, refVerdict) { v, vd := refParseIA(s, false, ":"); return u(v), vd }},
		{name: "IA.Set",
			impl: func(s string) (string, error) { var v addr.IA; err := v.Set(s); return u(uint64(v)), err },
			ref:  func(s string) (string, refVerdict) { v, vd := refParseIA(s, false, ":"); return u(v), vd }},
		iaT("ParseFormattedIA(file)", c46Opt{file: true}),
		iaT("ParseFormattedIA(sep(\"\"))", c46Opt{sepSet: true, sep: ""}),
		iaT("ParseFormattedIA(prefix)", c46Opt{prefix: true}),
		iaT("ParseFormattedIA(prefix+file)", c46Opt{prefix: true, file: true}),
		{name: "ParseSVC",
			impl: func(s string) (string, error) { v, err := addr.ParseSVC(s); return u(uint64(v)), err },
			ref:  func(s string) (string, refVerdict) { v, vd := refParseSVC(s); return u(uint64(v)), vd }},
		{name: "ParseHost",
			impl: func(s string) (string, error) { v, err := addr.ParseHost(s); return renderHost(v), err },
			ref:  func(s string) (string, refVerdict) { v, vd := refParseHost(s); return renderRefHost(v), vd }},
		{name: "ParseAddr",
			impl: func(s string) (string, error) {
				v, err := addr.ParseAddr(s)
				return u(uint64(v.IA)) + "," + renderHost(v.Host), err
			},
			ref: func(s string) (string, refVerdict) {
				v, vd := refParseAddr(s)
				return u(v.ia) + "," + renderRefHost(v.host), vd
			}},
		{name: "Addr.UnmarshalText",
			impl: func(s string) (string, error) {
				var v addr.Addr
				err := v.UnmarshalText([]byte(s))
				return u(uint64(v.IA)) + "," + renderHost(v.Host), err
			},
			ref: func(s string) (string, refVerdict) {
				v, vd := refParseAddr(s)
				return u(v.ia) + "," + renderRefHost(v.host), vd
			}},
		{name: "ParseAddrPort",
			impl: func(s string) (string, error) {
				v, p, err := addr.ParseAddrPort(s)
				return u(uint64(v.IA)) + "," + renderHost(v.Host) + ":" + u(uint64(p)), err
			},
			ref: func(s string) (string, refVerdict) {
				v, p, vd := refParseAddrPort(s)
				return u(v.ia) + "," + renderRefHost(v.host) + ":" + u(p), vd
			}},
	}
}

// compare runs one text through one parser and the reference. Returns whether the case is non-trivial (the text has a
// reading for the reference or the implementation).
func (c *c46Ctx) compare(tg *c46Target, s string, t *c46Tally) bool {
	var iv string
	var err error
	if p := mc.Safely(func() { iv, err = tg.impl(s) }); p != nil {
		c.finding(tg.name+"/panic", c46Example{Call: tg.name, Input: s, Observed: fmt.Sprint(p), Expected: "no panic"})
		return true
	}
	rv, vd := tg.ref(s)
	t.evals++
	report := func(kind, observed, expected string) {
		ex := c46Example{Call: tg.name, Input: tg.wrap + s, Observed: observed, Expected: expected}
		if tg.emptySep {
			c.emptySepFinding("parse:"+kind, ex)
			t.out["empty-separator-discrepancy"]++
			return
		}
		c.finding(tg.name+"/"+kind, ex)
	}
	switch {
	case err == nil && vd == refReject:
		report("accepts-malformed-text", "value "+iv, "error")
	case err == nil && iv != rv:
		report("returns-different-value", "value "+iv, "value "+rv)
	case err == nil && vd == refCanonical:
		t.out["parse:canonical-accepted"]++
	case err == nil:
		t.out["parse:lenient-spelling-accepted-same-value"]++
	case vd == refCanonical:
		report("rejects-canonical-text", "error "+err.Error(), "value "+rv)
	case vd == refLenient:
		t.out["parse:lenient-spelling-rejected"]++
	default:
		t.out["parse:malformed-rejected"]++
	}
	return err == nil || vd != refReject
}

// ---- Part B1: all strings up to length L over a small alphabet ----

// quick: 9 characters (digits incl. the decimal/hex boundary digits, lower/upper hex letter, the three structural
// characters, a sign); thorough adds a non-hex letter and the blank.
func c46Alphabet() string { return mc.Pick("019aF:-+_", "019aFg:-+ _") }

func (c *c46Ctx) shortStrings(maxLen int) {
	var tgs []c46Target
	for _, tg := range c46Targets() {
		switch tg.name {
		case "ParseSVC", "ParseHost", "ParseAddr", "Addr.UnmarshalText", "ParseAddrPort", "AS.UnmarshalText", "IA.Set",
			"ParseFormattedIA(prefix)", "ParseFormattedIA(prefix+file)", "ParseFormattedAS(sep(\"::\"))":
			continue // no ',', '[', letters of the names in this alphabet: covered by the edit neighbourhoods
		}
		tgs = append(tgs, tg)
	}
	c46Alphabet := c46Alphabet()
	k := len(c46Alphabet)
	// shards: the first two characters (plus the strings shorter than 2)
	shards := k*k + 1
	mc.ParallelFor(shards, func(sh int) {
		t := newTally()
		defer c.merge(t)
		one := func(s string) {
			nt := false
			for i := range tgs {
				if c.compare(&tgs[i], s, t) {
					nt = true
				}
			}
			if nt {
				t.distinct += int64(len(tgs))
			}
		}
		if sh == k*k {
			one("")
			for i := 0; i < k; i++ {
				one(c46Alphabet[i : i+1])
			}
			return
		}
		buf := make([]byte, 0, maxLen)
		buf = append(buf, c46Alphabet[sh/k], c46Alphabet[sh%k])
		var rec func()
		rec = func() {
			if c.r.OutOfBudget() {
				return
			}
			one(string(buf))
			if len(buf) == maxLen {
				return
			}
			for i := 0; i < k; i++ {
				buf = append(buf, c46Alphabet[i])
				rec()
				buf = buf[:len(buf)-1]
			}
		}
		rec()
	})
	if c.r.OutOfBudget() {
		c.r.Capped("short-string enumeration stopped by the time budget")
	}
}

// ---- Part B2: edit neighbourhoods of seed texts ----

const c46EditAlphabet = "019afFg:-+ _,.[]%ASIDCMx\x00"

var c46Seeds = map[string][]string{
	"ParseISD":                      {"0", "1", "65535", "65536", "00001", "99999"},
	"ParseFormattedISD(prefix)":     {"1", "65535"},
	"ParseAS":                       {"0", "4294967295", "4294967296", "1:0:0", "ffff:ffff:ffff", "ff00:0:110", "0:0:1", "10000:0:0", "FF00:0:110",
		"0:10000:0", "0:0:10000", "ffff:ffff:10000", "1:0:0:0", "1:0"},
	"AS.UnmarshalText":              {"64512", "ff00:0:110"},
	"ParseFormattedAS(file)":        {"4294967295", "ff00_0_110", "ff00:0:110"},
	"ParseFormattedAS(sep(\"::\"))": {"ff00::0::110", "1"},
	"ParseFormattedAS(sep(\" \"))":  {"ff00 0 110"},
	"ParseFormattedAS(sep(\"\"))":   {"ff00:0:110", "123", "12", "ff000110"},
	"ParseFormattedAS(prefix)":      {"1", "ff00:0:110"},
	"ParseIA":                       {"0-0", "1-ff00:0:110", "65535-ffff:ffff:ffff", "1-4294967295", "65536-1", "1-4294967296"},
	"IA.Set":                        {"1-ff00:0:110"},
	"ParseFormattedIA(file)":        {"1-ff00_0_110", "1-64512"},
	"ParseFormattedIA(sep(\"\"))":   {"1-ff00:0:110", "1-123"},
	"ParseFormattedIA(prefix)":      {"ISD1-ASff00:0:110", "ISD65535-AS4294967295"},
	"ParseFormattedIA(prefix+file)": {"ISD1-ASff00_0_110"},
	"ParseSVC":                      {"DS", "CS", "Wildcard", "DS_A", "CS_A", "Wildcard_A", "DS_M", "CS_M", "Wildcard_M"},
	"ParseHost":                     {"CS_M", "Wildcard", "1.2.3.4", "::1", "fe80::1%eth0", "::ffff:1.2.3.4"},
	"ParseAddr":                     {"1-ff00:0:110,CS", "1-ff00:0:110,1.2.3.4", "1-1,::1", "65535-ffff:ffff:ffff,fe80::1%z"},
	"Addr.UnmarshalText":            {"1-ff00:0:110,DS_M"},
	"ParseAddrPort":                 {"[1-ff00:0:110,CS]:80", "[1-1,::1]:65535", "[1-1,1.2.3.4]:0", "1-1,1.2.3.4:80", "[1-1,fe80::1%e]:1"},
}

// edits1 appends every text at edit distance exactly <= 1 (delete, replace, insert, plus adjacent transposition).
func edits1(s string, out map[string]struct{}) {
	out[s] = struct{}{}
	for i := 0; i <= len(s); i++ {
		if i < len(s) {
			out[s[:i]+s[i+1:]] = struct{}{}
			for j := 0; j < len(c46EditAlphabet); j++ {
				out[s[:i]+c46EditAlphabet[j:j+1]+s[i+1:]] = struct{}{}
			}
			if i+1 < len(s) {
				out[s[:i]+s[i+1:i+2]+s[i:i+1]+s[i+2:]] = struct{}{}
			}
		}
		for j := 0; j < len(c46EditAlphabet); j++ {
			out[s[:i]+c46EditAlphabet[j:j+1]+s[i:]] = struct{}{}
		}
	}
}

func (c *c46Ctx) editNeighbourhoods() {
	tgs := c46Targets()
	type job struct {
		tg   *c46Target
		seed string
	}
	var jobs []job
	for i := range tgs {
		seeds, ok := c46Seeds[tgs[i].name]
		if !ok {
			c.r.HarnessError("no seeds for target %s", tgs[i].name)
		}
		for _, s := range seeds {
			jobs = append(jobs, job{&tgs[i], s})
		}
	}
	twoMax := mc.Pick(8, 22) // double edits for seeds up to this length
	// per target: set of texts already evaluated (distinct count across seeds of one target)
	var seenMu sync.Mutex
	seen := map[string]map[string]struct{}{}
	mc.ParallelFor(len(jobs), func(ji int) {
		j := jobs[ji]
		t := newTally()
		defer c.merge(t)
		n1 := map[string]struct{}{}
		edits1(j.seed, n1)
		all := n1
		if len(j.seed) <= twoMax {
			all = map[string]struct{}{}
			for s := range n1 {
				edits1(s, all)
			}
		}
		if c.r.OutOfBudget() {
			return
		}
		for s := range all {
			nt := c.compare(j.tg, s, t)
			_ = nt
		}
		seenMu.Lock()
		m := seen[j.tg.name]
		if m == nil {
			m = map[string]struct{}{}
			seen[j.tg.name] = m
		}
		for s := range all {
			if _, dup := m[s]; !dup {
				m[s] = struct{}{}
				t.distinct++
			}
		}
		seenMu.Unlock()
	})
	if c.r.OutOfBudget() {
		c.r.Capped("edit-neighbourhood enumeration stopped by the time budget")
	}
}

// ---- Part A ----

func (c *c46Ctx) viol(o *c46Opt, key, call, input, observed, expected string, t *c46Tally) {
	ex := c46Example{Call: call, Input: input, Observed: observed, Expected: expected}
	if o != nil && o.emptySep() {
		c.emptySepFinding("format:"+key, ex)
		t.out["empty-separator-discrepancy"]++
		return
	}
	c.finding(key, ex)
}

func errStr(err error) string {
	if err == nil {
		return "<nil>"
	}
	return "error " + err.Error()
}

func (c *c46Ctx) roundTripISD(t *c46Tally) {
	for isd := uint64(0); isd <= refMaxISD; isd++ {
		v := addr.ISD(isd)
		if s, want := v.String(), refFmtISD(isd, false); s != want {
			c.viol(nil, "ISD.String/text", "ISD.String", u(isd), s, want, t)
		}
		for _, prefix := range []bool{false, true} {
			var opts []addr.FormatOption
			if prefix {
				opts = append(opts, addr.WithDefaultPrefix())
			}
			s := addr.FormatISD(v, opts...)
			if want := refFmtISD(isd, prefix); s != want {
				c.viol(nil, "FormatISD/text", "FormatISD", u(isd), s, want, t)
			}
			back, err := addr.ParseFormattedISD(s, opts...)
			if err != nil || uint64(back) != isd {
				c.viol(nil, "FormatISD-ParseFormattedISD/roundtrip", "ParseFormattedISD(FormatISD)", s,
					u(uint64(back))+" "+errStr(err), u(isd), t)
			} else {
				t.out["roundtrip:isd"]++
			}
			t.evals++
		}
		back, err := addr.ParseISD(v.String())
		if err != nil || uint64(back) != isd {
			c.viol(nil, "ISD.String-ParseISD/roundtrip", "ParseISD(String)", v.String(), u(uint64(back))+" "+errStr(err), u(isd), t)
		}
		t.evals++
		t.distinct += 3
	}
}

func (c *c46Ctx) roundTripAS(ases []uint64, opts []c46Opt) {
	mc.ParallelFor(len(opts), func(oi int) {
		o := opts[oi]
		fo := o.opts()
		t := newTally()
		defer c.merge(t)
		for _, as := range ases {
			v := addr.AS(as)
			s := addr.FormatAS(v, fo...)
			want := refFmtAS(as, o.prefix, o.refSepOf())
			if s != want {
				c.viol(&o, "FormatAS/text", "FormatAS["+o.name+"]", u(as), s, want, t)
			}
			back, err := addr.ParseFormattedAS(s, fo...)
			if err != nil || uint64(back) != as {
				c.viol(&o, "FormatAS-ParseFormattedAS/roundtrip", "ParseFormattedAS(FormatAS)["+o.name+"]", s,
					u(uint64(back))+" "+errStr(err), u(as), t)
			} else if !o.emptySep() {
				t.out["roundtrip:as"]++
			}
			if s != want {
				// the documented text must parse too
				back, err := addr.ParseFormattedAS(want, fo...)
				if err != nil || uint64(back) != as {
					c.viol(&o, "ParseFormattedAS/rejects-documented-text", "ParseFormattedAS["+o.name+"]", want,
						u(uint64(back))+" "+errStr(err), u(as), t)
				}
			}
			t.evals++
			t.distinct++
		}
	})
	t := newTally()
	defer c.merge(t)
	for _, as := range ases {
		v := addr.AS(as)
		s := v.String()
		if want := refFmtAS(as, false, ":"); s != want {
			c.viol(nil, "AS.String/text", "AS.String", u(as), s, want, t)
		}
		back, err := addr.ParseAS(s)
		if err != nil || uint64(back) != as {
			c.viol(nil, "AS.String-ParseAS/roundtrip", "ParseAS(String)", s, u(uint64(back))+" "+errStr(err), u(as), t)
		}
		b, err := v.MarshalText()
		var back2 addr.AS
		if err == nil {
			err = back2.UnmarshalText(b)
		}
		if err != nil || uint64(back2) != as || string(b) != s {
			c.viol(nil, "AS.MarshalText-UnmarshalText/roundtrip", "UnmarshalText(MarshalText)", s,
				u(uint64(back2))+" "+errStr(err), u(as), t)
		} else {
			t.out["roundtrip:as"]++
		}
		t.evals += 2
		t.distinct += 2
	}
	// out-of-range AS values are not values of the type: their text must not parse to anything
	for _, as := range []uint64{1 << 48, 1<<48 + 1, 1<<63 + 5, 1<<64 - 1} {
		s := addr.AS(as).String()
		if back, err := addr.ParseAS(s); err == nil {
			c.viol(nil, "AS.String(out-of-range)/parses", "ParseAS(String)", s, u(uint64(back)), "error", t)
		} else {
			t.out["out-of-range-as:text-rejected"]++
		}
		if _, err := addr.AS(as).MarshalText(); err == nil {
			c.viol(nil, "AS.MarshalText(out-of-range)/accepted", "MarshalText", u(as), "<nil>", "error", t)
		}
		if _, err := addr.IAFrom(1, addr.AS(as)); err == nil {
			c.viol(nil, "IAFrom(out-of-range)/accepted", "IAFrom", u(as), "<nil>", "error", t)
		}
		t.evals += 3
		t.distinct += 3
	}
}

func (c *c46Ctx) roundTripIA(isds, ases []uint64, opts []c46Opt, plain bool) {
	mc.ParallelFor(len(isds), func(ii int) {
		if c.r.OutOfBudget() {
			return
		}
		isd := isds[ii]
		t := newTally()
		defer c.merge(t)
		for _, as := range ases {
			iav := isd<<48 | as
			ia, err := addr.IAFrom(addr.ISD(isd), addr.AS(as))
			if err != nil || uint64(ia) != iav || uint64(ia.ISD()) != isd || uint64(ia.AS()) != as {
				c.viol(nil, "IAFrom/value", "IAFrom", fmt.Sprintf("%d,%d", isd, as), fmt.Sprintf("%#x %v", uint64(ia), err),
					fmt.Sprintf("%#x", iav), t)
				continue
			}
			for oi := range opts {
				o := &opts[oi]
				fo := o.opts()
				s := addr.FormatIA(ia, fo...)
				want := refFmtIA(iav, o.prefix, o.refSepOf())
				if s != want {
					c.viol(o, "FormatIA/text", "FormatIA["+o.name+"]", fmt.Sprintf("%#x", iav), s, want, t)
				}
				back, err := addr.ParseFormattedIA(s, fo...)
				if err != nil || uint64(back) != iav {
					c.viol(o, "FormatIA-ParseFormattedIA/roundtrip", "ParseFormattedIA(FormatIA)["+o.name+"]", s,
						fmt.Sprintf("%#x %s", uint64(back), errStr(err)), fmt.Sprintf("%#x", iav), t)
				} else if !o.emptySep() {
					t.out["roundtrip:ia"]++
				}
				t.evals++
				t.distinct++
			}
			if !plain {
				continue
			}
			s := ia.String()
			if want := refFmtIA(iav, false, ":"); s != want {
				c.viol(nil, "IA.String/text", "IA.String", fmt.Sprintf("%#x", iav), s, want, t)
			}
			back, err := addr.ParseIA(s)
			if err != nil || uint64(back) != iav {
				c.viol(nil, "IA.String-ParseIA/roundtrip", "ParseIA(String)", s, fmt.Sprintf("%#x %s", uint64(back), errStr(err)),
					fmt.Sprintf("%#x", iav), t)
			}
			b, _ := ia.MarshalText()
			var b2, b3 addr.IA
			e2 := b2.UnmarshalText(b)
			e3 := b3.Set(s)
			if e2 != nil || e3 != nil || uint64(b2) != iav || uint64(b3) != iav || string(b) != s {
				c.viol(nil, "IA.MarshalText-UnmarshalText-Set/roundtrip", "UnmarshalText/Set", s,
					fmt.Sprintf("%#x %#x %v %v", uint64(b2), uint64(b3), e2, e3), fmt.Sprintf("%#x", iav), t)
			} else {
				t.out["roundtrip:ia"]++
			}
			t.evals += 2
			t.distinct += 2
		}
	})
}

func (c *c46Ctx) roundTripSVC() {
	t := newTally()
	defer c.merge(t)
	for v := uint64(0); v <= 0xffff; v++ {
		svc := addr.SVC(v)
		s := svc.String()
		back, err := addr.ParseSVC(s)
		hs := addr.HostSVC(svc).String()
		hback, herr := addr.ParseHost(hs)
		t.evals += 2
		t.distinct += 2
		if refSvcDefined(uint16(v)) {
			want := refFmtSVC(uint16(v))
			if s != want || hs != want {
				c.viol(nil, "SVC.String/text", "SVC.String", fmt.Sprintf("%#04x", v), s+" / "+hs, want, t)
			}
			if err != nil || uint64(back) != v {
				c.viol(nil, "SVC.String-ParseSVC/roundtrip", "ParseSVC(String)", s, u(uint64(back))+" "+errStr(err), u(v), t)
			} else if herr != nil || hback != addr.HostSVC(svc) {
				c.viol(nil, "Host(SVC).String-ParseHost/roundtrip", "ParseHost(String)", hs, renderHost(hback)+" "+errStr(herr), u(v), t)
			} else {
				t.out["roundtrip:svc-defined"]++
			}
			if svc.IsMulticast() != (v&0x8000 != 0) || uint64(svc.Base()) != v&^0x8000 || uint64(svc.Multicast()) != v|0x8000 {
				c.viol(nil, "SVC/multicast-bit", "IsMulticast/Base/Multicast", u(v), "", "", t)
			}
			continue
		}
		// not a service address: a round trip is not demanded, but the printed form must not denote another value
		if err == nil && uint64(back) != v {
			c.viol(nil, "SVC.String(undefined)/parses-to-different-value", "ParseSVC(String)", s, u(uint64(back)), "error or "+u(v), t)
		} else if herr == nil && (hback.Type() != addr.HostTypeSVC || uint64(hback.SVC()) != v) {
			c.viol(nil, "Host(SVC).String(undefined)/parses-to-different-value", "ParseHost(String)", hs, renderHost(hback), "error", t)
		} else {
			t.out["svc-undefined:text-not-misparsed"]++
		}
	}
}

func c46Hosts() []addr.Host {
	var hs []addr.Host
	b4 := mc.Pick([]byte{0, 1, 9, 10, 100, 127, 255}, []byte{0, 1, 9, 10, 99, 100, 127, 128, 199, 200, 254, 255})
	for _, a := range b4 {
		for _, b := range b4 {
			for _, cc := range b4 {
				for _, d := range b4 {
					ip := netip.AddrFrom4([4]byte{a, b, cc, d})
					hs = append(hs, addr.HostIP(ip))
					hs = append(hs, addr.HostIP(netip.AddrFrom16(ip.As16()))) // v4-mapped v6
				}
			}
		}
	}
	g := mc.Pick([]uint16{0, 1, 0xffff}, []uint16{0, 1, 0xa, 0xffff})
	zones := []string{"", "eth0", "1", "a.b-c_d", "z,z", "CS", "x_M"}
	var rec func(i int, cur [16]byte)
	rec = func(i int, cur [16]byte) {
		if i == 8 {
			ip := netip.AddrFrom16(cur)
			hs = append(hs, addr.HostIP(ip))
			if cur[15] == 1 && cur[0] == 0xff {
				for _, z := range zones[1:] {
					hs = append(hs, addr.HostIP(ip.WithZone(z)))
				}
			}
			return
		}
		for _, v := range g {
			cur[2*i], cur[2*i+1] = byte(v>>8), byte(v)
			rec(i+1, cur)
		}
	}
	rec(0, [16]byte{})
	for _, z := range zones[1:] {
		hs = append(hs, addr.HostIP(netip.MustParseAddr("fe80::1").WithZone(z)))
	}
	for _, v := range []addr.SVC{addr.SvcDS, addr.SvcCS, addr.SvcWildcard, addr.SvcDS.Multicast(), addr.SvcCS.Multicast(),
		addr.SvcWildcard.Multicast()} {
		hs = append(hs, addr.HostSVC(v))
	}
	return hs
}

func (c *c46Ctx) roundTripHostAddr() {
	hosts := c46Hosts()
	ias := []uint64{0, 1<<48 | 1, 1<<48 | 0xff00_0000_0110, 65535<<48 | (1<<48 - 1), 2<<48 | (1<<32 - 1), 10<<48 | 1<<32}
	ports := []uint16{0, 1, 80, 30041, 65535}
	mc.ParallelFor(len(hosts), func(hi int) {
		h := hosts[hi]
		t := newTally()
		defer c.merge(t)
		s := h.String()
		back, err := addr.ParseHost(s)
		var viaSet addr.Host
		err2 := viaSet.Set(s)
		t.evals++
		t.distinct++
		if err != nil || back != h || err2 != nil || viaSet != h {
			c.viol(nil, "Host.String-ParseHost/roundtrip", "ParseHost(String)", s, renderHost(back)+" "+errStr(err), renderHost(h), t)
			return
		}
		if h.Type() == addr.HostTypeIP {
			if want := h.IP().String(); s != want {
				c.viol(nil, "Host.String/text", "Host.String", want, s, want, t)
			}
		}
		t.out["roundtrip:host"]++
		for _, iav := range ias {
			a := addr.Addr{IA: addr.IA(iav), Host: h}
			as := a.String()
			if want := refFmtIA(iav, false, ":") + "," + s; as != want {
				c.viol(nil, "Addr.String/text", "Addr.String", want, as, want, t)
			}
			ab, err := addr.ParseAddr(as)
			mb, _ := a.MarshalText()
			var ub, sb addr.Addr
			e2 := ub.UnmarshalText(mb)
			e3 := sb.Set(as)
			t.evals++
			t.distinct++
			if err != nil || ab != a || e2 != nil || ub != a || e3 != nil || sb != a || string(mb) != as {
				c.viol(nil, "Addr.String-ParseAddr/roundtrip", "ParseAddr(String)", as,
					u(uint64(ab.IA))+","+renderHost(ab.Host)+" "+errStr(err), u(iav)+","+renderHost(h), t)
				continue
			}
			t.out["roundtrip:addr"]++
			for _, p := range ports {
				ps := addr.FormatAddrPort(a, p)
				if want := "[" + as + "]:" + u(uint64(p)); ps != want {
					c.viol(nil, "FormatAddrPort/text", "FormatAddrPort", want, ps, want, t)
				}
				pa, pp, err := addr.ParseAddrPort(ps)
				t.evals++
				t.distinct++
				if err != nil || pa != a || pp != p {
					c.viol(nil, "FormatAddrPort-ParseAddrPort/roundtrip", "ParseAddrPort(FormatAddrPort)", ps,
						u(uint64(pa.IA))+","+renderHost(pa.Host)+":"+u(uint64(pp))+" "+errStr(err), as+" port "+u(uint64(p)), t)
				} else {
					t.out["roundtrip:addrport"]++
				}
			}
		}
	})
	// the zero Host is not an address: its text must not parse to a value
	t := newTally()
	defer c.merge(t)
	if hb, err := addr.ParseHost(addr.Host{}.String()); err == nil {
		c.viol(nil, "Host{}.String/parses", "ParseHost", addr.Host{}.String(), renderHost(hb), "error", t)
	} else {
		t.out["none-host:text-rejected"]++
	}
	t.evals++
}

func TestC46(t *testing.T) {
	r := mc.NewRun(t, "C46", mc.Exploration)
	r.Rule = "A: values x options -> text compared with a clean-room formatter, then parsed back (all 65536 ISDs; AS = all " +
		"combinations of 16-bit parts from a boundary alphabet + decimal/2^32/2^48 boundaries; ISD-AS = all ISDs x 10 ASes and " +
		"12 (thorough: 3 for the large AS set) ISDs x all ASes; options = prefix on/off x {default, file, every printable non-hex non-'-' separator, multi-char, " +
		"empty}; all 65536 SVC values; IPv4/IPv6/zone/v4-mapped/SVC hosts x 6 ISD-AS x 5 ports). B: texts -> every parser vs a " +
		"clean-room three-verdict parser (all strings up to length L over \"" + c46Alphabet() + "\"; all texts within edit " +
		"distance 1 (2 for short seeds) of seed texts over a 25-character alphabet). A case = (API, value or text, options); " +
		"non-trivial = value round trip, or a text that the reference or the implementation gives a reading"
	r.Assumptions = []string{
		"separators containing a hex digit or '-' make the text ambiguous by construction and are not demanded to round-trip",
		"lenient spellings (leading zeros, upper-case hex, hex spelling of an AS <= 2^32-1, SVC with _A, address:port " +
			"without brackets, port with leading zeros) may be accepted or rejected; if accepted the value must be the numeric reading",
		"undefined SVC values, the zero Host and AS values >= 2^48 are not addresses: only 'their text does not parse to a different value' is demanded",
		"IP literal syntax is delegated to net/netip (standard library) on both sides; IPv6 zones containing ']' are outside the alphabet",
		"WithSeparator(\"\") must behave exactly like ':' (documented fallback); every discrepancy under that option is reported as ONE finding",
	}
	c := &c46Ctx{r: r, emptySep: map[string]c46Example{}, found: map[string]c46Example{}, tallies: map[string]int64{}}

	asesQ := c46ASValues(false)
	ases := asesQ
	if mc.Thorough() {
		ases = c46ASValues(true)
	}
	optsAll := c46Options(true)
	optsFew := c46Options(false)
	r.Extra["as_values"] = len(ases)
	r.Extra["option_sets"] = len(optsAll)

	phases := map[string]float64{}
	last := time.Now()
	phase := func(name string) { phases[name] = time.Since(last).Seconds(); last = time.Now() }
	tl := newTally()
	c.roundTripISD(tl)
	c.merge(tl)
	c.roundTripAS(ases, optsAll)
	phase("A:isd+as")
	allISD := make([]uint64, 0, 65536)
	for i := uint64(0); i <= refMaxISD; i++ {
		allISD = append(allISD, i)
	}
	c.roundTripIA(allISD, c46FewAS, optsFew, true)
	c.roundTripIA(c46FewISD, asesQ, optsAll, true)
	if mc.Thorough() {
		c.roundTripIA([]uint64{0, 1, 65535}, ases, optsFew, true)
	}
	phase("A:ia")
	c.roundTripSVC()
	c.roundTripHostAddr()
	phase("A:svc+host+addr")

	maxLen := mc.Pick(6, 7)
	r.Extra["short_string_max_len"] = maxLen
	c.editNeighbourhoods()
	phase("B:edit-neighbourhoods")
	c.shortStrings(maxLen)
	phase("B:short-strings")
	r.Extra["phase_wall_s"] = phases

	// merge tallies into the run
	keys := make([]string, 0, len(c.tallies))
	for k := range c.tallies {
		keys = append(keys, k)
	}
	sort.Strings(keys)
	r.CaseBulk(c.evals, c.distinct)
	r.Extra["outcome_counts"] = c.tallies
	for _, k := range keys {
		for i := int64(0); i < c.tallies[k]; i++ {
			r.Outcome(k)
		}
	}
	r.Sample(map[string]any{"value": "AS 0xff0000000110", "options": "prefix+file", "text": addr.FormatAS(0xff00_0000_0110, addr.WithDefaultPrefix(), addr.WithFileSeparator())})
	r.Sample(map[string]any{"text": "4294967296", "parser": "ParseAS", "expected": "reject (decimal only up to 2^32-1)"})
	r.Sample(map[string]any{"text": "1-0:0:1", "parser": "ParseIA", "expected": "lenient: may accept, value 1-1"})
	r.Sample(map[string]any{"text": "[1-ff00:0:110,fe80::1%eth0]:80", "parser": "ParseAddrPort", "expected": "canonical"})

	fkeys := make([]string, 0, len(c.found))
	for k := range c.found {
		fkeys = append(fkeys, k)
	}
	sort.Strings(fkeys)
	for _, k := range fkeys {
		r.Violation(k, c.found[k])
	}
	if len(c.emptySep) > 0 {
		kinds := make([]string, 0, len(c.emptySep))
		for k := range c.emptySep {
			kinds = append(kinds, k)
		}
		sort.Strings(kinds)
		detail := map[string]any{"what": "WithSeparator(\"\") does not fall back to ':' (pkg/addr/fmt.go WithSeparator stores the empty string)",
			"kinds": kinds}
		for _, k := range kinds {
			detail[k] = c.emptySep[k]
		}
		r.Violation("WithSeparator-empty/no-colon-fallback", detail)
	}
	r.Finish(8)
}
