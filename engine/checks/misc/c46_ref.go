package misc

// Clean-room reference for the SCION address text formats (C46), written from the property statement and
// https://github.com/scionproto/scion/wiki/ISD-and-AS-numbering (as quoted in pkg/addr doc comments):
//
//	ISD      decimal, 0..65535
//	AS       decimal for 0..2^32-1 ("BGP" range); above that three groups of 1-4 lower-case hex digits without
//	         leading zeros, separated by ':' (or a custom separator; the empty separator means ':')
//	ISD-AS   <ISD>-<AS>, optionally "ISD<ISD>-AS<AS>"
//	SVC      DS | CS | Wildcard, suffix _A (anycast, optional) or _M (multicast)
//	host     SVC or IP literal
//	address  <ISD-AS>,<host>        address+port  [<ISD-AS>,<host>]:<port>
//
// Every parser of the reference has three verdicts for a text: canonical (the text is exactly what the formatter
// must produce for the value => the implementation MUST accept it), lenient (an unambiguous numeric reading
// exists: leading zeros, upper-case hex, hex spelling of a small AS, ... => the implementation MAY accept, but
// then only with this value) and reject (no reading => the implementation MUST reject).
// Nothing in this file calls pkg/addr.

import (
	"net/netip"
	"strconv"
	"strings"
)

const (
	refMaxISD   = 1<<16 - 1
	refMaxBGPAS = 1<<32 - 1
	refMaxAS    = 1<<48 - 1
)

type refVerdict int

const (
	refReject refVerdict = iota
	refLenient
	refCanonical
)

func isDigits(s string) bool {
	if s == "" {
		return false
	}
	for i := 0; i < len(s); i++ {
		if s[i] < '0' || s[i] > '9' {
			return false
		}
	}
	return true
}

// decValue: value of an all-digit string, saturating above max (ok=false then).
func decValue(s string, max uint64) (uint64, bool) {
	var v uint64
	for i := 0; i < len(s); i++ {
		v = v*10 + uint64(s[i]-'0')
		if v > max {
			return 0, false
		}
	}
	return v, true
}

func hexValue(s string, max uint64) (v uint64, lower bool, ok bool) {
	if s == "" {
		return 0, false, false
	}
	lower = true
	for i := 0; i < len(s); i++ {
		c := s[i]
		var d uint64
		switch {
		case c >= '0' && c <= '9':
			d = uint64(c - '0')
		case c >= 'a' && c <= 'f':
			d = uint64(c-'a') + 10
		case c >= 'A' && c <= 'F':
			d = uint64(c-'A') + 10
			lower = false
		default:
			return 0, false, false
		}
		v = v*16 + d
		if v > max {
			return 0, false, false
		}
	}
	return v, lower, true
}

func noLeadingZero(s string) bool { return s == "0" || (s != "" && s[0] != '0') }

func refParseISD(s string) (uint64, refVerdict) {
	if !isDigits(s) {
		return 0, refReject
	}
	v, ok := decValue(s, refMaxISD)
	if !ok {
		return 0, refReject
	}
	if noLeadingZero(s) {
		return v, refCanonical
	}
	return v, refLenient
}

func refSep(sep string) string {
	if sep == "" {
		return ":" // documented fallback
	}
	return sep
}

func refParseAS(s, sep string) (uint64, refVerdict) {
	sep = refSep(sep)
	if isDigits(s) {
		v, ok := decValue(s, refMaxBGPAS)
		if !ok {
			return 0, refReject
		}
		if noLeadingZero(s) {
			return v, refCanonical
		}
		return v, refLenient
	}
	parts := strings.Split(s, sep)
	if len(parts) != 3 {
		return 0, refReject
	}
	var v uint64
	canon := true
	for _, p := range parts {
		pv, lower, ok := hexValue(p, 0xffff)
		if !ok {
			return 0, refReject
		}
		if !lower || !noLeadingZero(p) {
			canon = false
		}
		v = v<<16 | pv
	}
	if v <= refMaxBGPAS {
		canon = false // small ASes are written in decimal
	}
	if canon {
		return v, refCanonical
	}
	return v, refLenient
}

func refParseIA(s string, prefix bool, sep string) (uint64, refVerdict) {
	if strings.Count(s, "-") != 1 {
		return 0, refReject
	}
	i := strings.IndexByte(s, '-')
	is, as := s[:i], s[i+1:]
	if prefix {
		if !strings.HasPrefix(is, "ISD") || !strings.HasPrefix(as, "AS") {
			return 0, refReject
		}
		is, as = is[3:], as[2:]
	}
	iv, v1 := refParseISD(is)
	av, v2 := refParseAS(as, sep)
	if v1 == refReject || v2 == refReject {
		return 0, refReject
	}
	v := iv<<48 | av
	if v1 == refCanonical && v2 == refCanonical {
		return v, refCanonical
	}
	return v, refLenient
}

func refFmtISD(isd uint64, prefix bool) string {
	s := strconv.FormatUint(isd, 10)
	if prefix {
		return "ISD" + s
	}
	return s
}

func refFmtAS(as uint64, prefix bool, sep string) string {
	sep = refSep(sep)
	var s string
	if as <= refMaxBGPAS {
		s = strconv.FormatUint(as, 10)
	} else {
		s = strconv.FormatUint(as>>32&0xffff, 16) + sep + strconv.FormatUint(as>>16&0xffff, 16) + sep +
			strconv.FormatUint(as&0xffff, 16)
	}
	if prefix {
		return "AS" + s
	}
	return s
}

func refFmtIA(ia uint64, prefix bool, sep string) string {
	return refFmtISD(ia>>48, prefix) + "-" + refFmtAS(ia&refMaxAS, prefix, sep)
}

// ---- service addresses ----

var refSvcNames = []struct {
	name string
	val  uint16
}{{"DS", 0x0001}, {"CS", 0x0002}, {"Wildcard", 0x0010}}

func refParseSVC(s string) (uint16, refVerdict) {
	for _, n := range refSvcNames {
		switch s {
		case n.name:
			return n.val, refCanonical
		case n.name + "_A":
			return n.val, refLenient // accepted spelling, but the formatter prints the short form
		case n.name + "_M":
			return n.val | 0x8000, refCanonical
		}
	}
	return 0, refReject
}

func refSvcDefined(v uint16) bool {
	b := v &^ 0x8000
	return b == 1 || b == 2 || b == 0x10
}

func refFmtSVC(v uint16) string {
	for _, n := range refSvcNames {
		if v&^0x8000 == n.val {
			if v&0x8000 != 0 {
				return n.name + "_M"
			}
			return n.name
		}
	}
	return ""
}

// ---- host / full address ----

// refHost: kind 0 = none/reject, 1 = IP, 2 = SVC. IP literals are delegated to net/netip (Go standard library; not
// code under test).
type refHost struct {
	kind int
	ip   netip.Addr
	svc  uint16
}

func refParseHost(s string) (refHost, refVerdict) {
	if v, vd := refParseSVC(s); vd != refReject {
		return refHost{kind: 2, svc: v}, vd
	}
	ip, err := netip.ParseAddr(s)
	if err != nil {
		return refHost{}, refReject
	}
	if ip.String() == s {
		return refHost{kind: 1, ip: ip}, refCanonical
	}
	return refHost{kind: 1, ip: ip}, refLenient
}

type refAddr struct {
	ia   uint64
	host refHost
}

func refParseAddr(s string) (refAddr, refVerdict) {
	i := strings.IndexByte(s, ',')
	if i < 0 {
		return refAddr{}, refReject
	}
	ia, v1 := refParseIA(s[:i], false, ":")
	h, v2 := refParseHost(s[i+1:])
	if v1 == refReject || v2 == refReject {
		return refAddr{}, refReject
	}
	if v1 == refCanonical && v2 == refCanonical {
		return refAddr{ia, h}, refCanonical
	}
	return refAddr{ia, h}, refLenient
}

// refParseAddrPort: canonical "[<addr>]:<port>". Lenient reading (may be accepted): the same without brackets when
// <addr> contains no colon, and ports with leading zeros.
func refParseAddrPort(s string) (refAddr, uint64, refVerdict) {
	var inner, port string
	bracketed := false
	if strings.HasPrefix(s, "[") {
		j := strings.IndexByte(s, ']')
		if j < 0 || !strings.HasPrefix(s[j+1:], ":") {
			return refAddr{}, 0, refReject
		}
		inner, port = s[1:j], s[j+2:]
		bracketed = true
	} else {
		j := strings.LastIndexByte(s, ':')
		if j < 0 {
			return refAddr{}, 0, refReject
		}
		inner, port = s[:j], s[j+1:]
		if strings.ContainsAny(inner, ":[]") {
			return refAddr{}, 0, refReject
		}
	}
	if strings.ContainsAny(port, "[]") || !isDigits(port) {
		return refAddr{}, 0, refReject
	}
	p, ok := decValue(port, 65535)
	if !ok {
		return refAddr{}, 0, refReject
	}
	a, v := refParseAddr(inner)
	if v == refReject {
		return refAddr{}, 0, refReject
	}
	if v == refCanonical && bracketed && noLeadingZero(port) && !strings.ContainsAny(inner, "[]") {
		return a, p, refCanonical
	}
	return a, p, refLenient
}
