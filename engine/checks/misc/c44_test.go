package misc

import (
	"bytes"
	"encoding/binary"
	"fmt"
	"net/netip"
	"sort"
	"strings"
	"sync"
	"testing"
	"time"

	"github.com/scionproto/scion/dispatcher"
	"github.com/scionproto/scion/pkg/addr"

	"verif/mc"
)

// C44: the shim dispatcher forwards only to the address/port derived from the packet's own SCION destination and only
// if that host equals the outer IP destination; answers echo/traceroute requests only to the previous hop (swapped
// addresses, reversed path); drops the rest; with the dispatcher function off handles only echo/traceroute requests.
// Packets are built and re-parsed by the clean-room byte-level code in c44_ref.go; the real Server.processMsgNextHop is
// reached through dispatcher/export_verif.go.

const (
	c44LocalIA  = uint64(1)<<48 | 0xff00_0000_0110
	c44RemoteIA = uint64(2)<<48 | 0xff00_0000_0220
)

var (
	c44PrevHop = netip.MustParseAddrPort("192.0.2.7:30001")
	c44Host4   = v4(10, 0, 0, 1)
	c44Host6   = v6("fd00::1")
	c44Mapped  = v6("::ffff:10.0.0.1")
	c44Remote  = v4(172, 16, 5, 9)
)

type c44Example struct {
	Case     string `json:"case"`
	Env      string `json:"env"`
	Packet   string `json:"packet_hex"`
	Observed string `json:"observed"`
	Expected string `json:"expected"`
}

type c44Ctx struct {
	r        *mc.Run
	mu       sync.Mutex
	found    map[string]c44Example
	tallies  map[string]int64
	evals    int64
	distinct int64
}

func (c *c44Ctx) finding(key string, ex c44Example) {
	c.mu.Lock()
	less := func(a, b c44Example) bool {
		if len(a.Packet) != len(b.Packet) {
			return len(a.Packet) < len(b.Packet)
		}
		if a.Case != b.Case {
			return a.Case < b.Case
		}
		if a.Env != b.Env {
			return a.Env < b.Env
		}
		return a.Packet < b.Packet
	}
	if old, ok := c.found[key]; !ok || less(ex, old) {
		c.found[key] = ex
	}
	c.mu.Unlock()
}

type c44Tally struct {
	out             map[string]int64
	evals, distinct int64
}

func (c *c44Ctx) merge(t *c44Tally) {
	c.mu.Lock()
	for k, v := range t.out {
		c.tallies[k] += v
	}
	c.evals += t.evals
	c.distinct += t.distinct
	c.mu.Unlock()
}

// ---- environments ----

type c44SvcMap struct {
	name string
	ref  map[[10]byte]netip.AddrPort
	impl map[addr.Addr]netip.AddrPort
}

func mkSvcMap(name string, entries map[uint16]netip.AddrPort) c44SvcMap {
	m := c44SvcMap{name: name, ref: map[[10]byte]netip.AddrPort{}, impl: map[addr.Addr]netip.AddrPort{}}
	for svc, ap := range entries {
		m.ref[svcKey(c44LocalIA, []byte{byte(svc >> 8), byte(svc)})] = ap
		m.impl[addr.Addr{IA: addr.IA(c44LocalIA), Host: addr.HostSVC(addr.SVC(svc))}] = ap
	}
	return m
}

var c44SvcMaps = []c44SvcMap{
	mkSvcMap("none", nil),
	mkSvcMap("CS->10.0.0.1:30252", map[uint16]netip.AddrPort{2: netip.MustParseAddrPort("10.0.0.1:30252")}),
	mkSvcMap("CS->[fd00::1]:30252,DS->10.0.0.3:30253", map[uint16]netip.AddrPort{2: netip.MustParseAddrPort("[fd00::1]:30252"),
		1: netip.MustParseAddrPort("10.0.0.3:30253")}),
}

type c44EnvImpl struct {
	c44Env
	svcm c44SvcMap
	name string
}

func c44Envs() []c44EnvImpl {
	var out []c44EnvImpl
	underlays := []netip.Addr{netip.MustParseAddr("10.0.0.1"), netip.MustParseAddr("::ffff:10.0.0.1"), netip.MustParseAddr("fd00::1"),
		netip.MustParseAddr("10.0.0.2"), netip.MustParseAddr("10.0.0.3"), netip.MustParseAddr("0.2.0.0"), c44PrevHop.Addr()}
	for _, m := range c44SvcMaps {
		for _, ul := range underlays {
			out = append(out, c44EnvImpl{c44Env{true, m.ref, ul, c44PrevHop}, m, fmt.Sprintf("dispatcher=on svc={%s} outer-dst=%s", m.name, ul)})
		}
		out = append(out, c44EnvImpl{c44Env{false, m.ref, netip.Addr{}, c44PrevHop}, m, fmt.Sprintf("dispatcher=off svc={%s}", m.name)})
		// not reachable through Serve (which leaves the outer destination unset when the function is off), but a legal call:
		// the "handles only echo and traceroute requests" clause must not depend on the address comparison failing
		for _, ul := range underlays[:3] {
			out = append(out, c44EnvImpl{c44Env{false, m.ref, ul, c44PrevHop}, m, fmt.Sprintf("dispatcher=off svc={%s} outer-dst=%s (given anyway)", m.name, ul)})
		}
	}
	return out
}

// ---- seeds ----

type c44Seed struct {
	name string
	pkt  c44Pkt
}

func udpL4(src, dst uint16, data []byte) []byte {
	b := binary.BigEndian.AppendUint16(nil, src)
	b = binary.BigEndian.AppendUint16(b, dst)
	b = binary.BigEndian.AppendUint16(b, uint16(8+len(data)))
	b = append(b, 0, 0)
	return append(b, data...)
}

func scmpL4(typ, code byte, body []byte) []byte {
	return append([]byte{typ, code, 0, 0}, body...)
}

func echoBody(id, seq uint16, data []byte) []byte {
	b := binary.BigEndian.AppendUint16(nil, id)
	b = binary.BigEndian.AppendUint16(b, seq)
	return append(b, data...)
}

func trBody(id, seq uint16, ia, ifID uint64) []byte {
	b := binary.BigEndian.AppendUint16(nil, id)
	b = binary.BigEndian.AppendUint16(b, seq)
	b = binary.BigEndian.AppendUint64(b, ia)
	return binary.BigEndian.AppendUint64(b, ifID)
}

func errBody(typ byte) []byte {
	switch typ {
	case scmpPktTooBig:
		return []byte{0, 0, 0x05, 0x00}
	case scmpParamProb:
		return []byte{0, 0, 0, 0x20}
	case scmpExtIfDown:
		return binary.BigEndian.AppendUint64(binary.BigEndian.AppendUint64(nil, c44RemoteIA), 5)
	case scmpIntConnDown:
		b := binary.BigEndian.AppendUint64(nil, c44RemoteIA)
		return binary.BigEndian.AppendUint64(binary.BigEndian.AppendUint64(b, 5), 6)
	}
	return []byte{0, 0, 0, 0}
}

type c44PathKind struct {
	name string
	pt   byte
	path []byte
}

var c44PathKinds = []c44PathKind{
	{"empty", ptEmpty, nil},
	{"scion(2)", ptSCION, scionPath(2)},
	{"scion(2,3)", ptSCION, scionPath(2, 3)},
	{"scion(1,2,2)", ptSCION, scionPath(1, 2, 2)},
	{"epic(2,2)", ptEPIC, epicPath(2, 2)},
	{"onehop", ptOneHop, oneHopPath()},
}

type c44DstKind struct {
	name string
	a    c44Addr
	ia   uint64 // 0: the local ISD-AS
}

var c44DstKinds = []c44DstKind{
	{"ipv4", c44Host4, 0}, {"ipv6", c44Host6, 0}, {"v4-mapped", c44Mapped, 0}, {"svc-CS", svcAddr(2), 0}, {"svc-CS-mcast", svcAddr(0x8002), 0},
	{"svc-DS", svcAddr(1), 0}, {"svc-unregistered", svcAddr(0x10), 0}, {"unknown-type-4B", c44Addr{0b1000, []byte{10, 0, 0, 1}}, 0},
	{"svc-CS@other-ISD-AS", svcAddr(2), uint64(1)<<48 | 0xff00_0000_0111},
}

var c44ExtKinds = []struct {
	name string
	exts []byte
}{{"none", nil}, {"hbh", []byte{pHBH}}, {"e2e", []byte{pE2E}}, {"hbh+e2e", []byte{pHBH, pE2E}}}

// quoted packets: what this host could have sent (src = this host, dst = remote)
func c44Quote(l4proto byte, l4 []byte, src c44Addr, exts []byte) []byte {
	q := c44Pkt{dstIA: c44RemoteIA, srcIA: c44LocalIA, dst: c44Remote, src: src, pathType: ptSCION, path: scionPath(2, 2),
		exts: exts, l4proto: l4proto, l4: l4}
	b := q.build()
	// the offending packet was somewhere on its way: pointers on the first hop
	binary.BigEndian.PutUint32(b[28+len(c44Remote.raw)+len(src.raw):], uint32(2)<<12|uint32(2)<<6)
	return b
}

type c44L4Kind struct {
	name  string
	proto byte
	l4    func(dst c44Addr) []byte
}

func c44L4Kinds() []c44L4Kind {
	ks := []c44L4Kind{
		{"udp:53", pUDP, func(c44Addr) []byte { return udpL4(40000, 53, []byte("hello")) }},
		{"udp:30041", pUDP, func(c44Addr) []byte { return udpL4(40000, 30041, nil) }},
		{"udp:65535", pUDP, func(c44Addr) []byte { return udpL4(1, 65535, []byte{1}) }},
		{"udp:0", pUDP, func(c44Addr) []byte { return udpL4(1, 0, []byte{1, 2}) }},
		{"echo-request", pSCMP, func(c44Addr) []byte { return scmpL4(scmpEchoReq, 0, echoBody(0x1234, 7, []byte("ping-data"))) }},
		{"echo-request-nodata", pSCMP, func(c44Addr) []byte { return scmpL4(scmpEchoReq, 0, echoBody(1, 0xffff, nil)) }},
		{"traceroute-request", pSCMP, func(c44Addr) []byte { return scmpL4(scmpTrReq, 0, trBody(0x4321, 3, 0, 0)) }},
		{"echo-reply", pSCMP, func(c44Addr) []byte { return scmpL4(scmpEchoRep, 0, echoBody(0x8877, 7, []byte("pong"))) }},
		{"traceroute-reply", pSCMP, func(c44Addr) []byte { return scmpL4(scmpTrRep, 0, trBody(0x6655, 3, c44RemoteIA, 9)) }},
		{"scmp-unknown-error-100", pSCMP, func(c44Addr) []byte { return scmpL4(100, 0, []byte{0, 0, 0, 0, 1, 2, 3, 4}) }},
		{"scmp-unknown-info-200", pSCMP, func(c44Addr) []byte { return scmpL4(200, 0, echoBody(0x1111, 1, nil)) }},
		{"tcp", pTCP, func(c44Addr) []byte { return append(udpL4(40000, 53, nil), make([]byte, 12)...) }},
		{"unknown-l4-99", 99, func(c44Addr) []byte { return []byte{0, 53, 0, 53, 0, 8, 0, 0} }},
	}
	quotes := []struct {
		name string
		q    func(src c44Addr) []byte
	}{
		{"udp-srcport-40001", func(s c44Addr) []byte { return c44Quote(pUDP, udpL4(40001, 443, []byte("payload")), s, nil) }},
		{"udp-srcport-0", func(s c44Addr) []byte { return c44Quote(pUDP, udpL4(0, 443, nil), s, nil) }},
		{"udp+e2e", func(s c44Addr) []byte { return c44Quote(pUDP, udpL4(40002, 443, nil), s, []byte{pE2E}) }},
		{"echo-request", func(s c44Addr) []byte { return c44Quote(pSCMP, scmpL4(scmpEchoReq, 0, echoBody(0x7001, 1, []byte("x"))), s, nil) }},
		{"traceroute-request", func(s c44Addr) []byte { return c44Quote(pSCMP, scmpL4(scmpTrReq, 0, trBody(0x7002, 1, 0, 0)), s, nil) }},
		{"echo-reply", func(s c44Addr) []byte { return c44Quote(pSCMP, scmpL4(scmpEchoRep, 0, echoBody(0x7003, 1, nil)), s, nil) }},
		{"scmp-error", func(s c44Addr) []byte {
			return c44Quote(pSCMP, scmpL4(scmpDestUnreach, 0, append([]byte{0, 0, 0, 0}, make([]byte, 40)...)), s, nil)
		}},
		{"tcp", func(s c44Addr) []byte { return c44Quote(pTCP, make([]byte, 20), s, nil) }},
		{"garbage", func(c44Addr) []byte { return []byte{0xde, 0xad, 0xbe, 0xef, 1, 2, 3, 4, 5, 6, 7, 8} }},
		{"empty", func(c44Addr) []byte { return nil }},
	}
	for _, typ := range []byte{scmpDestUnreach, scmpPktTooBig, scmpParamProb, scmpExtIfDown, scmpIntConnDown} {
		for _, q := range quotes {
			typ, q := typ, q
			ks = append(ks, c44L4Kind{fmt.Sprintf("scmp-error-%d[quote=%s]", typ, q.name), pSCMP, func(dst c44Addr) []byte {
				src := dst
				if !src.isIP() {
					src = c44Host4
				}
				return scmpL4(typ, 0, append(errBody(typ), q.q(src)...))
			}})
		}
	}
	return ks
}

func c44Seeds() []c44Seed {
	var out []c44Seed
	for _, l4 := range c44L4Kinds() {
		for _, d := range c44DstKinds {
			for _, pk := range c44PathKinds {
				for _, ex := range c44ExtKinds {
					dstIA := c44LocalIA
					if d.ia != 0 {
						dstIA = d.ia
					}
					out = append(out, c44Seed{
						name: fmt.Sprintf("%s dst=%s path=%s ext=%s", l4.name, d.name, pk.name, ex.name),
						pkt: c44Pkt{dstIA: dstIA, srcIA: c44RemoteIA, dst: d.a, src: c44Remote, pathType: pk.pt, path: pk.path,
							exts: ex.exts, l4proto: l4.proto, l4: l4.l4(d.a)},
					})
				}
			}
		}
	}
	return out
}

// ---- running the implementation ----

type c44Result struct {
	out   []byte
	addr  netip.AddrPort
	err   error
	panic any
}

func c44Run(env *c44EnvImpl, pkt []byte) c44Result {
	var res c44Result
	res.panic = mc.Safely(func() {
		srv := dispatcher.VerifNewServer(env.isDispatcher, env.svcm.impl)
		in := append([]byte(nil), pkt...)
		out, a, err := srv.VerifProcessMsgNextHop(in, env.underlay, env.prevHop)
		res.out, res.addr, res.err = append([]byte(nil), out...), a, err
	})
	return res
}

func (r c44Result) String() string {
	switch {
	case r.panic != nil:
		return fmt.Sprintf("panic: %.200v", r.panic)
	case r.err != nil:
		return "fatal error: " + r.err.Error()
	case !r.addr.IsValid():
		return "drop"
	}
	return "send " + fmt.Sprint(len(r.out)) + " bytes to " + r.addr.String()
}

var ptNames = map[byte]string{ptEmpty: "empty", ptSCION: "scion", ptOneHop: "onehop", ptEPIC: "epic"}

func extName(exts []byte) string {
	s := ""
	for _, e := range exts {
		if e == pHBH {
			s += "H"
		} else {
			s += "E"
		}
	}
	if s == "" {
		return "none"
	}
	return s
}

// sameHost: identical type and bytes, or the same IP address modulo the IPv4-mapped IPv6 form.
func sameHost(a, b c44Addr) bool {
	if a.tl == b.tl && bytes.Equal(a.raw, b.raw) {
		return true
	}
	return a.isIP() && b.isIP() && a.ip().Unmap() == b.ip().Unmap()
}

// checkReply: the output must be the well-formed answer to the request: addresses swapped, path reversed, reply type,
// identifier/sequence/data kept, checksum valid. Returns "" or the first aspect that is wrong.
func checkReply(req c44Parsed, out []byte) string {
	o := c44Parse(out)
	if !o.ok {
		return "output-unparsable"
	}
	if int(out[5])*4+int(binary.BigEndian.Uint16(out[6:])) != len(out) {
		return "lengths-inconsistent"
	}
	if o.dstIA != req.srcIA || o.srcIA != req.dstIA {
		return "isd-as-not-swapped"
	}
	if !sameHost(o.dst, req.src) || !sameHost(o.src, req.dst) {
		return "hosts-not-swapped"
	}
	wpt, wpath := specReplyPath(req.pathType, req.path)
	if o.pathType != wpt {
		return "path-type"
	}
	if !bytes.Equal(o.path, wpath) {
		return "path-not-reversed"
	}
	if o.l4proto != pSCMP || len(o.l4) < 4 {
		return "upper-layer-not-scmp"
	}
	if o.l4[0] != req.l4[0]+1 || o.l4[1] != 0 {
		return "scmp-type-code"
	}
	if !bytes.Equal(o.l4[4:], req.l4[4:]) {
		return "identifier-sequence-data-changed"
	}
	l4 := append([]byte(nil), o.l4...)
	l4[2], l4[3] = 0, 0
	if c44Checksum(o.dstIA, o.srcIA, o.dst.raw, o.src.raw, pSCMP, l4) != binary.BigEndian.Uint16(o.l4[2:]) {
		return "checksum"
	}
	return ""
}

// judge compares one result with the exact expectation. class names the kind of packet for stable finding keys.
func (c *c44Ctx) judge(name, class string, env *c44EnvImpl, pkt []byte, p c44Parsed, exp c44Expect, res c44Result, t *c44Tally) {
	t.evals++
	t.distinct++
	ex := c44Example{Case: name, Env: env.name, Packet: fmt.Sprintf("%x", pkt), Observed: res.String()}
	if res.panic != nil {
		ex.Expected = "no panic"
		c.finding("panic/"+class, ex)
		return
	}
	if res.err != nil {
		ex.Expected = "recoverable handling (a returned error terminates Serve)"
		c.finding("fatal-error/"+class, ex)
		return
	}
	sent := res.addr.IsValid()
	switch exp.verdict {
	case vDrop:
		if sent {
			ex.Expected = "drop (" + exp.why + ")"
			c.finding("forwards-what-must-be-dropped/"+class, ex)
			return
		}
		t.out["dropped:"+exp.why]++
	case vForward, vEither:
		if !sent {
			if exp.verdict == vEither {
				t.out["either:dropped"]++
				return
			}
			ex.Expected = "forward to " + exp.target.String() + " (" + exp.why + ")"
			c.finding("drops-what-must-be-forwarded/"+class, ex)
			return
		}
		ex.Expected = "forward unchanged to " + exp.target.String() + " (" + exp.why + ")"
		if res.addr != exp.target {
			c.finding("forwards-to-wrong-address-or-port/"+class, ex)
			return
		}
		if res.addr.Addr().Unmap() != env.underlay.Unmap() {
			c.finding("forwards-to-host-other-than-outer-destination/"+class, ex)
			return
		}
		if !bytes.Equal(res.out, pkt) {
			c.finding("forwarded-bytes-modified/"+class, ex)
			return
		}
		if exp.verdict == vEither {
			t.out["either:forwarded-to-outer-destination"]++
		} else {
			t.out["forwarded:"+exp.why]++
		}
	case vReply:
		ex.Expected = "reply to previous hop " + env.prevHop.String()
		if !sent {
			if exp.mayDrop {
				t.out["request-with-unknown-address-type:dropped"]++
				return
			}
			c.finding("request-not-answered/"+class, ex)
			return
		}
		if res.addr != env.prevHop {
			c.finding("reply-not-sent-to-previous-hop/"+class, ex)
			return
		}
		if bad := checkReply(p, res.out); bad != "" {
			ex.Observed += fmt.Sprintf(" reply=%x", res.out)
			ex.Expected += " with swapped addresses, reversed path, reply type, same id/seq/data, valid checksum; wrong: " + bad
			key := fmt.Sprintf("reply-malformed/%s/request-path=%s", bad, ptNames[p.pathType])
			if bad == "upper-layer-not-scmp" || bad == "scmp-type-code" || bad == "lengths-inconsistent" {
				withE2E := "without-e2e"
				if bytes.IndexByte(p.exts, pE2E) >= 0 {
					withE2E = "with-e2e"
				}
				key = fmt.Sprintf("reply-malformed/%s/request-%s-extension", bad, withE2E)
			}
			c.finding(key, ex)
			return
		}
		t.out["replied-to-previous-hop"]++
	}
}

func c44Class(p c44Parsed) string {
	if !p.ok {
		return "unparsable"
	}
	switch p.l4proto {
	case pUDP:
		if p.dst.isSVC() {
			return "udp-to-svc"
		}
		return "udp"
	case pSCMP:
		if len(p.l4) == 0 {
			return "scmp"
		}
		switch p.l4[0] {
		case scmpEchoReq, scmpTrReq:
			return "scmp-info-request"
		case scmpEchoRep, scmpTrRep:
			return "scmp-info-reply"
		}
		if _, ok := scmpErrBodyLen[p.l4[0]]; ok {
			return "scmp-error"
		}
		return "scmp-unknown-type"
	}
	return "other-upper-layer"
}

// ---- families ----

// familyExact: every seed x every environment, exact verdict.
func (c *c44Ctx) familyExact(seeds []c44Seed, envs []c44EnvImpl) {
	mc.ParallelFor(len(seeds), func(i int) {
		if c.r.OutOfBudget() {
			return
		}
		t := &c44Tally{out: map[string]int64{}}
		defer c.merge(t)
		pkt := seeds[i].pkt.build()
		p := c44Parse(pkt)
		if !p.ok {
			c.r.HarnessError("seed does not parse: %s", seeds[i].name)
			return
		}
		for e := range envs {
			exp := specDispatch(p, envs[e].c44Env)
			c.judge(seeds[i].name, c44Class(p), &envs[e], pkt, p, exp, c44Run(&envs[e], pkt), t)
		}
	})
}

// familyTruncatedQuotes: SCMP errors whose quote is cut at every length.
func (c *c44Ctx) familyTruncatedQuotes(envs []c44EnvImpl) {
	type job struct {
		name string
		pkt  c44Pkt
	}
	var jobs []job
	quotes := map[string][]byte{
		"udp":        c44Quote(pUDP, udpL4(40001, 443, []byte("payload")), c44Host4, nil),
		"udp+hbh":    c44Quote(pUDP, udpL4(40003, 443, []byte("p")), c44Host4, []byte{pHBH}),
		"echo":       c44Quote(pSCMP, scmpL4(scmpEchoReq, 0, echoBody(0x7001, 1, []byte("xy"))), c44Host4, nil),
		"traceroute": c44Quote(pSCMP, scmpL4(scmpTrReq, 0, trBody(0x7002, 1, 0, 0)), c44Host4, nil),
	}
	qnames := []string{"udp", "udp+hbh", "echo", "traceroute"}
	for _, typ := range []byte{scmpDestUnreach, scmpParamProb, scmpExtIfDown, scmpIntConnDown} {
		for _, qn := range qnames {
			q := quotes[qn]
			for k := 0; k <= len(q); k++ {
				jobs = append(jobs, job{fmt.Sprintf("scmp-error-%d quote=%s cut to %d of %d bytes", typ, qn, k, len(q)),
					c44Pkt{dstIA: c44LocalIA, srcIA: c44RemoteIA, dst: c44Host4, src: c44Remote, pathType: ptSCION, path: scionPath(2, 2),
						l4proto: pSCMP, l4: scmpL4(typ, 0, append(errBody(typ), q[:k]...))}})
			}
		}
	}
	c.r.Extra["truncated_quote_packets"] = len(jobs)
	var sel []c44EnvImpl
	for _, e := range envs {
		if e.svcm.name == "none" {
			sel = append(sel, e)
		}
	}
	mc.ParallelFor(len(jobs), func(i int) {
		t := &c44Tally{out: map[string]int64{}}
		defer c.merge(t)
		pkt := jobs[i].pkt.build()
		p := c44Parse(pkt)
		for e := range sel {
			exp := specDispatch(p, sel[e].c44Env)
			c.judge(jobs[i].name, "scmp-error-truncated-quote", &sel[e], pkt, p, exp, c44Run(&sel[e], pkt), t)
		}
	})
}

// invariants for arbitrary (mutated) datagrams: whatever the bytes are, something is sent only (a) to the previous hop as
// answer to something that positionally is an echo/traceroute request, or (b) unchanged, with the dispatcher function
// on, to the outer destination, which must be the packet's destination host (or registered service) and the port found
// positionally.
func (c *c44Ctx) judgeMutant(name, family string, env *c44EnvImpl, pkt []byte, res c44Result, t *c44Tally) {
	t.evals++
	ex := c44Example{Case: name, Env: env.name, Packet: fmt.Sprintf("%x", pkt), Observed: res.String()}
	if res.panic != nil {
		ex.Expected = "no panic"
		c.finding("panic/"+family, ex)
		return
	}
	if res.err != nil {
		ex.Expected = "recoverable handling"
		c.finding("fatal-error/"+family, ex)
		return
	}
	if !res.addr.IsValid() {
		t.out["mutant:dropped"]++
		return
	}
	t.distinct++
	p := c44Parse(pkt)
	exp := specDispatch(p, env.c44Env)
	if res.addr == env.prevHop {
		if exp.verdict != vReply {
			ex.Expected = "nothing sent to the previous hop (not an echo/traceroute request)"
			c.finding("sends-to-previous-hop-without-request/"+family, ex)
			return
		}
		if bytes.Equal(res.out, pkt) {
			ex.Expected = "a reply, not the request itself"
			c.finding("reflects-request-unchanged/"+family, ex)
			return
		}
		t.out["mutant:replied-to-previous-hop"]++
		return
	}
	if !env.isDispatcher {
		ex.Expected = "drop (dispatcher function disabled)"
		c.finding("forwards-with-dispatcher-disabled/"+family, ex)
		return
	}
	if res.addr.Addr().Unmap() != env.underlay.Unmap() {
		ex.Expected = "never to a host other than the outer destination " + env.underlay.String()
		c.finding("forwards-to-host-other-than-outer-destination/"+family, ex)
		return
	}
	if !bytes.Equal(res.out, pkt) {
		ex.Expected = "forwarded bytes unchanged"
		c.finding("forwarded-bytes-modified/"+family, ex)
		return
	}
	if exp.verdict == vDrop || exp.verdict == vReply || res.addr != exp.target {
		ex.Expected = fmt.Sprintf("%v %s (%s)", map[c44Verdict]string{vDrop: "drop", vReply: "reply", vForward: "forward to", vEither: "drop or forward to"}[exp.verdict],
			exp.target, exp.why)
		c.finding("forward-target-not-derived-from-packet/"+family, ex)
		return
	}
	t.out["mutant:forwarded-to-derived-target"]++
}

func (c *c44Ctx) familyMutations(seeds []c44Seed, envs []c44EnvImpl) {
	// seeds: a spread of packet kinds (full cross product would be too large)
	want := map[string]bool{}
	for _, l4 := range []string{"udp:53", "echo-request", "traceroute-request", "echo-reply", "traceroute-reply",
		"scmp-error-1[quote=udp-srcport-40001]", "scmp-error-4[quote=echo-request]", "scmp-error-6[quote=traceroute-request]", "scmp-error-5[quote=udp+e2e]"} {
		for _, rest := range []string{"dst=ipv4 path=scion(2,3) ext=none", "dst=ipv6 path=empty ext=e2e", "dst=svc-CS path=onehop ext=hbh",
			"dst=v4-mapped path=epic(2,2) ext=hbh+e2e"} {
			want[l4+" "+rest] = true
		}
	}
	var sel []c44Seed
	for _, s := range seeds {
		if want[s.name] {
			sel = append(sel, s)
		}
	}
	c.r.Extra["mutation_seeds"] = len(sel)
	var es []c44EnvImpl
	for _, e := range envs {
		if e.svcm.name == "CS->10.0.0.1:30252" && (!e.isDispatcher || e.underlay == netip.MustParseAddr("10.0.0.1") ||
			e.underlay == netip.MustParseAddr("fd00::1") || e.underlay == netip.MustParseAddr("10.0.0.2")) {
			es = append(es, e)
		}
	}
	values := mc.Pick([]byte{0x00, 0xff}, []byte{0x00, 0x01, 0x7f, 0x80, 0xff})
	var nMut int64
	mc.ParallelFor(len(sel), func(i int) {
		t := &c44Tally{out: map[string]int64{}}
		defer c.merge(t)
		base := sel[i].pkt.build()
		try := func(name string, pkt []byte) {
			if c.r.OutOfBudget() {
				return
			}
			for e := range es {
				c.judgeMutant(sel[i].name+" "+name, "mutated-datagram", &es[e], pkt, c44Run(&es[e], pkt), t)
			}
		}
		for n := 0; n < len(base); n++ {
			try(fmt.Sprintf("truncated to %d", n), base[:n])
		}
		for off := 0; off < len(base); off++ {
			for _, v := range values {
				if base[off] == v {
					continue
				}
				m := append([]byte(nil), base...)
				m[off] = v
				try(fmt.Sprintf("byte %d := %#02x", off, v), m)
			}
			for bit := 0; bit < 8; bit++ {
				m := append([]byte(nil), base...)
				m[off] ^= 1 << bit
				try(fmt.Sprintf("byte %d bit %d flipped", off, bit), m)
			}
		}
		// all values of the structural bytes: NextHdr, HdrLen, PathType, DT/DL/ST/SL and the first byte of the upper layer
		p := c44Parse(base)
		l4off := len(base) - len(p.l4)
		for _, off := range []int{4, 5, 8, 9, l4off, l4off + 1} {
			for v := 0; v < 256; v++ {
				m := append([]byte(nil), base...)
				m[off] = byte(v)
				try(fmt.Sprintf("byte %d := %#02x", off, v), m)
			}
		}
		// thorough: all 65536 value pairs of pairs of structural bytes, on the plain seeds
		if mc.Thorough() && strings.HasSuffix(sel[i].name, "dst=ipv4 path=scion(2,3) ext=none") {
			for _, pr := range [][2]int{{4, l4off}, {9, l4off}, {5, 9}, {8, 5}, {l4off, l4off + 1}} {
				for v := 0; v < 65536; v++ {
					m := append([]byte(nil), base...)
					m[pr[0]], m[pr[1]] = byte(v>>8), byte(v)
					try(fmt.Sprintf("bytes %d,%d := %#04x", pr[0], pr[1], v), m)
				}
			}
		}
		c.mu.Lock()
		nMut += t.evals
		c.mu.Unlock()
	})
	c.r.Extra["mutated_datagram_evaluations"] = nMut
}

// familyState: one Server instance processes packet A and then packet B; B's result must be what a fresh Server gives
// (the Server reuses its decoded layers between packets).
func (c *c44Ctx) familyState(seeds []c44Seed, envs []c44EnvImpl) {
	var sel []c44Seed
	for _, s := range seeds {
		for _, rest := range []string{"dst=ipv4 path=scion(2,3) ext=none", "dst=ipv6 path=epic(2,2) ext=e2e", "dst=svc-CS path=onehop ext=hbh+e2e",
			"dst=ipv4 path=empty ext=hbh"} {
			if len(s.name) > len(rest) && s.name[len(s.name)-len(rest):] == rest {
				sel = append(sel, s)
			}
		}
	}
	if !mc.Thorough() {
		var few []c44Seed
		for i, s := range sel {
			if i%3 == 0 {
				few = append(few, s)
			}
		}
		sel = few
	}
	c.r.Extra["state_pair_seeds"] = len(sel)
	var es []*c44EnvImpl
	for i := range envs {
		if envs[i].svcm.name == "CS->10.0.0.1:30252" && (!envs[i].isDispatcher || envs[i].underlay == netip.MustParseAddr("10.0.0.1")) {
			es = append(es, &envs[i])
		}
	}
	pkts := make([][]byte, len(sel))
	for i := range sel {
		pkts[i] = sel[i].pkt.build()
	}
	mc.ParallelFor(len(sel), func(a int) {
		t := &c44Tally{out: map[string]int64{}}
		defer c.merge(t)
		for _, env := range es {
			fresh := make([]c44Result, len(sel))
			for b := range sel {
				fresh[b] = c44Run(env, pkts[b])
			}
			for b := range sel {
				if c.r.OutOfBudget() {
					return
				}
				var res c44Result
				res.panic = mc.Safely(func() {
					srv := dispatcher.VerifNewServer(env.isDispatcher, env.svcm.impl)
					srv.VerifProcessMsgNextHop(append([]byte(nil), pkts[a]...), env.underlay, env.prevHop)
					out, ad, err := srv.VerifProcessMsgNextHop(append([]byte(nil), pkts[b]...), env.underlay, env.prevHop)
					res.out, res.addr, res.err = append([]byte(nil), out...), ad, err
				})
				t.evals++
				t.distinct++
				if res.String() != fresh[b].String() || !bytes.Equal(res.out, fresh[b].out) {
					c.finding("result-depends-on-previous-packet", c44Example{Case: "after [" + sel[a].name + "] then [" + sel[b].name + "]", Env: env.name,
						Packet: fmt.Sprintf("%x", pkts[b]), Observed: res.String(), Expected: "same as on a fresh server: " + fresh[b].String()})
				} else {
					t.out["state:second-packet-same-as-fresh"]++
				}
			}
		}
	})
	// Disturbed predecessors: packet A is a structural-byte mutant (all 256 values of NextHdr, HdrLen, PathType, the address
	// type/length byte and the first two bytes of the upper layer) of a spread of packet kinds - datagrams on which the Server
	// gives up half way through decoding or answering - and packet B a well-formed datagram of every upper-layer kind.
	var preds, succ []c44Seed
	for _, s := range seeds {
		for _, rest := range []string{"dst=ipv4 path=scion(2,3) ext=none", "dst=ipv6 path=empty ext=e2e", "dst=svc-CS path=onehop ext=hbh"} {
			if !strings.HasSuffix(s.name, " "+rest) {
				continue
			}
			for _, l4 := range []string{"udp:53", "echo-request", "traceroute-request", "echo-reply", "traceroute-reply",
				"scmp-error-1[quote=udp-srcport-40001]", "scmp-error-4[quote=echo-request]"} {
				if s.name == l4+" "+rest {
					preds = append(preds, s)
				}
			}
		}
		if strings.HasSuffix(s.name, " dst=ipv4 path=scion(2,3) ext=none") {
			succ = append(succ, s)
		}
	}
	if !mc.Thorough() {
		var few []c44Seed
		for i, s := range succ {
			if i%3 == 0 || strings.HasPrefix(s.name, "udp:53 ") {
				few = append(few, s)
			}
		}
		succ = few
	}
	c.r.Extra["state_disturbed_predecessor_seeds"] = len(preds)
	c.r.Extra["state_disturbed_successors"] = len(succ)
	spk := make([][]byte, len(succ))
	for i := range succ {
		spk[i] = succ[i].pkt.build()
	}
	mc.ParallelFor(len(preds), func(a int) {
		t := &c44Tally{out: map[string]int64{}}
		defer c.merge(t)
		base := preds[a].pkt.build()
		l4off := len(base) - len(c44Parse(base).l4)
		for _, env := range es {
			fresh := make([]c44Result, len(succ))
			for b := range succ {
				fresh[b] = c44Run(env, spk[b])
			}
			for _, off := range []int{4, 5, 8, 9, l4off, l4off + 1} {
				for v := 0; v < 256; v++ {
					if c.r.OutOfBudget() {
						return
					}
					m := append([]byte(nil), base...)
					m[off] = byte(v)
					for b := range succ {
						var res c44Result
						res.panic = mc.Safely(func() {
							srv := dispatcher.VerifNewServer(env.isDispatcher, env.svcm.impl)
							srv.VerifProcessMsgNextHop(append([]byte(nil), m...), env.underlay, env.prevHop)
							out, ad, err := srv.VerifProcessMsgNextHop(append([]byte(nil), spk[b]...), env.underlay, env.prevHop)
							res.out, res.addr, res.err = append([]byte(nil), out...), ad, err
						})
						t.evals++
						if res.String() != fresh[b].String() || !bytes.Equal(res.out, fresh[b].out) {
							c.finding("result-depends-on-previous-packet", c44Example{Case: fmt.Sprintf("after [%s with byte %d := %#02x] then [%s]", preds[a].name, off, v, succ[b].name),
								Env: env.name, Packet: fmt.Sprintf("%x then %x", m, spk[b]), Observed: res.String(), Expected: "same as on a fresh server: " + fresh[b].String()})
						} else {
							t.out["state:after-disturbed-predecessor-same-as-fresh"]++
						}
					}
				}
			}
		}
	})
}

func TestC44(t *testing.T) {
	r := mc.NewRun(t, "C44", mc.Exploration)
	r.Rule = "exact: every seed datagram = L4 kind (4 UDP, echo/traceroute request+reply, 5 SCMP error types x 10 quoted packets, unknown " +
		"SCMP types, TCP, unknown L4) x 9 destination host kinds (IPv4, IPv6, v4-mapped, 4 SVC, unknown type, SVC in another ISD-AS) x 6 paths (empty, 3 SCION " +
		"shapes, EPIC, one-hop) x 4 extension-header sets, x every environment = 3 service maps x (dispatcher on x 7 outer destinations " +
		"{equal v4, equal as v4-mapped, equal v6, other, service host, raw-SVC-bytes, previous hop} + dispatcher off with no / 3 outer destinations); SCMP errors with the " +
		"quote cut at every length; mutation: 36 seeds x (truncation to every length, every byte x {0x00,0xff (thorough +0x01,0x7f,0x80)} and " +
		"every single-bit flip, all 256 values of NextHdr/HdrLen/PathType/addr-type/L4 type+code; thorough: all 65536 value pairs of 5 pairs of these bytes on 9 seeds) x 7 environments against send-invariants; " +
		"state: ordered pairs of datagrams on one Server vs a fresh Server. A case = (datagram bytes, environment); non-trivial = exact " +
		"cases, and mutants for which something is sent"
	r.Assumptions = []string{
		"SCMP messages whose destination host is not an IP address (SVC / unknown type): drop or forward to the outer destination are both " +
			"accepted (the statement defines no host for them); forwarding anywhere else is a violation",
		"truncated quotes / truncated reply bodies in which the port-bearing field is still present: drop or forward to that port both accepted",
		"extension headers of an answered request may be dropped or kept; the reply must be a well-formed SCMP reply either way",
		"an IPv4-mapped IPv6 host address and the IPv4 address are the same host (the reply may carry either form)",
		"well-formed UDP datagrams, info replies and SCMP errors whose derived host equals the outer destination (also modulo the " +
			"IPv4-mapped form) must be forwarded; the statement itself only restricts where packets may go",
		"a returned non-nil error (terminates Serve) and a panic are counted as violations of 'drops everything else'",
		"the outer destination reaches processMsgNextHop as the parsed IP_PKTINFO address; socket reading itself is not modelled",
	}
	c := &c44Ctx{r: r, found: map[string]c44Example{}, tallies: map[string]int64{}}
	phases := map[string]float64{}
	last := time.Now()
	phase := func(name string) { phases[name] = time.Since(last).Seconds(); last = time.Now() }

	seeds := c44Seeds()
	envs := c44Envs()
	r.Extra["seeds"] = len(seeds)
	r.Extra["environments"] = len(envs)
	c.familyExact(seeds, envs)
	phase("exact")
	c.familyTruncatedQuotes(envs)
	phase("truncated-quotes")
	c.familyState(seeds, envs)
	phase("state")
	c.familyMutations(seeds, envs)
	phase("mutations")
	r.Extra["phase_wall_s"] = phases
	if r.OutOfBudget() {
		r.Capped("stopped by the time budget")
	}

	r.CaseBulk(c.evals, c.distinct)
	keys := make([]string, 0, len(c.tallies))
	for k := range c.tallies {
		keys = append(keys, k)
	}
	sort.Strings(keys)
	for _, k := range keys {
		for i := int64(0); i < c.tallies[k]; i++ {
			r.Outcome(k)
		}
	}
	for _, i := range []int{0, len(seeds) / 3, len(seeds) / 2, len(seeds) - 1} {
		r.Sample(map[string]any{"datagram": seeds[i].name, "hex": fmt.Sprintf("%x", seeds[i].pkt.build())})
	}
	fkeys := make([]string, 0, len(c.found))
	for k := range c.found {
		fkeys = append(fkeys, k)
	}
	sort.Strings(fkeys)
	for _, k := range fkeys {
		r.Violation(k, c.found[k])
	}
	r.Finish(6)
}
