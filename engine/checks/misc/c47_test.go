package misc

import (
	"encoding/json"
	"fmt"
	"net"
	"sort"
	"strings"
	"sync"
	"testing"
	"time"

	"github.com/scionproto/scion/pkg/addr"
	"github.com/scionproto/scion/pkg/segment/iface"
	"github.com/scionproto/scion/pkg/snet"
	"github.com/scionproto/scion/private/path/pathpol"

	"verif/mc"
)

// C47: path-policy sequences keep exactly the paths in the language of their expression; ACL / policy filters return
// exactly the accepted input paths in input order. Reference semantics: c47_ref.go.

// ---- paths ----

type c47Path struct {
	hops []c47Hop
	meta *snet.PathMetadata
	txt  string
}

func (p *c47Path) UnderlayNextHop() *net.UDPAddr    { return nil }
func (p *c47Path) Dataplane() snet.DataplanePath    { return nil }
func (p *c47Path) Metadata() *snet.PathMetadata     { return p.meta }
func (p *c47Path) Source() addr.IA                  { return p.ia(0) }
func (p *c47Path) Destination() addr.IA             { return p.ia(len(p.hops) - 1) }
func (p *c47Path) ia(i int) addr.IA {
	if i < 0 || i >= len(p.hops) {
		return 0
	}
	return addr.IA(p.hops[i].isd<<48 | p.hops[i].as)
}

func newC47Path(hops []c47Hop) *c47Path {
	p := &c47Path{hops: append([]c47Hop(nil), hops...), meta: &snet.PathMetadata{}}
	var parts []string
	for i, h := range p.hops {
		ia := addr.IA(h.isd<<48 | h.as)
		if i > 0 {
			p.meta.Interfaces = append(p.meta.Interfaces, snet.PathInterface{ID: iface.ID(h.in), IA: ia})
		}
		if i < len(p.hops)-1 {
			p.meta.Interfaces = append(p.meta.Interfaces, snet.PathInterface{ID: iface.ID(h.out), IA: ia})
		}
		parts = append(parts, fmt.Sprintf("%d-%s#%d,%d", h.isd, c47CanonicalAS(h.as), h.in, h.out))
	}
	p.txt = strings.Join(parts, " ")
	return p
}

// c47Paths: every hop list with len in lens over ias x interface ids (first inbound and last outbound are 0).
func c47Paths(ias [][2]uint64, ifs []uint64, lens []int) []*c47Path {
	var out []*c47Path
	for _, n := range lens {
		if n == 0 {
			out = append(out, newC47Path(nil))
			continue
		}
		hops := make([]c47Hop, n)
		var rec func(i int)
		rec = func(i int) {
			if i == n {
				out = append(out, newC47Path(hops))
				return
			}
			ins, outs := ifs, ifs
			if i == 0 {
				ins = []uint64{0}
			}
			if i == n-1 {
				outs = []uint64{0}
			}
			for _, ia := range ias {
				for _, in := range ins {
					for _, o := range outs {
						hops[i] = c47Hop{isd: ia[0], as: ia[1], in: in, out: o}
						rec(i + 1)
					}
				}
			}
		}
		rec(0)
	}
	return out
}

func toSnet(ps []*c47Path) []snet.Path {
	out := make([]snet.Path, len(ps))
	for i, p := range ps {
		out[i] = p
	}
	return out
}

// ---- bookkeeping (deterministic: smallest example per finding key) ----

type c47Example struct {
	Expr     string `json:"expression"`
	Path     string `json:"path"`
	Observed string `json:"observed"`
	Expected string `json:"expected"`
	Note     string `json:"note,omitempty"`
}

type c47Ref struct {
	tree *c47Node
	path *c47Path
}

func c47Less(a, b c47Example) bool {
	if len(a.Expr) != len(b.Expr) {
		return len(a.Expr) < len(b.Expr)
	}
	if a.Expr != b.Expr {
		return a.Expr < b.Expr
	}
	if len(a.Path) != len(b.Path) {
		return len(a.Path) < len(b.Path)
	}
	return a.Path < b.Path
}

type c47Ctx struct {
	r        *mc.Run
	mu       sync.Mutex
	found    map[string]c47Example
	spelling map[string]c47Example // AS-spelling discrepancies, one root cause
	spellN   map[string]int64
	spellRef map[string]c47Ref
	tallies  map[string]int64
	evals    int64
	distinct int64
	seen     map[string]bool
	// one example per filter API of a path on which the per-hop and the per-interface reading of an ACL differ
	readingEx map[string]c47Example
}

func (c *c47Ctx) finding(key string, ex c47Example) {
	c.mu.Lock()
	if old, ok := c.found[key]; !ok || c47Less(ex, old) {
		c.found[key] = ex
	}
	c.mu.Unlock()
}

func (c *c47Ctx) spellingFinding(kind string, ex c47Example, ref c47Ref) {
	c.mu.Lock()
	if old, ok := c.spelling[kind]; !ok || c47Less(ex, old) {
		c.spelling[kind] = ex
		c.spellRef[kind] = ref
	}
	c.spellN[kind]++
	c.mu.Unlock()
}

type c47Tally struct {
	out             map[string]int64
	evals, distinct int64
}

func (c *c47Ctx) merge(t *c47Tally) {
	c.mu.Lock()
	for k, v := range t.out {
		c.tallies[k] += v
	}
	c.evals += t.evals
	c.distinct += t.distinct
	c.mu.Unlock()
}

// firstTime: true once per (path set, expression text).
func (c *c47Ctx) firstTime(set, expr string) bool {
	c.mu.Lock()
	defer c.mu.Unlock()
	k := set + "|" + expr
	if c.seen[k] {
		return false
	}
	c.seen[k] = true
	return true
}

// keptFlags runs a filter of the implementation and returns, per input index, how often the path object appears in the
// output, and whether the output is a subsequence of the input (input order kept).
func keptFlags(in []snet.Path, out []snet.Path, index map[snet.Path][]int) (counts []int, ordered bool, foreign bool) {
	counts = make([]int, len(in))
	ordered = true
	// the output must be obtainable by deleting elements from the input: greedy subsequence walk
	pos := 0
	for _, o := range out {
		if _, ok := index[o]; !ok {
			foreign = true
			continue
		}
		found := false
		for pos < len(in) {
			if in[pos] == o {
				counts[pos]++
				pos++
				found = true
				break
			}
			pos++
		}
		if !found {
			ordered = false
			counts[index[o][0]]++
		}
	}
	return
}

func indexOf(in []snet.Path) map[snet.Path][]int {
	m := map[snet.Path][]int{}
	for i, p := range in {
		m[p] = append(m[p], i)
	}
	return m
}

// ---- sequences ----

type c47Set struct {
	name  string
	paths []*c47Path
	snet  []snet.Path
	index map[snet.Path][]int
}

func mkSet(name string, ps []*c47Path) *c47Set {
	s := &c47Set{name: name, paths: ps, snet: toSnet(ps)}
	s.index = indexOf(s.snet)
	return s
}

// evalSequence compares one printed expression with the reference tree on every path of the set.
func (c *c47Ctx) evalSequence(set *c47Set, tree *c47Node, expr, form string, t *c47Tally) {
	if !c.firstTime(set.name, expr) {
		return
	}
	preds := tree.preds(nil)
	spell := ""
	for _, p := range preds {
		if s := p.spelling(); s != "" {
			spell = s
		}
	}
	var seq *pathpol.Sequence
	var err error
	var out []snet.Path
	if p := mc.Safely(func() {
		seq, err = pathpol.NewSequence(expr)
		if err == nil {
			out = seq.Eval(set.snet)
		}
	}); p != nil {
		c.finding("Sequence/panic", c47Example{Expr: expr, Observed: fmt.Sprint(p), Expected: "no panic"})
		return
	}
	if err != nil {
		c.finding("NewSequence/rejects-valid-expression["+form+"]", c47Example{Expr: expr, Observed: err.Error(), Expected: "compiles"})
		return
	}
	counts, ordered, foreign := keptFlags(set.snet, out, set.index)
	if !ordered || foreign {
		c.finding("Sequence.Eval/output-not-an-ordered-sublist-of-input", c47Example{Expr: expr,
			Observed: fmt.Sprintf("ordered=%v foreign=%v", ordered, foreign), Expected: "input order, input elements only"})
	}
	for i, p := range set.paths {
		want := tree.accepts(p.hops)
		got := counts[i] > 0
		t.evals++
		nontrivial := want || got
		if !nontrivial {
			for _, pr := range preds {
				for _, h := range p.hops {
					if pr.matches(h) {
						nontrivial = true
					}
				}
			}
		}
		if nontrivial {
			t.distinct++
		}
		if counts[i] > 1 {
			c.finding("Sequence.Eval/duplicates-a-path", c47Example{Expr: expr, Path: p.txt, Observed: fmt.Sprint(counts[i]), Expected: "<=1"})
		}
		if got == want {
			if spell != "" {
				t.out["seq:alt-as-spelling-agrees"]++
			} else if want {
				t.out["seq:kept-in-language"]++
			} else {
				t.out["seq:dropped-not-in-language"]++
			}
			continue
		}
		ex := c47Example{Expr: expr, Path: p.txt, Observed: fmt.Sprintf("kept=%v", got), Expected: fmt.Sprintf("kept=%v", want)}
		if spell != "" {
			t.out["seq:alt-as-spelling-discrepancy"]++
			c.spellingFinding(spell, ex, c47Ref{tree, p})
			continue
		}
		if got {
			c.finding("Sequence.Eval["+form+"]/keeps-path-outside-language", ex)
		} else {
			c.finding("Sequence.Eval["+form+"]/drops-path-in-language", ex)
		}
	}
}

// c47Canonicalise returns a copy of the tree with every AS written in the canonical spelling.
func c47Canonicalise(n *c47Node) *c47Node {
	if n == nil {
		return nil
	}
	out := &c47Node{kind: n.kind, l: c47Canonicalise(n.l), r: c47Canonicalise(n.r)}
	if n.pred != nil {
		p := *n.pred
		if p.hasAS {
			p.asText = c47CanonicalAS(p.as)
		}
		out.pred = &p
	}
	return out
}

// family H: every hop predicate of a large alphabet in a few contexts, against a path set with textual near-misses
// (ISD 1 vs 12, AS ff00:0:11 vs ff00:0:110, interface 1 vs 12).
func (c *c47Ctx) familyH() {
	ias := [][2]uint64{{1, 64512}, {1, 0xff00_0000_0110}, {1, 0xff00_0000_0011}, {12, 64512}}
	lens := []int{2, 3}
	set := mkSet("H", c47Paths(ias, []uint64{1, 2, 12}, lens))
	c.r.Extra["H_paths"] = len(set.paths)
	preds := c47PredAlphabet()
	c.r.Extra["H_predicates"] = len(preds)
	any := &c47Node{kind: kStar, l: &c47Node{kind: kHop, pred: mkPred(0, "")}}
	contexts := []func(h *c47Node) *c47Node{
		func(h *c47Node) *c47Node { return &c47Node{kind: kCat, l: &c47Node{kind: kCat, l: any, r: h}, r: any} }, // 0* p 0*
		func(h *c47Node) *c47Node { return &c47Node{kind: kCat, l: h, r: any} },                                  // p 0*
		func(h *c47Node) *c47Node { return &c47Node{kind: kCat, l: any, r: h} },                                  // 0* p
	}
	if mc.Thorough() {
		contexts = append(contexts,
			func(h *c47Node) *c47Node { return &c47Node{kind: kPlus, l: h} },
			func(h *c47Node) *c47Node { return &c47Node{kind: kCat, l: h, r: h} },
			func(h *c47Node) *c47Node {
				return &c47Node{kind: kCat, l: &c47Node{kind: kHop, pred: mkPred(0, "")}, r: &c47Node{kind: kCat, l: h, r: &c47Node{kind: kHop, pred: mkPred(0, "")}}}
			})
	}
	mc.ParallelFor(len(preds), func(i int) {
		if c.r.OutOfBudget() {
			return
		}
		t := &c47Tally{out: map[string]int64{}}
		defer c.merge(t)
		for _, ctx := range contexts {
			tree := ctx(&c47Node{kind: kHop, pred: preds[i]})
			c.evalSequence(set, tree, tree.minimal(), "hop-predicate", t)
		}
	})
}

// family S: all expression trees up to a node count over a small predicate alphabet, printed fully parenthesised and
// with minimal parentheses.
func (c *c47Ctx) familyS() {
	ias := [][2]uint64{{1, 64512}, {1, 0xff00_0000_0110}, {2, 0xff00_0000_0110}}
	small := mkSet("S3", c47Paths(ias, []uint64{1, 2}, []int{0, 2, 3}))
	big := mkSet("S4", c47Paths(ias, []uint64{1, 2}, []int{4}))
	c.r.Extra["S_paths_upto3"] = len(small.paths)
	leaves := []*c47Pred{mkPred(0, ""), mkPred(1, ""), mkPred(2, "0"), mkPred(1, "ff00:0:110"), mkPred(1, "64512", 1),
		mkPred(1, "ff00:0:110", 2, 1)}
	maxSize := mc.Pick(5, 6)
	c.r.Extra["S_max_nodes"] = maxSize
	bySize := c47Trees(leaves, maxSize)
	var all []*c47Node
	for s := 1; s <= maxSize; s++ {
		all = append(all, bySize[s]...)
	}
	c.r.Extra["S_trees"] = len(all)
	bigMax := 0
	if mc.Thorough() {
		bigMax = 5
		c.r.Extra["S_paths_4hops"] = len(big.paths)
	}
	sizeOf := map[*c47Node]int{}
	for s := 1; s <= maxSize; s++ {
		for _, n := range bySize[s] {
			sizeOf[n] = s
		}
	}
	const chunk = 64
	nChunks := (len(all) + chunk - 1) / chunk
	mc.ParallelFor(nChunks, func(ci int) {
		t := &c47Tally{out: map[string]int64{}}
		defer c.merge(t)
		for i := ci * chunk; i < len(all) && i < (ci+1)*chunk; i++ {
			if c.r.OutOfBudget() {
				return
			}
			tree := all[i]
			c.evalSequence(small, tree, tree.full(), "full-parentheses", t)
			c.evalSequence(small, tree, tree.minimal(), "minimal-parentheses", t)
			if sizeOf[tree] <= bigMax {
				c.evalSequence(big, tree, tree.minimal(), "minimal-parentheses", t)
			}
		}
	})
	// a few alternative spacings of the same trees
	t := &c47Tally{out: map[string]int64{}}
	defer c.merge(t)
	for _, n := range bySize[3] {
		if n.kind == kOr || n.kind == kCat {
			e := n.minimal()
			c.evalSequence(small, n, "  "+strings.ReplaceAll(e, " ", "\t ")+" ", "alt-spacing", t)
			c.evalSequence(small, n, "( "+strings.ReplaceAll(e, "|", " |  ")+" )", "alt-spacing", t)
		}
	}
	// the empty expression keeps everything
	if seq, err := pathpol.NewSequence(""); err != nil || len(seq.Eval(small.snet)) != len(small.snet) {
		c.finding("Sequence.Eval/empty-expression-filters", c47Example{Expr: "", Observed: fmt.Sprint(err), Expected: "all paths kept"})
	} else {
		t.out["seq:empty-keeps-all"]++
	}
}

// ---- ACL ----

func mkACL(entries []c47ACLEntry, defaultText string) (*pathpol.ACL, string, error) {
	var es []*pathpol.ACLEntry
	var texts []string
	for _, e := range entries {
		s := "- "
		if e.allow {
			s = "+ "
		}
		if e.pred == nil {
			s = defaultText
		} else {
			s += e.pred.text()
		}
		texts = append(texts, s)
		var ae pathpol.ACLEntry
		if err := ae.LoadFromString(s); err != nil {
			return nil, strings.Join(texts, "; "), err
		}
		es = append(es, &ae)
	}
	acl, err := pathpol.NewACL(es...)
	return acl, strings.Join(texts, "; "), err
}

// orders: input lists derived from a path set: forward; reversed followed by forward (every path twice).
func c47Orders(set *c47Set) [][]int {
	fwd := make([]int, len(set.paths))
	for i := range fwd {
		fwd[i] = i
	}
	var rev []int
	for i := len(fwd) - 1; i >= 0; i-- {
		rev = append(rev, i)
	}
	return [][]int{fwd, append(rev, fwd...)}
}

// c47Want: which positions of an input list must be kept, under each reading of the ACL unit.
type c47Want [2][]bool

func equalPaths(a, b []snet.Path) bool {
	if len(a) != len(b) {
		return false
	}
	for i := range a {
		if a[i] != b[i] {
			return false
		}
	}
	return true
}

// checkFilter compares the output of a filter for one input list with the expected output (kept elements, in input order,
// pointer identity) under the per-hop and the per-interface reading; the output must equal one of them.
func (c *c47Ctx) checkFilter(api, desc string, set *c47Set, order []int, out []snet.Path, want c47Want, t *c47Tally) {
	var lists [2][]snet.Path
	differ := int64(0)
	for pos, i := range order {
		for r := 0; r < 2; r++ {
			if want[r][pos] {
				lists[r] = append(lists[r], set.snet[i])
			}
		}
		if want[0][pos] != want[1][pos] {
			differ++
		}
	}
	t.evals += int64(len(order))
	t.distinct += int64(len(order))
	for _, r := range []c47Reading{byInterface, byHop} {
		if !equalPaths(lists[r], out) {
			continue
		}
		if differ == 0 {
			t.out[api+":kept"] += int64(len(out))
			t.out[api+":dropped"] += int64(len(order) - len(out))
		} else {
			t.out[api+":kept"] += int64(len(out))
			t.out[api+":dropped"] += int64(len(order) - len(out))
			t.out[api+":hop-and-interface-readings-differ:follows-"+r.String()] += differ
			// remember one example of the difference (observation, not a violation)
			for pos, i := range order {
				if want[0][pos] != want[1][pos] {
					c.mu.Lock()
					ex := c47Example{Expr: desc, Path: set.paths[i].txt, Observed: fmt.Sprintf("kept=%v (%s reading)", want[r][pos], r),
						Expected: fmt.Sprintf("per-hop reading kept=%v, per-interface reading kept=%v", want[byHop][pos], want[byInterface][pos])}
					if old, ok := c.readingEx[api]; !ok || c47Less(ex, old) {
						c.readingEx[api] = ex
					}
					c.mu.Unlock()
					break
				}
			}
		}
		return
	}
	// violation: classify against the positions on which both readings agree
	om := map[snet.Path]int{}
	for _, p := range out {
		om[p]++
	}
	ex := c47Example{Expr: desc, Observed: fmt.Sprintf("%d paths", len(out)),
		Expected: fmt.Sprintf("%d paths (per-hop reading) or %d paths (per-interface reading), in input order", len(lists[byHop]), len(lists[byInterface]))}
	occ := map[snet.Path]int{}
	for _, i := range order {
		occ[set.snet[i]]++
	}
	for pos, i := range order {
		p := set.snet[i]
		if want[0][pos] != want[1][pos] {
			continue
		}
		wantN := 0
		if want[0][pos] {
			wantN = occ[p]
		}
		if om[p] != wantN {
			ex.Path = set.paths[i].txt
			ex.Observed = fmt.Sprintf("kept %d of %d occurrences", om[p], occ[p])
			ex.Expected = fmt.Sprintf("kept=%v under both readings", want[0][pos])
			c.finding(api+"/wrong-set-of-paths", ex)
			return
		}
	}
	for p := range om {
		if occ[p] == 0 {
			c.finding(api+"/output-contains-foreign-path", ex)
			return
		}
	}
	sameMulti := func(l []snet.Path) bool {
		m := map[snet.Path]int{}
		for _, p := range l {
			m[p]++
		}
		if len(m) != len(om) {
			return false
		}
		for p, n := range m {
			if om[p] != n {
				return false
			}
		}
		return true
	}
	if sameMulti(lists[0]) || sameMulti(lists[1]) {
		c.finding(api+"/output-order-differs-from-input-order", ex)
		return
	}
	c.finding(api+"/mixes-per-hop-and-per-interface-readings", ex)
}

func pick(set *c47Set, order []int) []snet.Path {
	out := make([]snet.Path, len(order))
	for i, j := range order {
		out[i] = set.snet[j]
	}
	return out
}

func (c *c47Ctx) familyACL(set *c47Set) {
	plain := []*c47Pred{mkPred(1, ""), mkPred(2, ""), mkPred(1, "64512"), mkPred(1, "ff00:0:110"), mkPred(0, "64512"),
		mkPred(2, "FF00:0:110"), mkPred(2, "0")}
	// hop predicates with interfaces (A = 1-ff00:0:110, B = 1-64512, C = 2-ff00:0:110), every form: #if, #in,0, #0,out, #in,out,
	// #0, #0,0, mixed with interface-free ones so that first-match order matters
	mixed := []*c47Pred{mkPred(1, ""), mkPred(1, "ff00:0:110"), mkPred(2, "0"),
		mkPred(1, "ff00:0:110", 1), mkPred(1, "ff00:0:110", 2), mkPred(1, "ff00:0:110", 1, 0), mkPred(1, "ff00:0:110", 0, 1),
		mkPred(1, "ff00:0:110", 1, 2), mkPred(1, "ff00:0:110", 2, 2), mkPred(1, "ff00:0:110", 0), mkPred(1, "ff00:0:110", 0, 0),
		mkPred(1, "64512", 2, 1), mkPred(1, "64512", 2, 0), mkPred(2, "ff00:0:110", 0, 2), mkPred(0, "ff00:0:110", 1), mkPred(1, "FF00:0:110", 2, 0)}
	maxK := mc.Pick(2, 3)
	orders := c47Orders(set)
	type job struct {
		entries []c47ACLEntry
		def     string
		api     string
	}
	var jobs []job
	gen := func(preds []*c47Pred, api string, maxK int) {
		var cur []c47ACLEntry
		var rec func(k int)
		rec = func(k int) {
			for di, def := range []string{"+", "-", "+ 0", "- 0-0#0"} {
				if di >= 2 && len(cur) > 1 {
					continue // the long spellings of the default only on short lists
				}
				e := append(append([]c47ACLEntry(nil), cur...), c47ACLEntry{allow: def[0] == '+'})
				jobs = append(jobs, job{e, def, api})
			}
			if k == maxK {
				return
			}
			for _, p := range preds {
				for _, a := range []bool{true, false} {
					cur = append(cur, c47ACLEntry{allow: a, pred: p})
					rec(k + 1)
					cur = cur[:len(cur)-1]
				}
			}
		}
		rec(0)
	}
	gen(plain, "ACL.Eval", maxK)
	gen(mixed, "ACL.Eval(interface-predicates)", maxK)
	c.r.Extra["ACLs"] = len(jobs)
	// per-path verdicts of the reference do not depend on the list: compute once per ACL
	mc.ParallelFor(len(jobs), func(ji int) {
		if c.r.OutOfBudget() {
			return
		}
		j := jobs[ji]
		t := &c47Tally{out: map[string]int64{}}
		defer c.merge(t)
		acl, desc, err := mkACL(j.entries, j.def)
		if err != nil {
			c.finding("NewACL/rejects-valid-acl", c47Example{Expr: desc, Observed: err.Error(), Expected: "accepted"})
			return
		}
		var verdict [2][]bool
		for r := 0; r < 2; r++ {
			verdict[r] = make([]bool, len(set.paths))
			for i := range set.paths {
				verdict[r][i] = c47ACLAccepts(j.entries, set.paths[i].hops, c47Reading(r))
			}
		}
		for _, order := range orders {
			var out []snet.Path
			if p := mc.Safely(func() { out = acl.Eval(pick(set, order)) }); p != nil {
				c.finding("ACL.Eval/panic", c47Example{Expr: desc, Observed: fmt.Sprint(p), Expected: "no panic"})
				return
			}
			var want c47Want
			for r := 0; r < 2; r++ {
				want[r] = make([]bool, len(order))
				for pos, i := range order {
					want[r][pos] = verdict[r][i]
				}
			}
			c.checkFilter(j.api, desc, set, order, out, want, t)
		}
	})
}

// ---- hop predicate text ----

// c47PredAlphabet: the full hop predicate alphabet (also used by family H).
func c47PredAlphabet() []*c47Pred {
	var preds []*c47Pred
	ifForms := [][]uint64{nil, {0}, {1}, {2}, {12}, {0, 0}, {1, 0}, {0, 1}, {1, 2}, {2, 1}, {0, 2}, {2, 0}, {12, 1}, {1, 12}}
	asTexts := []string{"0", "64512", "ff00:0:110", "ff00:0:11", "FF00:0:110", "fF00:0:110", "0:0:fc00", "0:0:FC00"}
	for _, isd := range []uint64{0, 1, 2, 12} {
		preds = append(preds, mkPred(isd, ""))
		for _, as := range asTexts {
			for _, f := range ifForms {
				preds = append(preds, mkPred(isd, as, f...))
			}
		}
	}
	return preds
}

// familyPredText: HopPredicateFromString / String / JSON / ACLEntry text forms keep the meaning of every predicate.
func (c *c47Ctx) familyPredText() {
	t := &c47Tally{out: map[string]int64{}}
	defer c.merge(t)
	for _, p := range c47PredAlphabet() {
		text := p.text()
		t.evals++
		t.distinct++
		hp, err := pathpol.HopPredicateFromString(text)
		if err != nil {
			if p.hasAS && p.as == 0 && (p.if1 != 0 || p.if2 != 0) {
				t.out["predicate-text:interface-on-wildcard-AS-rejected"]++ // the statement does not say; either is accepted
				continue
			}
			c.finding("HopPredicateFromString/rejects-valid-predicate", c47Example{Expr: text, Observed: err.Error(), Expected: "parsed"})
			continue
		}
		if uint64(hp.ISD) != p.isd || uint64(hp.AS) != p.as {
			c.finding("HopPredicateFromString/wrong-isd-as", c47Example{Expr: text, Observed: fmt.Sprintf("%d-%d", hp.ISD, uint64(hp.AS)),
				Expected: fmt.Sprintf("%d-%d", p.isd, p.as)})
			continue
		}
		check := func(via, printed string) bool {
			q, ok := c47ParsePredText(printed)
			if !ok || q.meaning() != p.meaning() {
				got := "unparsable"
				if ok {
					got = q.meaning()
				}
				c.finding("HopPredicate/"+via+"-changes-meaning", c47Example{Expr: text, Observed: printed + " = " + got, Expected: p.meaning()})
				return false
			}
			return true
		}
		ok := check("FromString-String", hp.String())
		if b, err := json.Marshal(hp); err != nil {
			c.finding("HopPredicate/json-marshal-error", c47Example{Expr: text, Observed: err.Error(), Expected: "marshals"})
			ok = false
		} else {
			var hp2 pathpol.HopPredicate
			if err := json.Unmarshal(b, &hp2); err != nil {
				c.finding("HopPredicate/json-unmarshal-error", c47Example{Expr: text, Observed: string(b) + ": " + err.Error(), Expected: "unmarshals"})
				ok = false
			} else {
				ok = check("json-roundtrip", hp2.String()) && ok
			}
		}
		for _, act := range []string{"+ ", "- "} {
			var ae pathpol.ACLEntry
			if err := ae.LoadFromString(act + text); err != nil {
				c.finding("ACLEntry.LoadFromString/rejects-valid-entry", c47Example{Expr: act + text, Observed: err.Error(), Expected: "parsed"})
				ok = false
				continue
			}
			printed := ae.String()
			if !strings.HasPrefix(printed, act) {
				c.finding("ACLEntry/action-changes", c47Example{Expr: act + text, Observed: printed, Expected: act + "..."})
				ok = false
				continue
			}
			ok = check("ACLEntry-text-roundtrip", strings.TrimPrefix(printed, act)) && ok
		}
		if ok {
			t.out["predicate-text:meaning-kept"]++
		}
	}
}

// ---- policies ----

type c47FilterImpl struct {
	ref  c47Filter
	acl  *pathpol.ACL
	seq  *pathpol.Sequence
	desc string
}

func (c *c47Ctx) mkFilter(acl []c47ACLEntry, seq *c47Node) c47FilterImpl {
	f := c47FilterImpl{ref: c47Filter{acl: acl, seq: seq}}
	var d []string
	if acl != nil {
		a, desc, err := mkACL(acl, map[bool]string{true: "+", false: "-"}[acl[len(acl)-1].allow])
		if err != nil {
			c.r.HarnessError("policy ACL: %v", err)
		}
		f.acl = a
		d = append(d, "acl["+desc+"]")
	}
	if seq != nil {
		s, err := pathpol.NewSequence(seq.minimal())
		if err != nil {
			c.r.HarnessError("policy sequence: %v", err)
		}
		f.seq = s
		d = append(d, "sequence["+seq.minimal()+"]")
	}
	f.desc = strings.Join(d, " ")
	if f.desc == "" {
		f.desc = "none"
	}
	return f
}

func (c *c47Ctx) familyPolicy(set *c47Set) {
	hop := func(p *c47Pred) *c47Node { return &c47Node{kind: kHop, pred: p} }
	any := hop(mkPred(0, ""))
	star := &c47Node{kind: kStar, l: any}
	cat := func(a, b *c47Node) *c47Node { return &c47Node{kind: kCat, l: a, r: b} }
	acls := [][]c47ACLEntry{
		{{allow: false, pred: mkPred(2, "")}, {allow: true}},
		{{allow: true, pred: mkPred(1, "ff00:0:110")}, {allow: false, pred: mkPred(1, "")}, {allow: true}},
		{{allow: false}},
		// with interfaces: transit through A only when entered on 1; nothing may leave B on 2 towards ... (#2,0 = entering on 2)
		{{allow: true, pred: mkPred(1, "ff00:0:110", 1, 0)}, {allow: false, pred: mkPred(1, "ff00:0:110")}, {allow: true}},
		{{allow: false, pred: mkPred(1, "64512", 2)}, {allow: false, pred: mkPred(2, "ff00:0:110", 0, 1)}, {allow: true}},
	}
	seqs := []*c47Node{
		cat(any, any),
		cat(star, cat(hop(mkPred(1, "ff00:0:110")), star)),
		cat(hop(mkPred(1, "")), cat(star, hop(mkPred(2, "0")))),
		cat(star, cat(hop(mkPred(1, "ff00:0:110", 1, 0)), star)),
	}
	var tops, opts []c47FilterImpl
	tops = append(tops, c.mkFilter(nil, nil))
	for _, a := range []int{0, 1, 3, 4} {
		tops = append(tops, c.mkFilter(acls[a], nil))
	}
	for _, s := range seqs[:3] {
		tops = append(tops, c.mkFilter(nil, s))
	}
	tops = append(tops, c.mkFilter(acls[0], seqs[1]), c.mkFilter(acls[1], seqs[0]), c.mkFilter(acls[3], seqs[3]))
	opts = append(opts, c.mkFilter(acls[0], nil), c.mkFilter(acls[2], nil), c.mkFilter(nil, seqs[0]), c.mkFilter(nil, seqs[1]),
		c.mkFilter(acls[1], seqs[2]), c.mkFilter(acls[3], nil), c.mkFilter(acls[4], nil))
	type optSpec struct {
		idx     []int
		weights []int
	}
	// option lists: every ordered selection of 1..3 (thorough 4) distinct option filters x weight vectors. The weight vectors
	// cover every shape of weight levels (all equal; one heavy + several equal lighter ones; several equal heavy + a lighter
	// one; all different) - and, since the option filters include one that keeps nothing and the selections are ordered,
	// "the heaviest level keeps nothing / something" and every position of an option inside its level.
	optSpecs := []optSpec{{}}
	var rec func(cur []int, n int, emit func([]int))
	rec = func(cur []int, n int, emit func([]int)) {
		if len(cur) == n {
			emit(append([]int(nil), cur...))
			return
		}
		for i := range opts {
			dup := false
			for _, c := range cur {
				dup = dup || c == i
			}
			if !dup {
				rec(append(cur, i), n, emit)
			}
		}
	}
	vectors := map[int][][]int{
		1: {{0}},
		2: {{1, 1}, {2, 1}, {1, 2}},
		3: {{1, 1, 1}, {2, 1, 1}, {2, 2, 1}, {3, 2, 1}},
		4: {{2, 1, 1, 1}, {2, 2, 1, 1}, {3, 2, 2, 1}, {3, 1, 1, 1}},
	}
	if mc.Thorough() {
		vectors[3] = nil
		for a := 1; a <= 3; a++ {
			for b := 1; b <= 3; b++ {
				for cc := 1; cc <= 3; cc++ {
					vectors[3] = append(vectors[3], []int{a, b, cc})
				}
			}
		}
		vectors[3] = append(vectors[3], []int{0, -1, -1}, []int{-1, 0, -1})
	}
	maxOpts := mc.Pick(3, 4)
	for n := 1; n <= maxOpts; n++ {
		rec(nil, n, func(idx []int) {
			for _, w := range vectors[n] {
				optSpecs = append(optSpecs, optSpec{idx, w})
			}
		})
	}
	// lists of >= 3 options are combined with a subset of the top filters (none, an ACL, a sequence, ACL+sequence with
	// interface predicates); thorough: 3 options with all top filters
	manyOptTops := map[int]bool{0: true, 1: true, 6: true, len(tops) - 1: true}
	orders := c47Orders(set)
	hopsOf := func(order []int) [][]c47Hop {
		out := make([][]c47Hop, len(order))
		for i, j := range order {
			out[i] = set.paths[j].hops
		}
		return out
	}
	type job struct {
		top int
		os  optSpec
	}
	var jobs []job
	for ti := range tops {
		for _, os := range optSpecs {
			if len(os.idx) >= mc.Pick(3, 4) && !manyOptTops[ti] {
				continue
			}
			jobs = append(jobs, job{ti, os})
		}
	}
	c.r.Extra["policies"] = len(jobs)
	mc.ParallelFor(len(jobs), func(ji int) {
		if c.r.OutOfBudget() {
			return
		}
		j := jobs[ji]
		t := &c47Tally{out: map[string]int64{}}
		defer c.merge(t)
		top := tops[j.top]
		desc := "top{" + top.desc + "}"
		var refOpts []c47Option
		var implOpts []pathpol.Option
		for k, oi := range j.os.idx {
			o := opts[oi]
			refOpts = append(refOpts, c47Option{weight: j.os.weights[k], f: o.ref})
			implOpts = append(implOpts, pathpol.Option{Weight: j.os.weights[k],
				Policy: &pathpol.ExtPolicy{Policy: &pathpol.Policy{ACL: o.acl, Sequence: o.seq}}})
			desc += fmt.Sprintf(" option{weight %d: %s}", j.os.weights[k], o.desc)
		}
		pol := pathpol.NewPolicy("p", top.acl, top.seq, implOpts)
		for _, order := range orders {
			var out []snet.Path
			if p := mc.Safely(func() { out = pol.Filter(pick(set, order)) }); p != nil {
				c.finding("Policy.Filter/panic", c47Example{Expr: desc, Observed: fmt.Sprint(p), Expected: "no panic"})
				return
			}
			var want c47Want
			hops := hopsOf(order)
			for r := 0; r < 2; r++ {
				want[r] = make([]bool, len(order))
				for _, k := range c47PolicyFilter(top.ref, refOpts, hops, c47Reading(r)) {
					want[r][k] = true
				}
			}
			c.checkFilter("Policy.Filter", desc, set, order, out, want, t)
		}
	})
}

func TestC47(t *testing.T) {
	r := mc.NewRun(t, "C47", mc.Exploration)
	r.Rule = "H: every hop predicate over ISD{0,1,2,12} x AS{-,0,64512,ff00:0:110,ff00:0:11,FF00:0:110,fF00:0:110,0:0:fc00,0:0:FC00} x 14 " +
		"interface forms, in 3 (thorough 6) contexts (0* p 0*, p 0*, 0* p, ...), against all 2-3 hop paths over 4 ISD-ASes x " +
		"interfaces {1,2,12} (textual near-misses 1/12, ff00:0:11/ff00:0:110). S: all expression trees with <= 5 (6) nodes over 6 " +
		"hop predicates and ? + * | juxtaposition, printed fully parenthesised and with minimal parentheses, against all paths with " +
		"0,2,3 hops (thorough: 4 hops for <= 5 nodes) over 3 ISD-ASes x interfaces {1,2}. ACL: all lists of <= 2 (3) entries over 7 " +
		"interface-free predicates x {+,-} + default, and over 16 predicates of every form (ISD, ISD-AS, #if, #in,0, #0,out, #in,out, " +
		"#0, #0,0, alternative AS spelling) x {+,-} + default; hop predicate text: every predicate of the H alphabet through " +
		"HopPredicateFromString/String, JSON and ACLEntry text; policies: 11 top filters x every ordered list of <= 2 distinct " +
		"option filters out of 7 (one keeps nothing; ACLs with interface predicates included) x weight vectors, and 4 top filters x every " +
		"ordered list of 3 options x weight-level shapes {all equal, heavy + 2 equal lighter, 2 equal heavy + lighter, all different} " +
		"(thorough: 11 top filters x all 27 weight vectors over {1,2,3} + zero/negative weights, and 4 top filters x 4 options x 4 " +
		"shapes), judged by the documented option semantics (heaviest weight level that keeps any path, union within the level); each on two input orders (forward; reversed+forward " +
		"with every path twice). A case = (expression or filter, input path); non-trivial = path kept by reference or implementation, " +
		"or some hop of it matched by some predicate of the expression"
	r.Assumptions = []string{
		"syntactically valid = accepted by antlr/Sequence.g4; AS numbers in expressions are decimal <= 2^32-1 or three hex groups of <= 4 digits",
		"operator precedence in expressions with minimal parentheses is that of the grammar (postfix > '|' > juxtaposition, pinned by the " +
			"repository test 'Or has higher priority than concatenation'); the fully parenthesised prints do not depend on it",
		"the hop predicate semantics of the statement is applied to ACL entries and policies as well; the UNIT an ACL entry is looked up " +
			"for is ambiguous in PathPolicy.md (hop vs traversed interface), so the whole output list must equal the per-hop OR the " +
			"per-interface reading (exact wherever both coincide, always so for predicates without interfaces); differences are counted",
		"a hop predicate with an interface on a wildcard AS (e.g. 1-0#1) may be rejected by the parser",
		"paths are hop lists whose interface list pairs consecutive interfaces of the same AS (as produced by the combinator)",
		"all discrepancies on expressions that spell an AS differently from the path side (upper-case hex, hex form of an AS <= 2^32-1) " +
			"are one root cause and reported as ONE finding",
	}
	c := &c47Ctx{r: r, found: map[string]c47Example{}, spelling: map[string]c47Example{}, spellN: map[string]int64{}, spellRef: map[string]c47Ref{},
		tallies: map[string]int64{}, seen: map[string]bool{}, readingEx: map[string]c47Example{}}
	phases := map[string]float64{}
	last := time.Now()
	phase := func(name string) { phases[name] = time.Since(last).Seconds(); last = time.Now() }

	c.familyH()
	phase("H")
	c.familyS()
	phase("S")
	ias := [][2]uint64{{1, 64512}, {1, 0xff00_0000_0110}, {2, 0xff00_0000_0110}}
	fset := mkSet("F", c47Paths(ias, []uint64{1, 2}, []int{0, 2, 3}))
	c.familyPredText()
	c.familyACL(fset)
	phase("ACL")
	c.familyPolicy(fset)
	phase("policy")
	r.Extra["phase_wall_s"] = phases
	if r.OutOfBudget() {
		r.Capped("stopped by the time budget")
	}

	r.CaseBulk(c.evals, c.distinct)
	keys := make([]string, 0, len(c.tallies))
	for k := range c.tallies {
		keys = append(keys, k)
	}
	sort.Strings(keys)
	for _, k := range keys {
		for i := int64(0); i < c.tallies[k]; i++ {
			r.Outcome(k)
		}
	}
	r.Sample(map[string]any{"expression": "0* 1-ff00:0:110#2,1 0*", "path": "1-64512#0,1 1-ff00:0:110#2,1 2-ff00:0:110#2,0", "expected": "kept"})
	r.Sample(map[string]any{"expression": "(1 | (2-0)+)", "path": "2-ff00:0:110#0,1 2-ff00:0:110#1,0", "expected": "kept"})
	r.Sample(map[string]any{"expression": "1-64512#1 0", "path": "1-64512#0,2 1-64512#1,0", "expected": "dropped (first hop leaves on 2)"})

	if len(c.readingEx) > 0 {
		r.Extra["acl_unit_readings_differ_examples"] = c.readingEx
	}
	fkeys := make([]string, 0, len(c.found))
	for k := range c.found {
		fkeys = append(fkeys, k)
	}
	sort.Strings(fkeys)
	for _, k := range fkeys {
		r.Violation(k, c.found[k])
	}
	if len(c.spelling) > 0 {
		kinds := make([]string, 0, len(c.spelling))
		for k := range c.spelling {
			kinds = append(kinds, k)
		}
		sort.Strings(kinds)
		detail := map[string]any{"what": "the sequence compiler copies the AS text of the expression into a regular expression that is matched " +
			"against the printed path (private/path/pathpol/sequence.go ExitAS/ExitLegacyAS), so an AS is compared textually, not numerically",
			"kinds": kinds, "discrepancies": c.spellN}
		for _, k := range kinds {
			ex := c.spelling[k]
			// control: the same expression with the AS spelled the way paths print it
			canon := c47Canonicalise(c.spellRef[k].tree)
			if seq, err := pathpol.NewSequence(canon.minimal()); err == nil {
				ex.Note = fmt.Sprintf("control: %q (same AS, canonical spelling) gives kept=%v", canon.minimal(),
					len(seq.Eval([]snet.Path{c.spellRef[k].path})) == 1)
			}
			detail[k] = ex
		}
		r.Violation("Sequence/AS-compared-textually-not-numerically", detail)
	}
	r.Finish(6)
}
