package misc

// Clean-room semantics of path-policy sequences, ACLs and policies (C47), written from the property statement and
// doc/dev/design/PathPolicy.md. Nothing here uses regular expressions or private/path/pathpol.
//
//	hop predicate  ISD | ISD-AS | ISD-AS#IF | ISD-AS#IN,OUT ; 0 is a wildcard everywhere; values compare NUMERICALLY
//	               #IF matches the hop if IF equals the inbound or the outbound interface
//	sequence       hop | s? | s+ | s* | s|s | s s | (s)      regular-language meaning over the hop list of a path
//	hop list       first AS (0,out), middle ASes (in,out), last AS (in,0)
//	ACL            first matching entry decides; a path is allowed iff every hop / interface is allowed (two readings of
//	               the unit, see below)
//	policy         ACL and sequence, then the highest-weight option group that keeps any path (same weight: union)

import (
	"strconv"
	"strings"
)

type c47Hop struct {
	isd     uint64
	as      uint64
	in, out uint64
}

// c47Pred is a hop predicate as written in an expression.
type c47Pred struct {
	isd    uint64
	hasAS  bool
	asText string // as written ("0", "64512", "ff00:0:110", "FF00:0:110", "0:0:fc00", ...)
	as     uint64 // numeric value of asText
	nIf    int
	if1    uint64
	if2    uint64
}

// c47ASValue: numeric value of an AS text (decimal, or three ':'-separated hex groups, any letter case).
func c47ASValue(s string) uint64 {
	if !strings.Contains(s, ":") {
		v, err := strconv.ParseUint(s, 10, 64)
		if err != nil {
			panic("c47ASValue " + s)
		}
		return v
	}
	var v uint64
	parts := strings.Split(s, ":")
	if len(parts) != 3 {
		panic("c47ASValue " + s)
	}
	for _, p := range parts {
		x, err := strconv.ParseUint(p, 16, 16)
		if err != nil {
			panic("c47ASValue " + s)
		}
		v = v<<16 | x
	}
	return v
}

// c47CanonicalAS: the one spelling the path side uses (decimal up to 2^32-1, lower-case hex groups above).
func c47CanonicalAS(v uint64) string {
	if v <= 1<<32-1 {
		return strconv.FormatUint(v, 10)
	}
	return strconv.FormatUint(v>>32&0xffff, 16) + ":" + strconv.FormatUint(v>>16&0xffff, 16) + ":" +
		strconv.FormatUint(v&0xffff, 16)
}

func mkPred(isd uint64, asText string, ifs ...uint64) *c47Pred {
	p := &c47Pred{isd: isd, nIf: len(ifs)}
	if asText != "" {
		p.hasAS = true
		p.asText = asText
		p.as = c47ASValue(asText)
	}
	if len(ifs) > 0 {
		p.if1 = ifs[0]
	}
	if len(ifs) > 1 {
		p.if2 = ifs[1]
	}
	return p
}

func (p *c47Pred) text() string {
	s := strconv.FormatUint(p.isd, 10)
	if !p.hasAS {
		return s
	}
	s += "-" + p.asText
	if p.nIf >= 1 {
		s += "#" + strconv.FormatUint(p.if1, 10)
	}
	if p.nIf == 2 {
		s += "," + strconv.FormatUint(p.if2, 10)
	}
	return s
}

// spelling: "" when the AS is written the way paths print it, otherwise the kind of alternative spelling.
func (p *c47Pred) spelling() string {
	if !p.hasAS || p.asText == c47CanonicalAS(p.as) {
		return ""
	}
	if strings.ToLower(p.asText) == c47CanonicalAS(p.as) {
		return "upper-case-hex"
	}
	if p.as <= 1<<32-1 {
		return "hex-spelling-of-decimal-as"
	}
	return "other-spelling"
}

func (p *c47Pred) matches(h c47Hop) bool {
	if p.isd != 0 && p.isd != h.isd {
		return false
	}
	if p.hasAS && p.as != 0 && p.as != h.as {
		return false
	}
	switch p.nIf {
	case 1:
		if p.if1 != 0 && p.if1 != h.in && p.if1 != h.out {
			return false
		}
	case 2:
		if p.if1 != 0 && p.if1 != h.in {
			return false
		}
		if p.if2 != 0 && p.if2 != h.out {
			return false
		}
	}
	return true
}

type c47Kind int

const (
	kHop c47Kind = iota
	kOpt
	kPlus
	kStar
	kOr
	kCat
)

type c47Node struct {
	kind c47Kind
	pred *c47Pred
	l, r *c47Node
}

// ends: set (bit mask) of positions reachable by consuming a word of the node's language from any position in starts.
func (n *c47Node) ends(path []c47Hop, starts uint32) uint32 {
	switch n.kind {
	case kHop:
		var out uint32
		for i := 0; i < len(path); i++ {
			if starts&(1<<uint(i)) != 0 && n.pred.matches(path[i]) {
				out |= 1 << uint(i+1)
			}
		}
		return out
	case kOpt:
		return starts | n.l.ends(path, starts)
	case kStar, kPlus:
		acc := starts
		if n.kind == kPlus {
			acc = n.l.ends(path, starts)
		}
		for {
			next := acc | n.l.ends(path, acc)
			if next == acc {
				return acc
			}
			acc = next
		}
	case kOr:
		return n.l.ends(path, starts) | n.r.ends(path, starts)
	case kCat:
		return n.r.ends(path, n.l.ends(path, starts))
	}
	panic("kind")
}

func (n *c47Node) accepts(path []c47Hop) bool {
	return n.ends(path, 1)&(1<<uint(len(path))) != 0
}

// full: every operator application parenthesised; the meaning does not depend on operator precedence.
func (n *c47Node) full() string {
	switch n.kind {
	case kHop:
		return n.pred.text()
	case kOpt:
		return "(" + n.l.full() + ")?"
	case kPlus:
		return "(" + n.l.full() + ")+"
	case kStar:
		return "(" + n.l.full() + ")*"
	case kOr:
		return "(" + n.l.full() + " | " + n.r.full() + ")"
	default:
		return "(" + n.l.full() + " " + n.r.full() + ")"
	}
}

func (n *c47Node) prec() int {
	switch n.kind {
	case kHop:
		return 4
	case kOpt, kPlus, kStar:
		return 3
	case kOr:
		return 2
	}
	return 1
}

// minimal: as few parentheses as the precedence of antlr/Sequence.g4 allows (postfix > '|' > juxtaposition; pinned by
// the repository test "Or has higher priority than concatenation"), '|' written without blanks.
func (n *c47Node) minimal() string {
	wrap := func(c *c47Node, min int) string {
		if c.prec() < min {
			return "(" + c.minimal() + ")"
		}
		return c.minimal()
	}
	switch n.kind {
	case kHop:
		return n.pred.text()
	case kOpt:
		return wrap(n.l, 3) + "?"
	case kPlus:
		return wrap(n.l, 3) + "+"
	case kStar:
		return wrap(n.l, 3) + "*"
	case kOr:
		return wrap(n.l, 2) + "|" + wrap(n.r, 2)
	default:
		return wrap(n.l, 1) + " " + wrap(n.r, 1)
	}
}

func (n *c47Node) preds(out []*c47Pred) []*c47Pred {
	if n.kind == kHop {
		return append(out, n.pred)
	}
	out = n.l.preds(out)
	if n.r != nil {
		out = n.r.preds(out)
	}
	return out
}

// c47Trees: all expression trees with exactly `size` nodes over the leaf alphabet (memoised by size).
func c47Trees(leaves []*c47Pred, maxSize int) [][]*c47Node {
	bySize := make([][]*c47Node, maxSize+1)
	for _, p := range leaves {
		bySize[1] = append(bySize[1], &c47Node{kind: kHop, pred: p})
	}
	for s := 2; s <= maxSize; s++ {
		for _, c := range bySize[s-1] {
			for _, k := range []c47Kind{kOpt, kPlus, kStar} {
				bySize[s] = append(bySize[s], &c47Node{kind: k, l: c})
			}
		}
		for ls := 1; ls <= s-2; ls++ {
			rs := s - 1 - ls
			for _, l := range bySize[ls] {
				for _, r := range bySize[rs] {
					bySize[s] = append(bySize[s], &c47Node{kind: kOr, l: l, r: r}, &c47Node{kind: kCat, l: l, r: r})
				}
			}
		}
	}
	return bySize
}

// ---- ACL / policy reference ----
//
// The statement fixes what a hop predicate means for a HOP (ISD-AS#IF: either direction; ISD-AS#IN,OUT positional, 0
// wildcard) and PathPolicy.md says "the first matched entry wins" and "for a path to be allowed, every hop of the path must
// be allowed". What it leaves open is the unit the entries are applied to: PathPolicy.md describes ACLs both in terms of
// hops ("if a deny entry matches any hop") and of interfaces ("allowing all interfaces in ASes ...", "if an interface is
// denied by the first entry but allowed by the second entry it is still denied"). Both readings are modelled:
//
//	byHop        an entry is looked up once per hop (ISD-AS, in, out) with the hop predicate semantics of the statement
//	byInterface  an entry is looked up once per traversed interface (ISD-AS, id, direction): #IF matches the interface with
//	             that id in either direction, #IN,OUT matches an inbound interface by IN and an outbound one by OUT
//
// For predicates without interfaces the readings coincide. A filter must reproduce one of the two readings on the
// whole input list; where they coincide the verdict is exact.

type c47Reading int

const (
	byHop c47Reading = iota
	byInterface
)

func (r c47Reading) String() string { return [...]string{"per-hop", "per-interface"}[r] }

// matchesIface: does the predicate select this single traversed interface?
func (p *c47Pred) matchesIface(isd, as, id uint64, inbound bool) bool {
	if p.isd != 0 && p.isd != isd {
		return false
	}
	if p.hasAS && p.as != 0 && p.as != as {
		return false
	}
	switch p.nIf {
	case 1:
		return p.if1 == 0 || p.if1 == id
	case 2:
		if inbound {
			return p.if1 == 0 || p.if1 == id
		}
		return p.if2 == 0 || p.if2 == id
	}
	return true
}

// meaning: canonical description of what the predicate selects (used for text round trips): forms that select the same
// hops and interfaces under both readings get the same string.
func (p *c47Pred) meaning() string {
	s := strconv.FormatUint(p.isd, 10) + "-" + strconv.FormatUint(p.as, 10)
	switch {
	case p.nIf == 1 && p.if1 != 0:
		return s + " any-direction " + strconv.FormatUint(p.if1, 10)
	case p.nIf == 2 && (p.if1 != 0 || p.if2 != 0):
		return s + " in " + strconv.FormatUint(p.if1, 10) + " out " + strconv.FormatUint(p.if2, 10)
	}
	return s + " any"
}

// c47ParsePredText: reference reading of a printed hop predicate "ISD[-AS[#IF[,IF]]]".
func c47ParsePredText(s string) (*c47Pred, bool) {
	defer func() { recover() }()
	isdText, rest, hasAS := strings.Cut(s, "-")
	isd, err := strconv.ParseUint(isdText, 10, 16)
	if err != nil {
		return nil, false
	}
	if !hasAS {
		return mkPred(isd, ""), true
	}
	asText, ifText, hasIf := strings.Cut(rest, "#")
	var ifs []uint64
	if hasIf {
		for _, f := range strings.Split(ifText, ",") {
			v, err := strconv.ParseUint(f, 10, 16)
			if err != nil {
				return nil, false
			}
			ifs = append(ifs, v)
		}
		if len(ifs) > 2 {
			return nil, false
		}
	}
	var p *c47Pred
	func() {
		defer func() {
			if recover() != nil {
				p = nil
			}
		}()
		p = mkPred(isd, asText, ifs...)
	}()
	return p, p != nil
}

type c47ACLEntry struct {
	allow bool
	pred  *c47Pred // nil: matches everything
}

func c47ACLAccepts(entries []c47ACLEntry, path []c47Hop, reading c47Reading) bool {
	decide := func(match func(p *c47Pred) bool) bool {
		for _, e := range entries {
			if e.pred == nil || match(e.pred) {
				return e.allow
			}
		}
		return false
	}
	for i, h := range path {
		if reading == byHop {
			if !decide(func(p *c47Pred) bool { return p.matches(h) }) {
				return false
			}
			continue
		}
		if i > 0 && !decide(func(p *c47Pred) bool { return p.matchesIface(h.isd, h.as, h.in, true) }) {
			return false
		}
		if i < len(path)-1 && !decide(func(p *c47Pred) bool { return p.matchesIface(h.isd, h.as, h.out, false) }) {
			return false
		}
	}
	return true
}

// c47Filter is one stage of a reference policy: either an ACL or a sequence (nil members accept everything).
type c47Filter struct {
	acl []c47ACLEntry
	seq *c47Node
}

func (f c47Filter) accepts(path []c47Hop, reading c47Reading) bool {
	if f.acl != nil && !c47ACLAccepts(f.acl, path, reading) {
		return false
	}
	if f.seq != nil && !f.seq.accepts(path) {
		return false
	}
	return true
}

type c47Option struct {
	weight int
	f      c47Filter
}

// c47PolicyFilter: indices of the kept paths, in input order.
func c47PolicyFilter(top c47Filter, options []c47Option, paths [][]c47Hop, reading c47Reading) []int {
	var kept []int
	for i, p := range paths {
		if top.accepts(p, reading) {
			kept = append(kept, i)
		}
	}
	if len(options) == 0 {
		return kept
	}
	// distinct weights, descending
	weights := map[int]bool{}
	for _, o := range options {
		weights[o.weight] = true
	}
	for {
		if len(weights) == 0 {
			return nil
		}
		best := 0
		first := true
		for w := range weights {
			if first || w > best {
				best, first = w, false
			}
		}
		delete(weights, best)
		var out []int
		for _, i := range kept {
			for _, o := range options {
				if o.weight == best && o.f.accepts(paths[i], reading) {
					out = append(out, i)
					break
				}
			}
		}
		if len(out) > 0 {
			return out
		}
	}
}
