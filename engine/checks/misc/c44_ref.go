package misc

// Clean-room byte-level SCION packet builder / parser and the dispatch specification for C44, written from
// doc/protocols/scion-header.rst, scmp.rst, extension-header.rst and the property statement. No slayers here.

import (
	"encoding/binary"
	"net/netip"
)

const (
	pUDP  = 17
	pHBH  = 200
	pE2E  = 201
	pSCMP = 202
	pTCP  = 6

	ptEmpty  = 0
	ptSCION  = 1
	ptOneHop = 2
	ptEPIC   = 3

	scmpDestUnreach = 1
	scmpPktTooBig   = 2
	scmpParamProb   = 4
	scmpExtIfDown   = 5
	scmpIntConnDown = 6
	scmpEchoReq     = 128
	scmpEchoRep     = 129
	scmpTrReq       = 130
	scmpTrRep       = 131
)

// c44Addr: a SCION host address as it sits in the header: 4-bit type/len nibble and raw bytes.
type c44Addr struct {
	tl  byte // DT<<2|DL : 0b0000 IPv4, 0b0011 IPv6, 0b0100 SVC
	raw []byte
}

func v4(a, b, c, d byte) c44Addr { return c44Addr{0b0000, []byte{a, b, c, d}} }
func v6(s string) c44Addr        { ip := netip.MustParseAddr(s).As16(); return c44Addr{0b0011, ip[:]} }
func svcAddr(v uint16) c44Addr   { return c44Addr{0b0100, []byte{byte(v >> 8), byte(v), 0, 0}} }

func (a c44Addr) isIP() bool  { return a.tl == 0b0000 || a.tl == 0b0011 }
func (a c44Addr) isSVC() bool { return a.tl == 0b0100 }
func (a c44Addr) ip() netip.Addr {
	ip, _ := netip.AddrFromSlice(a.raw)
	return ip
}

type c44Pkt struct {
	dstIA, srcIA uint64
	dst, src     c44Addr
	pathType     byte
	path         []byte
	exts         []byte // protocol numbers of extension headers, in order (pHBH, pE2E)
	l4proto      byte
	l4           []byte // complete upper layer (header + data); checksum patched by build for UDP/SCMP
}

// c44Checksum: one's complement sum over the SCION pseudo header and the upper layer.
func c44Checksum(dstIA, srcIA uint64, dst, src []byte, proto byte, upper []byte) uint16 {
	var ps []byte
	ps = binary.BigEndian.AppendUint64(ps, dstIA)
	ps = binary.BigEndian.AppendUint64(ps, srcIA)
	ps = append(ps, dst...)
	ps = append(ps, src...)
	ps = binary.BigEndian.AppendUint32(ps, uint32(len(upper)))
	ps = append(ps, 0, 0, 0, proto)
	ps = append(ps, upper...)
	if len(ps)%2 == 1 {
		ps = append(ps, 0)
	}
	var sum uint32
	for i := 0; i < len(ps); i += 2 {
		sum += uint32(ps[i])<<8 | uint32(ps[i+1])
	}
	for sum>>16 != 0 {
		sum = sum&0xffff + sum>>16
	}
	return ^uint16(sum)
}

func extBytes(proto, next byte) []byte {
	if proto == pHBH {
		return []byte{next, 0, 0, 0} // two Pad1 options
	}
	return []byte{next, 1, 1, 4, 0, 0, 0, 0} // PadN with 4 bytes of data
}

func (p *c44Pkt) build() []byte {
	l4 := append([]byte(nil), p.l4...)
	switch {
	case p.l4proto == pUDP && len(l4) >= 8:
		l4[6], l4[7] = 0, 0
		binary.BigEndian.PutUint16(l4[6:], c44Checksum(p.dstIA, p.srcIA, p.dst.raw, p.src.raw, pUDP, l4))
	case p.l4proto == pSCMP && len(l4) >= 4:
		l4[2], l4[3] = 0, 0
		binary.BigEndian.PutUint16(l4[2:], c44Checksum(p.dstIA, p.srcIA, p.dst.raw, p.src.raw, pSCMP, l4))
	}
	var payload []byte
	for i, e := range p.exts {
		next := p.l4proto
		if i+1 < len(p.exts) {
			next = p.exts[i+1]
		}
		payload = append(payload, extBytes(e, next)...)
	}
	payload = append(payload, l4...)
	hdrLen := 12 + 16 + len(p.dst.raw) + len(p.src.raw) + len(p.path)
	first := p.l4proto
	if len(p.exts) > 0 {
		first = p.exts[0]
	}
	b := make([]byte, 0, hdrLen+len(payload))
	b = append(b, 0x00, 0x00, 0x00, 0x01, first, byte(hdrLen/4))
	b = binary.BigEndian.AppendUint16(b, uint16(len(payload)))
	b = append(b, p.pathType, p.dst.tl<<4|p.src.tl, 0, 0)
	b = binary.BigEndian.AppendUint64(b, p.dstIA)
	b = binary.BigEndian.AppendUint64(b, p.srcIA)
	b = append(b, p.dst.raw...)
	b = append(b, p.src.raw...)
	b = append(b, p.path...)
	return append(b, payload...)
}

// ---- paths ----

func infoField(consDir bool, segID uint16, ts uint32) []byte {
	b := make([]byte, 8)
	if consDir {
		b[0] = 1
	}
	binary.BigEndian.PutUint16(b[2:], segID)
	binary.BigEndian.PutUint32(b[4:], ts)
	return b
}

func hopField(exp byte, in, eg uint16, mac byte) []byte {
	b := make([]byte, 12)
	b[1] = exp
	binary.BigEndian.PutUint16(b[2:], in)
	binary.BigEndian.PutUint16(b[4:], eg)
	for i := 6; i < 12; i++ {
		b[i] = mac + byte(i)
	}
	return b
}

// scionPath: segments with the given hop counts; the pointers are on the last hop (packet is at the destination).
func scionPath(segs ...int) []byte {
	var seg [3]int
	copy(seg[:], segs)
	total := seg[0] + seg[1] + seg[2]
	meta := uint32(len(segs)-1)<<30 | uint32(total-1)<<24 | uint32(seg[0])<<12 | uint32(seg[1])<<6 | uint32(seg[2])
	b := binary.BigEndian.AppendUint32(nil, meta)
	for i := range segs {
		b = append(b, infoField(i%2 == 0, uint16(0x1100+i), 0x5f000000+uint32(i))...)
	}
	h := 0
	for _, n := range segs {
		for j := 0; j < n; j++ {
			b = append(b, hopField(63, uint16(10+h), uint16(20+h), byte(16*h))...)
			h++
		}
	}
	return b
}

func epicPath(segs ...int) []byte {
	b := []byte{1, 2, 3, 4, 5, 6, 7, 8, 0xa1, 0xa2, 0xa3, 0xa4, 0xb1, 0xb2, 0xb3, 0xb4}
	return append(b, scionPath(segs...)...)
}

func oneHopPath() []byte {
	b := infoField(true, 0x2233, 0x5f000001)
	b = append(b, hopField(63, 0, 7, 0x40)...)
	return append(b, hopField(63, 9, 0, 0x80)...)
}

// specReverseSCION: reversal of a SCION-type path (scion-header.rst "Path Reversal"): info and hop fields in reverse
// order, construction-direction flag flipped, segment lengths reversed, pointers mirrored.
func specReverseSCION(p []byte) []byte {
	meta := binary.BigEndian.Uint32(p)
	currINF, currHF := int(meta>>30), int(meta>>24&63)
	seg := []int{int(meta >> 12 & 63), int(meta >> 6 & 63), int(meta & 63)}
	nInf := 0
	for _, s := range seg {
		if s > 0 {
			nInf++
		}
	}
	total := seg[0] + seg[1] + seg[2]
	infos := p[4 : 4+8*nInf]
	hops := p[4+8*nInf : 4+8*nInf+12*total]
	var rseg [3]int
	for i := 0; i < nInf; i++ {
		rseg[i] = seg[nInf-1-i]
	}
	rmeta := uint32(nInf-1-currINF)<<30 | uint32(total-1-currHF)<<24 | uint32(rseg[0])<<12 | uint32(rseg[1])<<6 | uint32(rseg[2])
	out := binary.BigEndian.AppendUint32(nil, rmeta)
	for i := nInf - 1; i >= 0; i-- {
		inf := append([]byte(nil), infos[8*i:8*i+8]...)
		inf[0] ^= 1
		out = append(out, inf...)
	}
	for i := total - 1; i >= 0; i-- {
		out = append(out, hops[12*i:12*i+12]...)
	}
	return out
}

// specReplyPath: path type and bytes the echo/traceroute reply must carry.
func specReplyPath(pt byte, path []byte) (byte, []byte) {
	switch pt {
	case ptEmpty:
		return ptEmpty, nil
	case ptSCION:
		return ptSCION, specReverseSCION(path)
	case ptEPIC:
		return ptSCION, specReverseSCION(path[16:])
	case ptOneHop:
		// a one-hop path seen by the receiver is the SCION path (one segment, two hops) standing on its second hop
		sp := binary.BigEndian.AppendUint32(nil, uint32(1)<<24|uint32(2)<<12)
		sp = append(sp, path...)
		return ptSCION, specReverseSCION(sp)
	}
	return pt, nil
}

// ---- parser (lenient, positional) ----

type c44Parsed struct {
	ok           bool
	dstIA, srcIA uint64
	dst, src     c44Addr
	pathType     byte
	path         []byte
	exts         []byte
	l4proto      byte
	l4           []byte
}

func c44AddrLen(tl byte) int { return (int(tl&3) + 1) * 4 }

// c44Parse walks a SCION packet purely positionally: addresses by DT/DL/ST/SL, upper layers start at HdrLen*4, extension
// headers are skipped by their length byte.
func c44Parse(b []byte) (p c44Parsed) {
	if len(b) < 12+16 {
		return
	}
	hdr := int(b[5]) * 4
	p.pathType = b[8]
	p.dst.tl, p.src.tl = b[9]>>4, b[9]&0xf
	dl, sl := c44AddrLen(p.dst.tl), c44AddrLen(p.src.tl)
	if hdr < 28+dl+sl || len(b) < hdr {
		return
	}
	p.dstIA = binary.BigEndian.Uint64(b[12:])
	p.srcIA = binary.BigEndian.Uint64(b[20:])
	p.dst.raw = b[28 : 28+dl]
	p.src.raw = b[28+dl : 28+dl+sl]
	p.path = b[28+dl+sl : hdr]
	// PayloadLen is not used to delimit the upper layer: a datagram whose PayloadLen disagrees with its size is
	// malformed, but the statement only restricts where it may be sent, which does not depend on that field.
	rest := b[hdr:]
	next := b[4]
	for next == pHBH || next == pE2E {
		if len(rest) < 2 {
			return
		}
		l := (int(rest[1]) + 1) * 4
		if len(rest) < l {
			return
		}
		p.exts = append(p.exts, next)
		next, rest = rest[0], rest[l:]
	}
	p.l4proto, p.l4 = next, rest
	p.ok = true
	return
}

// ---- dispatch specification ----

type c44Verdict int

const (
	vDrop c44Verdict = iota
	vForward
	vReply
	vEither // drop or forward to exactly the given target
)

type c44Expect struct {
	verdict c44Verdict
	target  netip.AddrPort
	why     string
	// mayDrop: a request whose own addresses are of an unknown type cannot be answered properly; dropping it is accepted.
	mayDrop bool
}

type c44Env struct {
	isDispatcher bool
	svc          map[[10]byte]netip.AddrPort // key: DstIA (8 bytes) + SVC value (2 bytes)
	underlay     netip.Addr
	prevHop      netip.AddrPort
}

func svcKey(ia uint64, svc []byte) (k [10]byte) {
	binary.BigEndian.PutUint64(k[:], ia)
	k[8], k[9] = svc[0], svc[1]
	return
}

// quotedPort: the port an SCMP error must be delivered to, from the quoted (offending) packet.
// have: number of bytes of the quoted upper layer that are present.
func quotedPort(q c44Parsed) (port uint16, verdict c44Verdict, why string) {
	if !q.ok {
		return 0, vDrop, "quote unparsable"
	}
	switch q.l4proto {
	case pUDP:
		if len(q.l4) < 2 {
			return 0, vDrop, "quoted UDP header lacks the source port"
		}
		port = binary.BigEndian.Uint16(q.l4)
		if port == 0 {
			// the implementation treats 0 as "header truncated"; the statement allows delivery to the quoted port
			return 0, vEither, "quoted source port 0"
		}
		if len(q.l4) < 8 {
			return port, vEither, "quoted UDP header truncated"
		}
		return port, vForward, "quoted UDP source port"
	case pSCMP:
		if len(q.l4) < 1 {
			return 0, vDrop, "quoted SCMP header missing"
		}
		t := q.l4[0]
		if t != scmpEchoReq && t != scmpTrReq {
			return 0, vDrop, "quoted SCMP message is not an echo/traceroute request"
		}
		if len(q.l4) < 6 {
			return 0, vDrop, "quoted SCMP identifier missing"
		}
		port = binary.BigEndian.Uint16(q.l4[4:])
		need := 8
		if t == scmpTrReq {
			need = 24
		}
		if len(q.l4) < need {
			return port, vEither, "quoted SCMP message truncated"
		}
		return port, vForward, "quoted SCMP identifier"
	}
	return 0, vDrop, "quoted upper layer unsupported"
}

var scmpErrBodyLen = map[byte]int{scmpDestUnreach: 4, scmpPktTooBig: 4, scmpParamProb: 4, scmpExtIfDown: 16, scmpIntConnDown: 24}

// specDispatch: what the shim must do with a well-formed packet (built by c44Pkt.build, possibly with a truncated quote).
func specDispatch(p c44Parsed, env c44Env) c44Expect {
	if !p.ok {
		return c44Expect{verdict: vDrop, why: "unparsable"}
	}
	if p.l4proto == pSCMP && len(p.l4) >= 4 && (p.l4[0] == scmpEchoReq || p.l4[0] == scmpTrReq) {
		known := func(a c44Addr) bool { return a.isIP() || a.isSVC() }
		return c44Expect{verdict: vReply, target: env.prevHop, why: "SCMP info request", mayDrop: !known(p.dst) || !known(p.src)}
	}
	if !env.isDispatcher {
		return c44Expect{verdict: vDrop, why: "dispatcher function disabled"}
	}
	var port uint16
	verdict := vForward
	why := ""
	switch p.l4proto {
	case pUDP:
		if len(p.l4) < 8 {
			return c44Expect{verdict: vDrop, why: "short UDP"}
		}
		if p.dst.isSVC() {
			t, ok := env.svc[svcKey(p.dstIA, p.dst.raw)]
			if !ok {
				return c44Expect{verdict: vDrop, why: "service not registered"}
			}
			if t.Addr().Unmap() != env.underlay.Unmap() {
				return c44Expect{verdict: vDrop, why: "service address differs from outer destination"}
			}
			return c44Expect{verdict: vForward, target: t, why: "registered service address"}
		}
		port, why = binary.BigEndian.Uint16(p.l4[2:]), "UDP destination port"
	case pSCMP:
		if len(p.l4) < 4 {
			return c44Expect{verdict: vDrop, why: "short SCMP"}
		}
		switch t := p.l4[0]; t {
		case scmpEchoRep, scmpTrRep:
			if len(p.l4) < 6 {
				return c44Expect{verdict: vDrop, why: "reply without identifier"}
			}
			port, why = binary.BigEndian.Uint16(p.l4[4:]), "identifier of the reply"
			need := 8
			if t == scmpTrRep {
				need = 24
			}
			if len(p.l4) < need {
				verdict = vEither
			}
		default:
			bl, known := scmpErrBodyLen[t]
			if !known {
				return c44Expect{verdict: vDrop, why: "unknown SCMP type"}
			}
			if len(p.l4) < 4+bl {
				return c44Expect{verdict: vDrop, why: "SCMP error body truncated"}
			}
			port, verdict, why = quotedPort(c44Parse(p.l4[4+bl:]))
			if verdict == vDrop {
				return c44Expect{verdict: vDrop, why: why}
			}
		}
	default:
		return c44Expect{verdict: vDrop, why: "unsupported upper layer"}
	}
	if !p.dst.isIP() {
		// SCMP towards a non-IP destination: there is no host address to deliver to. The statement does not say more;
		// the only thing demanded by the caller is "never to an address different from the outer destination".
		return c44Expect{verdict: vEither, target: netip.AddrPortFrom(p.dst.ip(), port), why: "non-IP destination host: " + why}
	}
	target := netip.AddrPortFrom(p.dst.ip(), port)
	if target.Addr().Unmap() != env.underlay.Unmap() {
		return c44Expect{verdict: vDrop, why: "destination host differs from outer destination"}
	}
	return c44Expect{verdict: verdict, target: target, why: why}
}
