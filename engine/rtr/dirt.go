package rtr

import (
	"fmt"

	"github.com/scionproto/scion/router"
)

// History independence, exhaustive variant of ProcessH: a packet processor is a long-lived object that caches
// per-packet state (current hop / info field, "effective cross-over done", "at a peering hop", the full MAC for EPIC,
// the decoded extension layers, the ingress interface ...). Dirt returns one packet per KIND of such state - every
// field is left in a non-default value by at least one of them - and ProcessHAll judges a packet on fresh processors
// and then once directly after every one of these predecessors (all histories of length 1 over the kind alphabet;
// HProc.Depth = 2: also all of length 2).

// Dirt returns the predecessor alphabet for this router (needs the usual link types to be configured; kinds whose
// packet cannot be built with the router's interfaces are left out).
func (r *Router) Dirt(key []byte, ts uint32) []StockPkt {
	cfg := r.Cfg
	cases := Cases(&cfg, key, ts, 63)
	var out []StockPkt
	seen := map[string]bool{}
	add := func(kind string, p *Pkt, in Ingress) {
		if seen[kind] {
			return
		}
		seen[kind] = true
		raw, _ := p.Serialize()
		out = append(out, StockPkt{Kind: kind, Raw: raw, In: in})
	}
	for i := range cases {
		c := &cases[i]
		peerHop := false
		if c.Shape.Peering {
			h := int(c.Pkt.CurrHF)
			peerHop = h == c.Shape.Lens[0]-1 || h == c.Shape.Lens[0]
		}
		ext := c.In.Kind == 1
		switch {
		case c.Xover && ext && c.EgressOwn:
			add("cross-over", &c.Pkt, c.In)
			ep := c.WithEPIC(key, 0)
			add("cross-over/epic", &ep, c.In)
			// the switch to the next segment is made, then the packet is refused (MAC of the second hop broken)
			bad := c.Pkt.Clone()
			bad.HopRef(c.V[1].Hop).Mac[0] ^= 0x40
			add("cross-over-then-rejected", &bad, c.In)
			x := c.Pkt.Clone()
			x.HasHBH, x.HBH = true, []byte{1, 4, 0, 0, 0, 0}
			x.HasE2E, x.E2E = true, []byte{1, 4, 0, 0, 0, 0}
			add("cross-over/hbh+e2e", &x, c.In)
		case c.Xover && ext && !c.EgressOwn && !c.Deliver:
			add("cross-over-to-sibling", &c.Pkt, c.In)
		case peerHop && ext && !c.Deliver:
			add(fmt.Sprintf("peering-hop/own-egress=%v", c.EgressOwn), &c.Pkt, c.In)
		case peerHop && c.In.Kind == 2:
			add("peering-hop/from-sibling", &c.Pkt, c.In)
		case !c.Xover && !peerHop && ext && c.EgressOwn:
			add("in-segment-transit", &c.Pkt, c.In)
		case !c.Xover && !peerHop && c.In.Kind == 2:
			add("from-sibling", &c.Pkt, c.In)
		case c.In.Kind == 0:
			add("first-hop-from-host", &c.Pkt, c.In)
		case c.Deliver && ext:
			add("delivery", &c.Pkt, c.In)
			ep := c.WithEPIC(key, 0)
			add("delivery/epic", &ep, c.In)
		}
	}
	// one-hop path leaving through an own interface
	for _, f := range cfg.Ifs {
		if f.Owner != 0 {
			continue
		}
		p := Pkt{PathType: PathOneHop, FlowID: 0x12345, SrcIA: uint64(cfg.IA), DstIA: uint64(f.Nbr), Src: V4("10.0.0.50"),
			Dst: SVC(2)}
		sg := Seg{ConsDir: true, SegID: 0x7777, TS: ts}
		h := Hop{Eg: f.ID, Exp: 63}
		m := FullHopMAC(key, sg.SegID, sg.TS, 63, 0, f.ID)
		copy(h.Mac[:], m[:6])
		sg.Hops = []Hop{h}
		p.Segs = []Seg{sg}
		p.SetUDP(30041, 30252, []byte("beacon"))
		add("one-hop-path", &p, FromHost)
		break
	}
	return out
}

func sameFast(a, b Result) string {
	switch {
	case (a.Panic == nil) != (b.Panic == nil):
		return fmt.Sprintf("panic differs (%v vs %v)", a.Panic, b.Panic)
	case a.Fast.Disp != b.Fast.Disp:
		return fmt.Sprintf("disposition %d vs %d", a.Fast.Disp, b.Fast.Disp)
	}
	return sameResult(a, b)
}

// HProc judges packets with their history dimension on one Router; it recycles one packet buffer (like a pool packet).
type HProc struct {
	R    *Router
	Dirt []StockPkt
	// Depth of the histories explored by ProcessHAll: 1 (default) = every single predecessor, 2 = additionally every
	// ordered pair of predecessors.
	Depth int
	pkt   *router.Packet
}

func (r *Router) NewHProc(key []byte, ts uint32) *HProc {
	return &HProc{R: r, Dirt: r.Dirt(key, ts), pkt: router.VerifNewPacket(nil, r.VerifLink(0), nil)}
}

// Process is Router.Process on the recycled buffer (outputs are copied).
func (h *HProc) Process(raw []byte, in Ingress) (res Result) {
	defer func() {
		if e := recover(); e != nil {
			res.Panic = e
		}
	}()
	link, src := in.link(h.R)
	if link == nil {
		panic(fmt.Sprintf("no link for interface %d", in.IfID))
	}
	router.VerifReloadPacket(h.pkt, raw, link, src)
	res.Fast = h.R.VerifProcess(h.pkt)
	switch res.Fast.Disp {
	case router.VerifForward:
		res.Out = append([]byte{}, res.Fast.Raw...)
		res.Fast.Raw = res.Out
	case router.VerifSlowPath:
		o, err := h.R.VerifSlowPath(h.pkt)
		res.Slow, res.SlowErr = &o, err
		if err == nil {
			res.SlowOut = append([]byte{}, o.Raw...)
			o.Raw = res.SlowOut
		}
	}
	return res
}

// ProcessHAll processes raw on fresh processors (the returned Result) and then once directly after each packet of
// Dirt on the same processors; diff names the first predecessor kind after which the observable result (disposition,
// egress, forwarded bytes, SCMP type/code/pointer and SCMP bytes) differs, "" if none. diffRes is that differing result.
func (h *HProc) ProcessHAll(raw []byte, in Ingress) (fresh Result, diff string, diffRes Result) {
	h.R.VerifStart()
	fresh = h.Process(raw, in)
	if fresh.Panic != nil {
		h.R.VerifStart()
		return fresh, "", fresh
	}
	for _, d := range h.Dirt {
		pre := h.Process(d.Raw, d.In)
		if pre.Panic != nil {
			h.R.VerifStart()
			continue
		}
		after := h.Process(raw, in)
		if x := sameFast(fresh, after); x != "" {
			h.R.VerifStart()
			return fresh, fmt.Sprintf("directly after a %s packet on the same processor: %s", d.Kind, x), after
		}
	}
	if h.Depth >= 2 {
		for _, d1 := range h.Dirt {
			for _, d2 := range h.Dirt {
				if p1 := h.Process(d1.Raw, d1.In); p1.Panic != nil {
					h.R.VerifStart()
				}
				if p2 := h.Process(d2.Raw, d2.In); p2.Panic != nil {
					h.R.VerifStart()
					continue
				}
				after := h.Process(raw, in)
				if x := sameFast(fresh, after); x != "" {
					h.R.VerifStart()
					return fresh, fmt.Sprintf("directly after a %s and a %s packet on the same processor: %s", d1.Kind, d2.Kind, x), after
				}
			}
		}
	}
	return fresh, "", fresh
}

// Histories returns the number of histories ProcessHAll explores per packet (including the empty one).
func (h *HProc) Histories() int {
	n := 1 + len(h.Dirt)
	if h.Depth >= 2 {
		n += len(h.Dirt) * len(h.Dirt)
	}
	return n
}

// DispName names a disposition.
func DispName(d int) string {
	switch d {
	case router.VerifDiscard:
		return "discard"
	case router.VerifForward:
		return "forward"
	case router.VerifSlowPath:
		return "slowpath"
	case router.VerifDone:
		return "done"
	}
	return fmt.Sprint(d)
}
