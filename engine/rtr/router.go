package rtr

import (
	"fmt"
	"net"
	"net/netip"
	"sync"

	"github.com/scionproto/scion/pkg/addr"
	"github.com/scionproto/scion/private/topology"
	underlayconn "github.com/scionproto/scion/private/underlay/conn"
	"github.com/scionproto/scion/router"
	"github.com/scionproto/scion/router/control"
	_ "github.com/scionproto/scion/router/underlayproviders/udpip" // registers the udpip underlay
)

// OpenRec is one socket the router opened.
type OpenRec struct {
	Local, Remote netip.AddrPort
	Cfg           underlayconn.Config
}

// Opener is a udpip.ConnOpener that records every open and hands out inert connections.
type Opener struct {
	mu         sync.Mutex
	Opens      []OpenRec
	ReuseLocal bool
	// Conn, if set, supplies the connection to return (scheduler harnesses).
	Conn func(l, r netip.AddrPort) router.BatchConn
}

func (o *Opener) Open(l, r netip.AddrPort, c *underlayconn.Config) (router.BatchConn, error) {
	o.mu.Lock()
	o.Opens = append(o.Opens, OpenRec{l, r, *c})
	o.mu.Unlock()
	if o.Conn != nil {
		return o.Conn(l, r), nil
	}
	return &inertConn{closed: make(chan struct{})}, nil
}
func (o *Opener) UDPCanReuseLocal() bool { return o.ReuseLocal }

type inertConn struct {
	closed chan struct{}
	once   sync.Once
}

func (c *inertConn) ReadBatch(underlayconn.Messages) (int, error) {
	<-c.closed
	return 0, net.ErrClosed
}
func (c *inertConn) WriteBatch(m underlayconn.Messages, _ int) (int, error) { return len(m), nil }
func (c *inertConn) Close() error                                            { c.once.Do(func() { close(c.closed) }); return nil }

// IfCfg describes one inter-AS interface of the AS as seen by the router under test.
type IfCfg struct {
	ID    uint16
	LT    topology.LinkType
	Nbr   addr.IA
	Owner int  // 0: this router (external link); k>0: sibling router k (reached over a sibling link)
	BFD   bool // run a BFD session on the link
	MTU   int
}

type SvcCfg struct {
	SVC  addr.SVC
	Host string
	Port uint16
}

type Cfg struct {
	IA           addr.IA
	Key          []byte // derived hop-field MAC key (16 bytes)
	Ifs          []IfCfg
	Svcs         []SvcCfg
	AuthSCMP     bool
	ReuseLocal   bool // sibling links get their own connected socket (linux) vs. share the internal one
	PortStart    uint16
	PortEnd      uint16
	NoPortRange  bool // do not call SetPortRange at all
	RunConfig    router.RunConfig
	NoStart      bool   // do not mark the data plane running (the harness calls the real Run)
	ConnFactory  func(l, r netip.AddrPort) router.BatchConn // scripted connections (scheduler harness)
	InternalAddr string // default 10.0.0.1:30042
	BFDCfg       *control.BFD
}

type Router struct {
	*router.VerifDP
	Cfg    Cfg
	Opener *Opener
	stock  []StockPkt
	// Recycle makes Process reuse one packet object for all packets of this router, recycled the way the packet pool
	// recycles buffers (reset with the standard headroom; whatever reset leaves behind stays), as the receive loops
	// of the real router do. Not safe for concurrent Process calls.
	Recycle  bool
	recycled *router.Packet
}

func SiblingAddr(k int) string { return fmt.Sprintf("10.0.0.%d:30042", 1+k) }
func RemoteAddr(ifID uint16) string {
	return fmt.Sprintf("198.18.%d.%d:50000", ifID>>8, ifID&255)
}
func LocalExtAddr(ifID uint16) string {
	return fmt.Sprintf("198.19.%d.%d:50000", ifID>>8, ifID&255)
}

// Build configures a real data plane: SetIA, AddNeighborIA, SetKey, AddInternalInterface, external / sibling
// links, services, port range — the same calls control.ConfigDataplane makes — and marks it running.
func Build(c Cfg) (*Router, error) {
	if c.RunConfig.BatchSize == 0 {
		c.RunConfig = router.RunConfig{NumProcessors: 1, NumSlowPathProcessors: 1, BatchSize: 8}
	}
	if c.InternalAddr == "" {
		c.InternalAddr = "10.0.0.1:30042"
	}
	dp := router.VerifNewDP(c.RunConfig, c.AuthSCMP)
	op := &Opener{ReuseLocal: c.ReuseLocal, Conn: c.ConnFactory}
	dp.VerifSetConnOpener("udpip", op)
	if err := dp.SetIA(c.IA); err != nil {
		return nil, err
	}
	if err := dp.SetKey(c.Key); err != nil {
		return nil, err
	}
	ia := netip.MustParseAddrPort(c.InternalAddr)
	if err := dp.AddInternalInterface(addr.HostIP(ia.Addr()), "udpip", c.InternalAddr); err != nil {
		return nil, err
	}
	for _, f := range c.Ifs {
		if !f.Nbr.IsZero() {
			if err := dp.AddNeighborIA(f.ID, f.Nbr); err != nil {
				return nil, err
			}
		}
		disable := !f.BFD
		bfd := control.BFD{Disable: &disable}
		if c.BFDCfg != nil {
			bfd = *c.BFDCfg
			bfd.Disable = &disable
		}
		if f.Owner == 0 {
			li := control.LinkInfo{Provider: "udpip",
				Local:  control.LinkEnd{IA: c.IA, Addr: LocalExtAddr(f.ID), IfID: 0},
				Remote: control.LinkEnd{IA: f.Nbr, Addr: RemoteAddr(f.ID)},
				BFD:    bfd, LinkTo: f.LT, MTU: f.MTU}
			lh := addr.HostIP(netip.MustParseAddrPort(li.Local.Addr).Addr())
			rh := addr.HostIP(netip.MustParseAddrPort(li.Remote.Addr).Addr())
			if err := dp.AddExternalInterface(f.ID, li, lh, rh); err != nil {
				return nil, err
			}
		} else {
			li := control.LinkInfo{Provider: "udpip",
				Local:    control.LinkEnd{IA: c.IA, Addr: c.InternalAddr},
				Remote:   control.LinkEnd{IA: f.Nbr, Addr: SiblingAddr(f.Owner)},
				Instance: fmt.Sprintf("br-%d", f.Owner),
				BFD:      bfd, LinkTo: f.LT, MTU: f.MTU}
			lh := addr.HostIP(ia.Addr())
			rh := addr.HostIP(netip.MustParseAddrPort(li.Remote.Addr).Addr())
			if err := dp.AddNextHop(f.ID, li, lh, rh); err != nil {
				return nil, err
			}
		}
	}
	for _, s := range c.Svcs {
		if err := dp.AddSvc(s.SVC, addr.HostIP(netip.MustParseAddr(s.Host)), s.Port); err != nil {
			return nil, err
		}
	}
	if !c.NoPortRange {
		dp.SetPortRange(c.PortStart, c.PortEnd)
	}
	if !c.NoStart {
		dp.VerifStart()
	}
	return &Router{VerifDP: dp, Cfg: c, Opener: op}, nil
}

func MustBuild(c Cfg) *Router {
	r, err := Build(c)
	if err != nil {
		panic(err)
	}
	return r
}

// Ingress kinds for Recv.
type Ingress struct {
	Kind  int    // 0 internal (end host), 1 external link IfID, 2 sibling link to the owner of IfID
	IfID  uint16 // external ifID (Kind 1) or an interface owned by the sibling (Kind 2)
	SrcUD string // underlay source address for Kind 0 (default 10.0.0.100:31000)
}

var (
	FromHost = Ingress{Kind: 0}
)

func FromExt(id uint16) Ingress     { return Ingress{Kind: 1, IfID: id} }
func FromSibling(id uint16) Ingress { return Ingress{Kind: 2, IfID: id} }

// NewPacket wraps raw as received on the given ingress.
func (r *Router) NewPacket(raw []byte, in Ingress) *router.Packet {
	switch in.Kind {
	case 0:
		s := in.SrcUD
		if s == "" {
			s = "10.0.0.100:31000"
		}
		return router.VerifNewPacket(raw, r.VerifLink(0), net.UDPAddrFromAddrPort(netip.MustParseAddrPort(s)))
	default:
		l := r.VerifLink(in.IfID)
		if l == nil {
			panic(fmt.Sprintf("no link for interface %d", in.IfID))
		}
		return router.VerifNewPacket(raw, l, nil)
	}
}

// Result of pushing bytes through fast path (+ slow path when requested).
type Result struct {
	Fast    router.VerifOut
	Out     []byte // forwarded bytes (copy) when Fast.Disp == Forward
	Slow    *router.VerifOut
	SlowErr error
	SlowOut []byte
	Panic   any
}

// Process runs the real fast path and, when it asks for it, the real slow path on raw.
func (r *Router) Process(raw []byte, in Ingress) (res Result) {
	defer func() {
		if e := recover(); e != nil {
			res.Panic = e
		}
	}()
	pkt := r.NewPacket(raw, in)
	if r.Recycle {
		if r.recycled == nil {
			r.recycled = pkt
		} else {
			fresh := pkt
			pkt = r.recycled
			router.VerifReloadPacket(pkt, raw, fresh.Link, router.VerifPacketRemote(fresh))
		}
	}
	res.Fast = r.VerifProcess(pkt)
	switch res.Fast.Disp {
	case router.VerifForward:
		res.Out = append([]byte{}, res.Fast.Raw...)
	case router.VerifSlowPath:
		o, err := r.VerifSlowPath(pkt)
		res.Slow, res.SlowErr = &o, err
		if err == nil {
			res.SlowOut = append([]byte{}, o.Raw...)
		}
	}
	return res
}
