package rtr

import (
	"net"
	"net/netip"

	"github.com/scionproto/scion/router"
	"github.com/scionproto/scion/router/underlayproviders/udpip"
)

// Proc pushes byte strings through the receive path of a Router the way the running router does: link demux
// (computeProcID) -> fast path -> slow path, or the internal link's own processor (STUN). One packet buffer is
// recycled for all calls (like a pool packet), so outputs alias it and are valid until the next call.
type Proc struct {
	R   *Router
	pkt *router.Packet
}

func (r *Router) NewProc() *Proc {
	return &Proc{R: r, pkt: router.VerifNewPacket(nil, r.VerifLink(0), nil)}
}

var tailFill = func() (b [9000]byte) {
	for i := range b {
		b[i] = 0xa5
	}
	return
}()

type Stage int

const (
	StageDemuxDrop Stage = iota // rejected by the link's demux (external/sibling): never reaches a processor
	StageFast                   // handled by the fast path (and the slow path if it asked for it)
	StageInternal               // internal link: handed to the link's own processor (STUN)
)

type ProcResult struct {
	Stage   Stage
	Where   string // stage that panicked
	Panic   any
	Fast    router.VerifOut
	Out     []byte // forwarded bytes (Fast.Disp == Forward); aliases the packet buffer
	SlowRan bool
	SlowErr error
	Slow    router.VerifOut
	SlowOut []byte
	// internal-link processor
	IntErr  error
	IntDrop bool
	IntOut  []byte
	IntDst  *net.UDPAddr
}

func (in Ingress) link(r *Router) (router.Link, *net.UDPAddr) {
	if in.Kind == 0 {
		s := in.SrcUD
		if s == "" {
			s = "10.0.0.100:31000"
		}
		return r.VerifLink(0), net.UDPAddrFromAddrPort(netip.MustParseAddrPort(s))
	}
	return r.VerifLink(in.IfID), nil
}

// Run processes raw as received on in. demux=false skips the link demux (straight to the fast path).
func (p *Proc) Run(raw []byte, in Ingress, demux bool) (res ProcResult) {
	link, src := in.link(p.R)
	res.Where = "demux"
	defer func() {
		if e := recover(); e != nil {
			res.Panic = e
		}
	}()
	router.VerifReloadPacket(p.pkt, raw, link, src)
	// The recycled buffer holds whatever the previous packet left behind. Make what lies beyond the received bytes
	// a fixed pattern, so that a read past the packet's end gives the same result in every run.
	copy(p.pkt.RawPacket[len(raw):cap(p.pkt.RawPacket)], tailFill[:])
	res.Stage = StageFast
	if demux {
		if _, ok := udpip.VerifDemux(link, p.pkt.RawPacket, p.R.VerifNumProcessors()); !ok {
			if !udpip.VerifIsInternal(link) {
				res.Stage = StageDemuxDrop
				return res
			}
			res.Stage = StageInternal
			res.Where = "internal-link-processor"
			res.IntErr = udpip.VerifInternalProcessPacket(link, p.pkt)
			res.IntDrop = res.IntErr != nil || p.pkt.Link == nil
			if !res.IntDrop {
				res.IntOut = p.pkt.RawPacket
				res.IntDst = router.VerifPacketRemote(p.pkt)
			}
			return res
		}
	}
	res.Where = "fast-path"
	res.Fast = p.R.VerifProcess(p.pkt)
	switch res.Fast.Disp {
	case router.VerifForward:
		res.Out = res.Fast.Raw
	case router.VerifSlowPath:
		res.Where = "slow-path"
		res.SlowRan = true
		res.Slow, res.SlowErr = p.R.VerifSlowPath(p.pkt)
		if res.SlowErr == nil {
			res.SlowOut = res.Slow.Raw
		}
	}
	return res
}
