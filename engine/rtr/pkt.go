// Package rtr: clean-room SCION packet construction (hand serialised from doc/protocols/scion-header.rst) and a
// builder for real, fully configured border-router data planes (through the verif hook of /repo/router).
package rtr

import (
	"crypto/aes"
	"encoding/binary"
	"net/netip"
)

// ---- AES-CMAC for exactly one 16-byte block (RFC 4493), independent of scion's MAC code ----

func CMAC16(key []byte, msg [16]byte) [16]byte {
	c, err := aes.NewCipher(key)
	if err != nil {
		panic(err)
	}
	var l, k1 [16]byte
	c.Encrypt(l[:], l[:])
	carry := byte(0)
	for i := 15; i >= 0; i-- {
		k1[i] = l[i]<<1 | carry
		carry = l[i] >> 7
	}
	if l[0]&0x80 != 0 {
		k1[15] ^= 0x87
	}
	var x, out [16]byte
	for i := range x {
		x[i] = msg[i] ^ k1[i]
	}
	c.Encrypt(out[:], x[:])
	return out
}

// HopMACInput: the 16-byte MAC input block of a hop field (scion-header.rst, "Hop Field MAC Computation").
func HopMACInput(segID uint16, ts uint32, exp uint8, in, eg uint16) (b [16]byte) {
	binary.BigEndian.PutUint16(b[2:], segID)
	binary.BigEndian.PutUint32(b[4:], ts)
	b[9] = exp
	binary.BigEndian.PutUint16(b[10:], in)
	binary.BigEndian.PutUint16(b[12:], eg)
	return
}

// FullHopMAC returns the 16-byte MAC; the hop field carries its first 6 bytes.
func FullHopMAC(key []byte, segID uint16, ts uint32, exp uint8, in, eg uint16) [16]byte {
	return CMAC16(key, HopMACInput(segID, ts, exp, in, eg))
}

// ---- packet description ----

type Hop struct {
	In, Eg     uint16 // ConsIngress, ConsEgress
	Exp        uint8
	Mac        [6]byte
	InAlert    bool // I flag (ConsIngress router alert)
	EgAlert    bool // E flag
	FlagsExtra byte // reserved flag bits (normally 0)
}

type Seg struct {
	ConsDir, Peer bool
	SegID         uint16
	TS            uint32
	Hops          []Hop // in packet (traversal) order
}

type HostKind int

const (
	HostV4 HostKind = iota
	HostV6
	HostSVC
)

type Host struct {
	Kind HostKind
	IP   netip.Addr
	SVC  uint16
}

func V4(s string) Host   { return Host{Kind: HostV4, IP: netip.MustParseAddr(s)} }
func V6(s string) Host   { return Host{Kind: HostV6, IP: netip.MustParseAddr(s)} }
func SVC(v uint16) Host  { return Host{Kind: HostSVC, SVC: v} }
func (h Host) typeLen() byte {
	switch h.Kind {
	case HostV4:
		return 0x0 // T=0 L=0 (4 bytes)
	case HostV6:
		return 0x3 // T=0 L=3 (16 bytes)
	default:
		return 0x4 // T=1 L=0 (SVC, 4 bytes)
	}
}
func (h Host) bytes() []byte {
	switch h.Kind {
	case HostV4:
		a := h.IP.As4()
		return a[:]
	case HostV6:
		a := h.IP.As16()
		return a[:]
	default:
		return []byte{byte(h.SVC >> 8), byte(h.SVC), 0, 0}
	}
}

const (
	PathEmpty  = 0
	PathSCION  = 1
	PathOneHop = 2
	PathEPIC   = 3

	L4TCP  = 6
	L4UDP  = 17
	L4HBH  = 200
	L4E2E  = 201
	L4SCMP = 202
	L4BFD  = 203
)

type Pkt struct {
	TrafficClass uint8
	FlowID       uint32
	DstIA, SrcIA uint64
	Dst, Src     Host
	PathType     uint8
	CurrINF      uint8
	CurrHF       uint8
	Segs         []Seg
	RawPath      []byte // if set (PathSCION / PathEPIC): the serialised SCION path (meta, info and hop fields) to use instead of Segs
	// EPIC
	EpicTS, EpicCtr uint32
	PHVF, LHVF      [4]byte
	// extension headers (raw option bytes, padded by the caller to 4n+2) placed before L4
	HBH, E2E []byte
	HasHBH   bool
	HasE2E   bool
	L4       uint8
	Payload  []byte // L4 header + data, already serialised
}

// Layout records the byte offsets of the parts of a serialised packet.
type Layout struct {
	AddrHdrLen int
	PathOff    int // offset of the path (meta header for SCION, PktID for EPIC)
	MetaOff    int // offset of the SCION path meta header
	InfoOff    []int
	HopOff     []int
	HdrLen     int // SCION header length in bytes
	L4Off      int
	Total      int
}

func (p *Pkt) NumHops() int {
	n := 0
	for _, s := range p.Segs {
		n += len(s.Hops)
	}
	return n
}

// Serialize writes the packet exactly as described by scion-header.rst.
func (p *Pkt) Serialize() ([]byte, Layout) {
	var lay Layout
	dst, src := p.Dst.bytes(), p.Src.bytes()
	lay.AddrHdrLen = 16 + len(dst) + len(src)
	lay.PathOff = 12 + lay.AddrHdrLen
	pathLen := 0
	nh := p.NumHops()
	switch p.PathType {
	case PathSCION:
		pathLen = 4 + 8*len(p.Segs) + 12*nh
		if p.RawPath != nil {
			pathLen = len(p.RawPath)
		}
		lay.MetaOff = lay.PathOff
	case PathEPIC:
		pathLen = 16 + 4 + 8*len(p.Segs) + 12*nh
		if p.RawPath != nil {
			pathLen = 16 + len(p.RawPath)
		}
		lay.MetaOff = lay.PathOff + 16
	case PathOneHop:
		pathLen = 8 + 12 + 12
	}
	lay.HdrLen = 12 + lay.AddrHdrLen + pathLen
	ext := 0
	if p.HasHBH {
		ext += 2 + len(p.HBH)
	}
	if p.HasE2E {
		ext += 2 + len(p.E2E)
	}
	total := lay.HdrLen + ext + len(p.Payload)
	b := make([]byte, total)
	first := uint32(p.TrafficClass)<<20 | p.FlowID&0xfffff
	binary.BigEndian.PutUint32(b[0:], first)
	next := p.L4
	if p.HasE2E {
		next = L4E2E
	}
	if p.HasHBH {
		next = L4HBH
	}
	b[4] = next
	b[5] = byte(lay.HdrLen / 4)
	binary.BigEndian.PutUint16(b[6:], uint16(ext+len(p.Payload)))
	b[8] = p.PathType
	b[9] = p.Dst.typeLen()<<4 | p.Src.typeLen()
	binary.BigEndian.PutUint64(b[12:], p.DstIA)
	binary.BigEndian.PutUint64(b[20:], p.SrcIA)
	copy(b[28:], dst)
	copy(b[28+len(dst):], src)
	o := lay.PathOff
	switch p.PathType {
	case PathEPIC:
		binary.BigEndian.PutUint32(b[o:], p.EpicTS)
		binary.BigEndian.PutUint32(b[o+4:], p.EpicCtr)
		copy(b[o+8:], p.PHVF[:])
		copy(b[o+12:], p.LHVF[:])
		o += 16
		fallthrough
	case PathSCION:
		if p.RawPath != nil {
			copy(b[o:], p.RawPath)
			w := binary.BigEndian.Uint32(p.RawPath)
			ninf := 0
			nh := 0
			for _, sh := range []uint{12, 6, 0} {
				if l := int(w>>sh) & 63; l > 0 {
					ninf++
					nh += l
				}
			}
			for i := 0; i < ninf; i++ {
				lay.InfoOff = append(lay.InfoOff, o+4+8*i)
			}
			for i := 0; i < nh; i++ {
				lay.HopOff = append(lay.HopOff, o+4+8*ninf+12*i)
			}
			o += len(p.RawPath)
			break
		}
		var sl [3]uint32
		for i, s := range p.Segs {
			if i < 3 {
				sl[i] = uint32(len(s.Hops))
			}
		}
		binary.BigEndian.PutUint32(b[o:], uint32(p.CurrINF)<<30|uint32(p.CurrHF&63)<<24|sl[0]<<12|sl[1]<<6|sl[2])
		o += 4
		for _, s := range p.Segs {
			lay.InfoOff = append(lay.InfoOff, o)
			putInfo(b[o:], s)
			o += 8
		}
		for _, s := range p.Segs {
			for _, h := range s.Hops {
				lay.HopOff = append(lay.HopOff, o)
				putHop(b[o:], h)
				o += 12
			}
		}
	case PathOneHop:
		lay.InfoOff = append(lay.InfoOff, o)
		putInfo(b[o:], p.Segs[0])
		o += 8
		for i := 0; i < 2; i++ {
			lay.HopOff = append(lay.HopOff, o)
			if i < len(p.Segs[0].Hops) {
				putHop(b[o:], p.Segs[0].Hops[i])
			}
			o += 12
		}
	}
	if p.HasHBH {
		nx := p.L4
		if p.HasE2E {
			nx = L4E2E
		}
		b[o] = nx
		b[o+1] = byte((2+len(p.HBH))/4 - 1)
		copy(b[o+2:], p.HBH)
		o += 2 + len(p.HBH)
	}
	if p.HasE2E {
		b[o] = p.L4
		b[o+1] = byte((2+len(p.E2E))/4 - 1)
		copy(b[o+2:], p.E2E)
		o += 2 + len(p.E2E)
	}
	lay.L4Off = o
	copy(b[o:], p.Payload)
	lay.Total = total
	return b, lay
}

func putInfo(b []byte, s Seg) {
	if s.Peer {
		b[0] |= 2
	}
	if s.ConsDir {
		b[0] |= 1
	}
	binary.BigEndian.PutUint16(b[2:], s.SegID)
	binary.BigEndian.PutUint32(b[4:], s.TS)
}

func putHop(b []byte, h Hop) {
	b[0] = h.FlagsExtra
	if h.InAlert {
		b[0] |= 2
	}
	if h.EgAlert {
		b[0] |= 1
	}
	b[1] = h.Exp
	binary.BigEndian.PutUint16(b[2:], h.In)
	binary.BigEndian.PutUint16(b[4:], h.Eg)
	copy(b[6:], h.Mac[:])
}

// ---- checksum (RFC 1071 over the SCION pseudo header, scion-header.rst "Pseudo Header for Upper-Layer Checksum") ----

func Checksum(dstIA, srcIA uint64, dst, src Host, l4 uint8, upper []byte) uint16 {
	var ph []byte
	ph = binary.BigEndian.AppendUint64(ph, dstIA)
	ph = binary.BigEndian.AppendUint64(ph, srcIA)
	ph = append(ph, dst.bytes()...)
	ph = append(ph, src.bytes()...)
	ph = binary.BigEndian.AppendUint32(ph, uint32(len(upper)))
	ph = append(ph, 0, 0, 0, l4)
	sum := uint32(0)
	add := func(b []byte) {
		for i := 0; i+1 < len(b); i += 2 {
			sum += uint32(b[i])<<8 | uint32(b[i+1])
		}
		if len(b)%2 == 1 {
			sum += uint32(b[len(b)-1]) << 8
		}
	}
	add(ph)
	add(upper)
	for sum>>16 != 0 {
		sum = sum&0xffff + sum>>16
	}
	return ^uint16(sum)
}

// UDP builds a SCION/UDP upper layer with a correct checksum.
func (p *Pkt) SetUDP(srcPort, dstPort uint16, data []byte) {
	u := make([]byte, 8+len(data))
	binary.BigEndian.PutUint16(u[0:], srcPort)
	binary.BigEndian.PutUint16(u[2:], dstPort)
	binary.BigEndian.PutUint16(u[4:], uint16(len(u)))
	copy(u[8:], data)
	binary.BigEndian.PutUint16(u[6:], Checksum(p.DstIA, p.SrcIA, p.Dst, p.Src, L4UDP, u))
	p.L4 = L4UDP
	p.Payload = u
}

// SetSCMP builds an SCMP upper layer: type, code, checksum, body.
func (p *Pkt) SetSCMP(typ, code uint8, body []byte) {
	u := make([]byte, 4+len(body))
	u[0], u[1] = typ, code
	copy(u[4:], body)
	binary.BigEndian.PutUint16(u[2:], Checksum(p.DstIA, p.SrcIA, p.Dst, p.Src, L4SCMP, u))
	p.L4 = L4SCMP
	p.Payload = u
}
