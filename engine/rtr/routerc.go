package rtr

// Real start-up path: topology.json + master key on disk -> control.LoadConfig -> router.NewConnector ->
// control.ConfigDataplane (exactly what router/cmd/router/main.go does), with the recording connection opener.

import (
	"context"
	"crypto/hmac"
	"crypto/sha256"
	"encoding/base64"
	"encoding/binary"
	"encoding/json"
	"fmt"
	"net/netip"
	"os"
	"path/filepath"
	"strings"

	"github.com/scionproto/scion/pkg/addr"
	"github.com/scionproto/scion/private/env"
	"github.com/scionproto/scion/private/topology"
	"github.com/scionproto/scion/router"
	rconfig "github.com/scionproto/scion/router/config"
	"github.com/scionproto/scion/router/control"
)

// MasterKey0 is the AS master key written to keys/master0.key by BuildStartup.
var MasterKey0 = []byte{0x58, 0x1c, 0x2e, 0x86, 0x37, 0x91, 0x86, 0xb0, 0x32, 0x34, 0xc4, 0x27, 0x73, 0xb7, 0x31, 0x7f}

// DerivedKey0 is the hop-field MAC key the router derives from MasterKey0: PBKDF2-HMAC-SHA256, salt
// "Derive OF Key", 1000 iterations, 16 bytes (doc/cryptography; hand-written single-block PBKDF2).
func DerivedKey0() []byte { return pbkdf2Block1(MasterKey0, []byte("Derive OF Key"), 1000)[:16] }

func pbkdf2Block1(pw, salt []byte, iter int) []byte {
	prf := hmac.New(sha256.New, pw)
	prf.Write(salt)
	prf.Write(binary.BigEndian.AppendUint32(nil, 1))
	u := prf.Sum(nil)
	t := append([]byte{}, u...)
	for i := 1; i < iter; i++ {
		prf.Reset()
		prf.Write(u)
		u = prf.Sum(nil)
		for k := range t {
			t[k] ^= u[k]
		}
	}
	return t
}

// Startup describes a router started the way the binary starts it.
type Startup struct {
	Cfg       Cfg                  // IA, Ifs, Svcs, InternalAddr, ReuseLocal, AuthSCMP are used; Key/PortStart/PortEnd are ignored
	Router    rconfig.RouterConfig // [router] section of the .toml (buffer sizes, port-range overrides, BFD defaults)
	TopoRange string               // "dispatched_ports" of topology.json ("" = attribute absent)
	Dir       string               // scratch directory (topology.json and keys/ are written here)
	// ProviderOf, if set, names the underlay provider of an owned external interface ("" = attribute absent).
	ProviderOf func(ifID uint16) string
}

func ltName(lt topology.LinkType) string {
	b, _ := lt.MarshalText()
	return strings.ToUpper(string(b))
}

// TopologyJSON renders the topology file of the AS for Startup s (this router is "br-0", siblings "br-<k>").
func (s *Startup) TopologyJSON() []byte {
	c := &s.Cfg
	type ul struct {
		Provider string `json:"provider,omitempty"`
		Local    string `json:"local,omitempty"`
		Remote   string `json:"remote,omitempty"`
	}
	type bfd struct {
		Disable bool `json:"disable"`
	}
	type intf struct {
		Underlay ul     `json:"underlay"`
		IA       string `json:"isd_as"`
		LinkTo   string `json:"link_to"`
		MTU      int    `json:"mtu"`
		BFD      *bfd   `json:"bfd,omitempty"`
		Remote   uint16 `json:"remote_interface_id,omitempty"`
	}
	type br struct {
		InternalAddr string          `json:"internal_addr"`
		Interfaces   map[string]intf `json:"interfaces"`
	}
	type srv struct {
		Addr string `json:"addr"`
	}
	top := map[string]any{"isd_as": c.IA.String(), "mtu": 1472}
	if s.TopoRange != "" {
		top["dispatched_ports"] = s.TopoRange
	}
	core := false
	brs := map[string]*br{}
	internal := c.InternalAddr
	if internal == "" {
		internal = "10.0.0.1:30042"
	}
	for _, f := range c.Ifs {
		if f.LT == topology.Core {
			core = true
		}
		name := fmt.Sprintf("br-%d", f.Owner)
		b := brs[name]
		if b == nil {
			b = &br{InternalAddr: internal, Interfaces: map[string]intf{}}
			if f.Owner != 0 {
				b.InternalAddr = SiblingAddr(f.Owner)
			}
			brs[name] = b
		}
		mtu := f.MTU
		if mtu == 0 {
			mtu = 1472
		}
		i := intf{Underlay: ul{Local: LocalExtAddr(f.ID), Remote: RemoteAddr(f.ID)}, IA: f.Nbr.String(),
			LinkTo: ltName(f.LT), MTU: mtu, BFD: &bfd{Disable: !f.BFD}}
		if f.Owner == 0 && s.ProviderOf != nil {
			i.Underlay.Provider = s.ProviderOf(f.ID)
		}
		if f.LT == topology.Peer {
			i.Remote = 1000 + f.ID
		}
		b.Interfaces[fmt.Sprint(f.ID)] = i
	}
	if brs["br-0"] == nil {
		brs["br-0"] = &br{InternalAddr: internal, Interfaces: map[string]intf{}}
	}
	if core {
		top["attributes"] = []string{"core"}
	} else {
		top["attributes"] = []string{}
	}
	top["border_routers"] = brs
	cs, ds := map[string]srv{}, map[string]srv{}
	for i, sv := range c.Svcs {
		a := netip.AddrPortFrom(netip.MustParseAddr(sv.Host), sv.Port).String()
		switch sv.SVC.Base() {
		case addr.SvcCS:
			cs[fmt.Sprintf("cs-%d", i)] = srv{a}
		case addr.SvcDS:
			ds[fmt.Sprintf("ds-%d", i)] = srv{a}
		}
	}
	if len(cs) > 0 {
		top["control_service"] = cs
	}
	if len(ds) > 0 {
		top["discovery_service"] = ds
	}
	out, err := json.MarshalIndent(top, "", " ")
	if err != nil {
		panic(err)
	}
	return out
}

// BuildStartup writes the configuration directory and runs the real start-up sequence. The returned Router's
// Cfg.Key is the derived hop-field key, Cfg.PortStart/PortEnd are what the data plane ended up with.
func BuildStartup(s Startup) (*Router, *router.Connector, error) {
	if err := os.MkdirAll(filepath.Join(s.Dir, "keys"), 0o755); err != nil {
		return nil, nil, err
	}
	if err := os.WriteFile(filepath.Join(s.Dir, "topology.json"), s.TopologyJSON(), 0o644); err != nil {
		return nil, nil, err
	}
	k := []byte(base64.StdEncoding.EncodeToString(MasterKey0))
	for _, n := range []string{"master0.key", "master1.key"} {
		if err := os.WriteFile(filepath.Join(s.Dir, "keys", n), k, 0o600); err != nil {
			return nil, nil, err
		}
	}
	conf, err := control.LoadConfig("br-0", s.Dir)
	if err != nil {
		return nil, nil, fmt.Errorf("LoadConfig: %w", err)
	}
	cn := router.NewConnector(s.Router, env.Features{ExperimentalSCMPAuthentication: s.Cfg.AuthSCMP})
	dp := router.VerifWrapDP(cn)
	op := &Opener{ReuseLocal: s.Cfg.ReuseLocal}
	dp.VerifSetConnOpener("udpip", op)
	iac := &control.IACtx{Config: conf, DP: cn}
	if err := iac.Configure(); err != nil {
		return nil, nil, fmt.Errorf("Configure: %w", err)
	}
	dp.VerifStart()
	c := s.Cfg
	c.Key = DerivedKey0()
	c.PortStart, c.PortEnd = dp.VerifPortRange()
	return &Router{VerifDP: dp, Cfg: c, Opener: op}, cn, nil
}

// BuildOrdered is Build with a caller-chosen order of the configuration steps "range" (SetPortRange), "internal"
// (AddInternalInterface) and "svc" (AddSvc for every configured service). External and sibling links are added
// after those (they need the internal link), then the data plane is marked running.
func BuildOrdered(c Cfg, order []string) (*Router, error) {
	if c.RunConfig.BatchSize == 0 {
		c.RunConfig = router.RunConfig{NumProcessors: 1, NumSlowPathProcessors: 1, BatchSize: 8}
	}
	if c.InternalAddr == "" {
		c.InternalAddr = "10.0.0.1:30042"
	}
	dp := router.VerifNewDP(c.RunConfig, c.AuthSCMP)
	op := &Opener{ReuseLocal: c.ReuseLocal}
	dp.VerifSetConnOpener("udpip", op)
	if err := dp.SetIA(c.IA); err != nil {
		return nil, err
	}
	if err := dp.SetKey(c.Key); err != nil {
		return nil, err
	}
	ia := netip.MustParseAddrPort(c.InternalAddr)
	seen := map[string]bool{}
	for _, step := range order {
		if seen[step] {
			return nil, fmt.Errorf("step %q twice", step)
		}
		seen[step] = true
		switch step {
		case "range":
			dp.SetPortRange(c.PortStart, c.PortEnd)
		case "internal":
			if err := dp.AddInternalInterface(addr.HostIP(ia.Addr()), "udpip", c.InternalAddr); err != nil {
				return nil, err
			}
		case "svc":
			for _, s := range c.Svcs {
				if err := dp.AddSvc(s.SVC, addr.HostIP(netip.MustParseAddr(s.Host)), s.Port); err != nil {
					return nil, err
				}
			}
		default:
			return nil, fmt.Errorf("unknown step %q", step)
		}
	}
	if !seen["internal"] {
		return nil, fmt.Errorf("order lacks the internal interface")
	}
	for _, f := range c.Ifs {
		if !f.Nbr.IsZero() {
			if err := dp.AddNeighborIA(f.ID, f.Nbr); err != nil {
				return nil, err
			}
		}
		disable := !f.BFD
		bfd := control.BFD{Disable: &disable}
		if c.BFDCfg != nil {
			bfd = *c.BFDCfg
			bfd.Disable = &disable
		}
		if f.Owner == 0 {
			li := control.LinkInfo{Provider: "udpip",
				Local:  control.LinkEnd{IA: c.IA, Addr: LocalExtAddr(f.ID)},
				Remote: control.LinkEnd{IA: f.Nbr, Addr: RemoteAddr(f.ID)},
				BFD:    bfd, LinkTo: f.LT, MTU: f.MTU}
			lh := addr.HostIP(netip.MustParseAddrPort(li.Local.Addr).Addr())
			rh := addr.HostIP(netip.MustParseAddrPort(li.Remote.Addr).Addr())
			if err := dp.AddExternalInterface(f.ID, li, lh, rh); err != nil {
				return nil, err
			}
		} else {
			li := control.LinkInfo{Provider: "udpip",
				Local:    control.LinkEnd{IA: c.IA, Addr: c.InternalAddr},
				Remote:   control.LinkEnd{IA: f.Nbr, Addr: SiblingAddr(f.Owner)},
				Instance: fmt.Sprintf("br-%d", f.Owner),
				BFD:      bfd, LinkTo: f.LT, MTU: f.MTU}
			rh := addr.HostIP(netip.MustParseAddrPort(li.Remote.Addr).Addr())
			if err := dp.AddNextHop(f.ID, li, addr.HostIP(ia.Addr()), rh); err != nil {
				return nil, err
			}
		}
	}
	dp.VerifStart()
	return &Router{VerifDP: dp, Cfg: c, Opener: op}, nil
}

// OneHop builds a one-hop-path packet (doc/protocols/scion-header.rst, "One-Hop Path Type") entering the AS on
// interface ingress from the neighbour: info field ConsDir=1, first hop of the neighbour (opaque to this router),
// second hop empty.
func OneHop(srcIA, dstIA uint64, src, dst Host, ts uint32) Pkt {
	return Pkt{TrafficClass: 0, FlowID: 0x12345, PathType: PathOneHop, SrcIA: srcIA, DstIA: dstIA, Src: src, Dst: dst,
		Segs: []Seg{{ConsDir: true, SegID: 0x4242, TS: ts, Hops: []Hop{{In: 0, Eg: 77, Exp: 63,
			Mac: [6]byte{9, 8, 7, 6, 5, 4}}}}}}
}

// StartLinks does the underlay half of dataPlane.Run: packet pool, processor queues and provider.Start (which runs the
// real BFD sessions of the links, the internal link's processor and the receive/send loops of every connection). No
// packet processors are started: the caller pushes packets through Process. Undo with StopLinks (real Shutdown).
func (r *Router) StartLinks(ctx context.Context) {
	r.VerifInitPool(8)
	qs, _ := r.VerifInitQueues(8)
	r.VerifUnderlay("udpip").Start(ctx, r.VerifPool(), qs)
}

func (r *Router) StopLinks() { r.Shutdown() }

// BFDControl serialises a BFD control packet (RFC 5880 section 4.1) without authentication section.
func BFDControl(state uint8, detectMult uint8, my, your uint32, desiredMinTxUs, requiredMinRxUs uint32) []byte {
	b := make([]byte, 24)
	b[0] = 1 << 5 // version 1, diag 0
	b[1] = state << 6
	b[2] = detectMult
	b[3] = 24
	binary.BigEndian.PutUint32(b[4:], my)
	binary.BigEndian.PutUint32(b[8:], your)
	binary.BigEndian.PutUint32(b[12:], desiredMinTxUs)
	binary.BigEndian.PutUint32(b[16:], requiredMinRxUs)
	return b
}
