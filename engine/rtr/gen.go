package rtr

import (
	"crypto/aes"
	"crypto/cipher"
	"encoding/binary"
	"fmt"

	"github.com/scionproto/scion/pkg/addr"
	"github.com/scionproto/scion/private/topology"
)

// EpicHVF: clean-room EPIC hop validation field (doc/protocols/... EPIC-HP: AES-CBC-MAC keyed with the 16-byte
// hop authenticator over flags|infoTS|pktID|srcIA|srcHost|payloadLen, zero padded; first 4 bytes of last block).
func EpicHVF(auth [16]byte, infoTS, epicTS, ctr uint32, srcIA uint64, src Host, payloadLen uint16) (out [4]byte) {
	var in []byte
	in = append(in, src.typeLen()&3)
	in = binary.BigEndian.AppendUint32(in, infoTS)
	in = binary.BigEndian.AppendUint32(in, epicTS)
	in = binary.BigEndian.AppendUint32(in, ctr)
	in = binary.BigEndian.AppendUint64(in, srcIA)
	in = append(in, src.bytes()...)
	in = binary.BigEndian.AppendUint16(in, payloadLen)
	for len(in)%16 != 0 {
		in = append(in, 0)
	}
	blk, _ := aes.NewCipher(auth[:])
	iv := make([]byte, 16)
	cipher.NewCBCEncrypter(blk, iv).CryptBlocks(in, in)
	copy(out[:], in[len(in)-16:])
	return
}

// ---- the AS under test ----

var (
	LocalIA  = addr.MustParseIA("1-ff00:0:110")
	KeyA     = []byte{0x11, 0x22, 0x33, 0x44, 0x55, 0x66, 0x77, 0x88, 0x99, 0xaa, 0xbb, 0xcc, 0xdd, 0xee, 0xff, 0x01}
	KeyB     = []byte{0xfe, 0xdc, 0xba, 0x98, 0x76, 0x54, 0x32, 0x10, 0x0f, 0x1e, 0x2d, 0x3c, 0x4b, 0x5a, 0x69, 0x78}
	// forwarding keys of the other two AES key sizes (SetKey accepts whatever aes.NewCipher accepts)
	KeyL24 = []byte{0x24, 0x01, 0x02, 0x03, 0x04, 0x05, 0x06, 0x07, 0x08, 0x09, 0x0a, 0x0b, 0x0c, 0x0d, 0x0e, 0x0f, 0xa0, 0xa1, 0xa2, 0xa3, 0xa4, 0xa5, 0xa6, 0xa7}
	KeyL32 = []byte{0x32, 0x11, 0x12, 0x13, 0x14, 0x15, 0x16, 0x17, 0x18, 0x19, 0x1a, 0x1b, 0x1c, 0x1d, 0x1e, 0x1f, 0xb0, 0xb1, 0xb2, 0xb3, 0xb4, 0xb5, 0xb6, 0xb7, 0xb8, 0xb9, 0xba, 0xbb, 0xbc, 0xbd, 0xbe, 0xbf}
	KeyOther = []byte{1, 2, 3, 4, 5, 6, 7, 8, 9, 10, 11, 12, 13, 14, 15, 16}
)

func NbrIA(ifID uint16) addr.IA {
	return addr.MustParseIA(fmt.Sprintf("1-ff00:0:%x", 0x200+int(ifID)))
}

// StdIfs: interfaces of the AS. multi=false: one border router owns everything.
func StdIfs(multi bool) []IfCfg {
	ifs := []IfCfg{
		{ID: 1, LT: topology.Core}, {ID: 6, LT: topology.Core}, {ID: 2, LT: topology.Parent},
		{ID: 3, LT: topology.Child}, {ID: 4, LT: topology.Child}, {ID: 5, LT: topology.Peer},
	}
	if multi {
		ifs = append(ifs, IfCfg{ID: 11, LT: topology.Core, Owner: 1}, IfCfg{ID: 12, LT: topology.Parent, Owner: 1},
			IfCfg{ID: 13, LT: topology.Child, Owner: 1}, IfCfg{ID: 15, LT: topology.Peer, Owner: 1},
			IfCfg{ID: 23, LT: topology.Child, Owner: 2})
	}
	for i := range ifs {
		ifs[i].Nbr = NbrIA(ifs[i].ID)
	}
	return ifs
}

func StdCfg(multi bool, key []byte) Cfg {
	return Cfg{IA: LocalIA, Key: key, Ifs: StdIfs(multi), PortStart: 1024, PortEnd: 65535,
		Svcs: []SvcCfg{{SVC: addr.SvcCS, Host: "10.0.0.50", Port: 30252}}}
}

func (c *Cfg) If(id uint16) *IfCfg {
	for i := range c.Ifs {
		if c.Ifs[i].ID == id {
			return &c.Ifs[i]
		}
	}
	return nil
}

func (c *Cfg) byLT(lt topology.LinkType) (own, sib []uint16) {
	for _, f := range c.Ifs {
		if f.LT != lt {
			continue
		}
		if f.Owner == 0 {
			own = append(own, f.ID)
		} else {
			sib = append(sib, f.ID)
		}
	}
	return
}

// ---- valid packet space ----

type SegKind int

const (
	Up SegKind = iota
	Core
	Down
)

type Shape struct {
	Kinds       []SegKind
	Lens        []int
	CoreConsDir bool
	Peering     bool
	Shortcut    bool // up->down join at a non-core AS: the joined hop fields keep their unused parent interfaces
}

func (s Shape) String() string {
	n := []string{"up", "core", "down"}
	out := ""
	for i, k := range s.Kinds {
		out += fmt.Sprintf("%s%d", n[k], s.Lens[i])
		if i+1 < len(s.Kinds) {
			out += "+"
		}
	}
	if s.Peering {
		out += "/peer"
	}
	if s.Shortcut {
		out += "/shortcut"
	}
	if s.CoreConsDir {
		out += "/coreCD"
	}
	return out
}

// Shapes returns the path shapes of the design (1-3 segments, peering, shortcut, both core directions).
func Shapes() []Shape {
	var out []Shape
	add := func(k []SegKind, l []int, peer, short bool) {
		hasCore := false
		for _, x := range k {
			if x == Core {
				hasCore = true
			}
		}
		for cd := 0; cd < 2; cd++ {
			if cd == 1 && !hasCore {
				continue
			}
			out = append(out, Shape{Kinds: k, Lens: l, CoreConsDir: cd == 1, Peering: peer, Shortcut: short})
		}
	}
	for _, n := range []int{2, 3} {
		add([]SegKind{Up}, []int{n}, false, false)
		add([]SegKind{Core}, []int{n}, false, false)
		add([]SegKind{Down}, []int{n}, false, false)
	}
	for _, l := range [][]int{{2, 2}, {3, 2}, {2, 3}} {
		add([]SegKind{Up, Core}, l, false, false)
		add([]SegKind{Core, Down}, l, false, false)
		add([]SegKind{Up, Down}, l, false, false)
		add([]SegKind{Up, Down}, l, false, true)
	}
	for _, l := range [][]int{{1, 1}, {2, 1}, {1, 2}, {2, 2}} {
		add([]SegKind{Up, Down}, l, true, false)
	}
	for _, l := range [][]int{{2, 2, 2}, {3, 2, 2}} {
		add([]SegKind{Up, Core, Down}, l, false, false)
	}
	return out
}

// VHop is a hop this router has to validate.
type VHop struct {
	Hop   int    // global hop index
	Inf   int    // info field index
	Sigma uint16 // accumulator value the MAC was created with
	TS    uint32
}

// Case is one packet that is valid at the router under test, with everything the oracles need.
type Case struct {
	Name      string
	Shape     Shape
	Pkt       Pkt
	In        Ingress
	V         []VHop
	Xover     bool
	Deliver   bool
	EgressIf  uint16 // travel egress interface (0 when delivering)
	EgressOwn bool
	// expected state after processing (valid packet)
	ExpCurrHF, ExpCurrINF uint8
	ExpSegID              map[int]uint16 // info index -> SegID after processing (only entries that matter)
}

type genHop struct {
	tin, tout topology.LinkType // travel-direction link types (Unset = none)
}

func (s Shape) consDir(seg int) bool {
	switch s.Kinds[seg] {
	case Up:
		return false
	case Down:
		return true
	}
	return s.CoreConsDir
}

// linkTypes of hop i of segment seg, in travel direction.
func (s Shape) hopLT(seg, i int) (tin, tout topology.LinkType) {
	n := s.Lens[seg]
	switch s.Kinds[seg] {
	case Up:
		tin, tout = topology.Child, topology.Parent
	case Core:
		tin, tout = topology.Core, topology.Core
	case Down:
		tin, tout = topology.Parent, topology.Child
	}
	if i == 0 {
		tin = topology.Unset
		if s.Peering && seg == 1 {
			tin = topology.Peer
		}
	}
	if i == n-1 {
		tout = topology.Unset
		if s.Peering && seg == 0 {
			tout = topology.Peer
		}
	}
	return
}

const BaseTS = 946684800 - 100 // bubble start (2000-01-01T00:00:00Z) minus 100 s

// Cases enumerates every (shape, position of the AS under test, interface choice, arrival kind) that yields a
// packet the router must accept. key is the AS's hop-field key; ts the info-field timestamp; exp the ExpTime.
func Cases(cfg *Cfg, key []byte, ts uint32, exp uint8) []Case {
	return CasesP(cfg, key, Params{TS: ts, Exp: exp})
}

// Params of the generated packets. ExpV (if UseExpV) overrides the ExpTime of the validated hops (index 0: current
// hop, 1: first hop of the next segment at a cross-over).
type Params struct {
	TS      uint32
	Exp     uint8
	UseExpV bool
	ExpV    [2]uint8
}

func CasesP(cfg *Cfg, key []byte, prm Params) []Case {
	ts, exp := prm.TS, prm.Exp
	var out []Case
	for _, sh := range Shapes() {
		total := 0
		for _, l := range sh.Lens {
			total += l
		}
		segStart := make([]int, len(sh.Lens)+1)
		for i, l := range sh.Lens {
			segStart[i+1] = segStart[i] + l
		}
		segOf := func(h int) int {
			for s := range sh.Lens {
				if h < segStart[s+1] {
					return s
				}
			}
			return len(sh.Lens) - 1
		}
		for h := 0; h < total; h++ {
			s := segOf(h)
			i := h - segStart[s]
			firstOfSeg, lastOfSeg := i == 0, i == sh.Lens[s]-1
			peerHop := sh.Peering && ((s == 0 && lastOfSeg) || (s == 1 && firstOfSeg))
			xover := lastOfSeg && h != total-1 && !peerHop
			afterXover := firstOfSeg && s > 0 && !peerHop
			tin, tout := sh.hopLT(s, i)
			// choose interfaces
			type choice struct {
				in, eg       uint16
				inSib, egSib bool
			}
			var choices []choice
			var ins, egs []choice
			if afterXover {
				// entered the AS through the previous segment's last hop; that interface belongs to a sibling
				ptin, _ := sh.hopLT(s-1, sh.Lens[s-1]-1)
				_, sib := cfg.byLT(ptin)
				for _, id := range sib {
					ins = append(ins, choice{in: id, inSib: true})
				}
			} else if tin == topology.Unset {
				ins = append(ins, choice{in: 0})
			} else {
				own, sib := cfg.byLT(tin)
				for _, id := range own {
					ins = append(ins, choice{in: id})
				}
				if !xover { // arrival from a sibling at a cross-over hop is not produced by a correct sibling
					for _, id := range sib {
						ins = append(ins, choice{in: id, inSib: true})
					}
				}
			}
			etout := tout
			if xover {
				_, etout = sh.hopLT(s+1, 0)
			}
			if etout == topology.Unset {
				egs = append(egs, choice{eg: 0})
			} else {
				own, sib := cfg.byLT(etout)
				for _, id := range own {
					egs = append(egs, choice{eg: id})
				}
				for _, id := range sib {
					egs = append(egs, choice{eg: id, egSib: true})
				}
			}
			for _, a := range ins {
				for _, b := range egs {
					if a.in == b.eg && a.in != 0 {
						continue
					}
					if a.inSib && (b.egSib || b.eg == 0) {
						continue // from a sibling: must leave through our own external interface
					}
					if a.in == 0 && !a.inSib && b.egSib {
						continue // from a host: must leave through our own external interface
					}
					if a.in == 0 && b.eg == 0 {
						continue
					}
					choices = append(choices, choice{a.in, b.eg, a.inSib, b.egSib})
				}
			}
			for _, ch := range choices {
				c := Case{Shape: sh, Xover: xover, Deliver: ch.eg == 0, EgressIf: ch.eg, EgressOwn: ch.eg != 0 && !ch.egSib}
				c.Name = fmt.Sprintf("%s@%d in=%d%s eg=%d%s", sh, h, ch.in, map[bool]string{true: "(sib)"}[ch.inSib],
					ch.eg, map[bool]string{true: "(sib)"}[ch.egSib])
				p := Pkt{TrafficClass: 0xb8, FlowID: 0xdead1, PathType: PathSCION,
					SrcIA: uint64(addr.MustParseIA("1-ff00:0:901")), DstIA: uint64(addr.MustParseIA("1-ff00:0:902")),
					Src: V4("172.16.1.1"), Dst: V4("172.16.2.2")}
				if h == 0 {
					p.SrcIA = uint64(cfg.IA)
					p.Src = V4("10.0.0.100")
				}
				if h == total-1 {
					p.DstIA = uint64(cfg.IA)
					p.Dst = V4("10.0.0.200")
				}
				// foreign filler
				for si, l := range sh.Lens {
					sg := Seg{ConsDir: sh.consDir(si), Peer: sh.Peering, SegID: uint16(0x5000 + 0x111*si), TS: ts}
					for k := 0; k < l; k++ {
						g := segStart[si] + k
						sg.Hops = append(sg.Hops, Hop{In: uint16(700 + 2*g), Eg: uint16(701 + 2*g), Exp: exp,
							Mac: [6]byte{byte(g), 0xa5, byte(3 * g), 0x5a, byte(7 * g), 0xc3}})
					}
					p.Segs = append(p.Segs, sg)
				}
				vcount := 0
				setHop := func(g int, travelIn, travelOut uint16, sigma uint16) [16]byte {
					si := segOf(g)
					hp := &p.Segs[si].Hops[g-segStart[si]]
					exp := exp
					if prm.UseExpV {
						exp = prm.ExpV[vcount]
						hp.Exp = exp
					}
					vcount++
					if p.Segs[si].ConsDir {
						hp.In, hp.Eg = travelIn, travelOut
					} else {
						hp.In, hp.Eg = travelOut, travelIn
					}
					full := FullHopMAC(key, sigma, ts, exp, hp.In, hp.Eg)
					copy(hp.Mac[:], full[:6])
					return full
				}
				unused := func(lt topology.LinkType) uint16 { // an interface that plays no role (shortcut leftovers)
					own, sib := cfg.byLT(lt)
					if len(own) > 0 {
						return own[len(own)-1]
					}
					if len(sib) > 0 {
						return sib[0]
					}
					return 0
				}
				external := ch.in != 0 && !ch.inSib
				sigma := uint16(0x1357 + 0x101*h)
				c.ExpSegID = map[int]uint16{}
				switch {
				case xover:
					out1 := uint16(0)
					in2 := uint16(0)
					if sh.Shortcut {
						out1, in2 = unused(topology.Parent), unused(topology.Parent)
					}
					m1 := setHop(h, ch.in, out1, sigma)
					sigma2 := uint16(0x2468 + 0x11*h)
					m2 := setHop(h+1, in2, ch.eg, sigma2)
					c.V = []VHop{{h, s, sigma, ts}, {h + 1, s + 1, sigma2, ts}}
					// in flight
					p.Segs[s].SegID = sigma
					if !p.Segs[s].ConsDir && external {
						p.Segs[s].SegID = sigma ^ binary.BigEndian.Uint16(m1[:2])
					}
					p.Segs[s+1].SegID = sigma2
					c.ExpSegID[s] = sigma
					c.ExpSegID[s+1] = sigma2
					c.ExpCurrHF = uint8(h + 1)
					if c.EgressOwn {
						c.ExpCurrHF = uint8(h + 2)
						if p.Segs[s+1].ConsDir {
							c.ExpSegID[s+1] = sigma2 ^ binary.BigEndian.Uint16(m2[:2])
						}
					}
				default:
					tIn, tOut := ch.in, ch.eg
					if afterXover {
						// our hop field does not name the AS ingress; the previous hop (validated by the sibling) does
						tIn = 0
						if sh.Shortcut {
							tIn = unused(topology.Parent)
						}
						setHopForeign := func(g int, travelIn, travelOut uint16) {
							si := segOf(g)
							hp := &p.Segs[si].Hops[g-segStart[si]]
							if p.Segs[si].ConsDir {
								hp.In, hp.Eg = travelIn, travelOut
							} else {
								hp.In, hp.Eg = travelOut, travelIn
							}
						}
						po := uint16(0)
						if sh.Shortcut {
							po = unused(topology.Parent)
						}
						setHopForeign(h-1, ch.in, po)
					}
					m := setHop(h, tIn, tOut, sigma)
					c.V = []VHop{{h, s, sigma, ts}}
					p.Segs[s].SegID = sigma
					if !p.Segs[s].ConsDir && external && !peerHop {
						p.Segs[s].SegID = sigma ^ binary.BigEndian.Uint16(m[:2])
					}
					c.ExpSegID[s] = sigma
					c.ExpCurrHF = uint8(h)
					if c.EgressOwn {
						c.ExpCurrHF = uint8(h + 1)
						if p.Segs[s].ConsDir && !peerHop {
							c.ExpSegID[s] = sigma ^ binary.BigEndian.Uint16(m[:2])
						}
					}
				}
				c.ExpCurrINF = uint8(segOf(int(c.ExpCurrHF)))
				p.CurrHF, p.CurrINF = uint8(h), uint8(s)
				p.SetUDP(40001, 40002, []byte("verif-payload"))
				switch {
				case ch.inSib:
					c.In = FromSibling(ch.in)
				case ch.in == 0:
					c.In = FromHost
				default:
					c.In = FromExt(ch.in)
				}
				c.Pkt = p
				out = append(out, c)
			}
		}
	}
	return out
}

// ExpectedOut computes the bytes a correct router forwards for this (valid) case from the input bytes.
func (c *Case) ExpectedOut(in []byte, lay Layout) []byte {
	out := append([]byte{}, in...)
	w := binary.BigEndian.Uint32(out[lay.MetaOff:])
	w = w&^(0xff<<24) | uint32(c.ExpCurrINF)<<30 | uint32(c.ExpCurrHF)<<24
	binary.BigEndian.PutUint32(out[lay.MetaOff:], w)
	for inf, v := range c.ExpSegID {
		binary.BigEndian.PutUint16(out[lay.InfoOff[inf]+2:], v)
	}
	return out
}

// HopRef returns the hop field of the packet with global index g.
func (p *Pkt) HopRef(g int) *Hop {
	for si := range p.Segs {
		if g < len(p.Segs[si].Hops) {
			return &p.Segs[si].Hops[g]
		}
		g -= len(p.Segs[si].Hops)
	}
	return nil
}

// Clone deep-copies the packet description.
func (p Pkt) Clone() Pkt {
	q := p
	q.Segs = make([]Seg, len(p.Segs))
	for i, s := range p.Segs {
		q.Segs[i] = s
		q.Segs[i].Hops = append([]Hop{}, s.Hops...)
	}
	q.Payload = append([]byte{}, p.Payload...)
	return q
}

// WithEPIC turns the packet into an EPIC packet whose HVFs are valid for the validated hop `auth` (the full MAC
// of the hop this router will have validated last) when this router is penultimate / last.
func (c *Case) WithEPIC(key []byte, epicTS uint32) Pkt {
	p := c.Pkt.Clone()
	p.PathType = PathEPIC
	p.EpicTS, p.EpicCtr = epicTS, 0x01000007
	v := c.V[len(c.V)-1]
	hp := p.HopRef(v.Hop)
	full := FullHopMAC(key, v.Sigma, v.TS, hp.Exp, hp.In, hp.Eg)
	plen := uint16(len(p.Payload))
	if p.HasHBH {
		plen += uint16(2 + len(p.HBH))
	}
	if p.HasE2E {
		plen += uint16(2 + len(p.E2E))
	}
	hvf := EpicHVF(full, p.Segs[0].TS, p.EpicTS, p.EpicCtr, p.SrcIA, p.Src, plen)
	p.PHVF, p.LHVF = hvf, hvf
	return p
}
