package rtr

import (
	"bytes"
	"fmt"

	"github.com/scionproto/scion/router"
)

// History independence: what a router does with a packet must not depend on which packets the same processor
// handled before (the processors are long-lived objects with cached per-packet state). ProcessH runs raw three
// times on this router - on freshly created processors, after a "dirtying" packet of a different kind, and
// directly after an identical-path valid twin when one is given - and reports any difference in the observable
// result. The returned Result is the one of the fresh processors.

// Stock returns packets of several kinds (cross-over, peering, in-segment transit, from host, delivery, EPIC) that
// are valid at this router; they are used to dirty a processor.
func (r *Router) Stock(key []byte, ts uint32) []StockPkt {
	if r.stock != nil {
		return r.stock
	}
	cfg := r.Cfg
	cases := Cases(&cfg, key, ts, 63)
	seen := map[string]bool{}
	for i := range cases {
		c := &cases[i]
		kind := fmt.Sprintf("x%v/p%v/in%d/del%v/own%v/segs%d", c.Xover, c.Shape.Peering, c.In.Kind, c.Deliver, c.EgressOwn, len(c.Shape.Lens))
		if seen[kind] {
			continue
		}
		seen[kind] = true
		raw, _ := c.Pkt.Serialize()
		r.stock = append(r.stock, StockPkt{Kind: kind, Raw: raw, In: c.In})
		ep := c.WithEPIC(key, 0)
		eraw, _ := ep.Serialize()
		r.stock = append(r.stock, StockPkt{Kind: kind + "/epic", Raw: eraw, In: c.In})
	}
	return r.stock
}

type StockPkt struct {
	Kind string
	Raw  []byte
	In   Ingress
}

func sameResult(a, b Result) string {
	switch {
	case (a.Panic == nil) != (b.Panic == nil):
		return "panic differs"
	case a.Fast.Disp != b.Fast.Disp:
		return fmt.Sprintf("disposition %d vs %d", a.Fast.Disp, b.Fast.Disp)
	case a.Fast.Disp == router.VerifForward && (a.Fast.Egress != b.Fast.Egress || !bytes.Equal(a.Out, b.Out)):
		return fmt.Sprintf("forwarded differently: egress %d vs %d, bytes equal=%v", a.Fast.Egress, b.Fast.Egress, bytes.Equal(a.Out, b.Out))
	case a.Fast.Disp == router.VerifSlowPath && (a.Fast.SPType != b.Fast.SPType || a.Fast.SPCode != b.Fast.SPCode ||
		a.Fast.SPPointer != b.Fast.SPPointer || (a.SlowErr == nil) != (b.SlowErr == nil) || !bytes.Equal(a.SlowOut, b.SlowOut)):
		return fmt.Sprintf("answered differently: (%d,%d,%d) vs (%d,%d,%d), bytes equal=%v", a.Fast.SPType, a.Fast.SPCode,
			a.Fast.SPPointer, b.Fast.SPType, b.Fast.SPCode, b.Fast.SPPointer, bytes.Equal(a.SlowOut, b.SlowOut))
	}
	return ""
}

// ProcessH: see above. stock: dirtying packets (rotated through by the caller via idx); twin: optional valid packet
// that shares the path with raw (processed immediately before raw in a third run).
func (r *Router) ProcessH(raw []byte, in Ingress, stock []StockPkt, idx int, twin []byte) (Result, string) {
	r.VerifStart() // fresh processors
	fresh := r.Process(raw, in)
	if len(stock) > 0 {
		s := stock[idx%len(stock)]
		r.Process(s.Raw, s.In)
		dirty := r.Process(raw, in)
		if d := sameResult(fresh, dirty); d != "" {
			return fresh, fmt.Sprintf("after a %s packet on the same processor: %s", s.Kind, d)
		}
	}
	if twin != nil {
		r.VerifStart()
		r.Process(twin, in)
		after := r.Process(raw, in)
		if d := sameResult(fresh, after); d != "" {
			return fresh, "after its valid twin on the same processor: " + d
		}
	}
	return fresh, ""
}
